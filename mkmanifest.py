#!/usr/bin/env python3
"""Regenerates MANIFEST.json from the table below (kept in one place so it stays valid)."""
import json, subprocess
ALL = ["C%02d" % i for i in range(1, 21)]
CHECKS = {
 "C13": dict(level="exploration", design="§4 C13",
   technique="runtime monitoring: round-trip oracle over generated write-API x length x buffer x fragmentation cases on the real Conn pair (in-memory stream), race detector on",
   text="Every generated message is written through the real webtransport.Conn write paths and read back on a peer Conn over an in-memory stream that fragments reads; the oracle demands exactly one message of the same kind and bytes per write, in order. Exploration of thousands of (API, length class, buffer size, role, fragmentation) tuples per run; held-on-what-was-run, not proof.",
   note="Trusts the in-memory stream (harness) to deliver bytes faithfully and the reference comparison (bytes.Equal). Lengths up to ~300 KB, buffer sizes 16..65536."),
 "C14": dict(level="exploration", design="§4 C14",
   technique="runtime monitoring: differential wire-format monitor (captured bytes vs independent reference encoder; reference-encoded streams incl. non-minimal length forms fed to the real reader)",
   text="Captured wire bytes of every generated message are compared byte-for-byte with an independent encoder written from the framing text (one minimal frame per message); conversely reference streams with minimal and non-minimal 16/64-bit length forms and zero-length frames are fed to the real reader and must yield the same messages.",
   note="Trusts refcodec.WTFrame (40 lines, itself cross-checked by its own decoder)."),
}
m = dict(
 version=1,
 setup_cmd="cd /verif && ./check --setup",
 hooks=dict(guard="verif", enable="go1.26.8 test -c -race -tags verif (harness module /verif/h with replace => /repo)",
   baseline_off_cmd="cd /repo && go test -vet=off -count=1 ./...",
   source_commits=subprocess.run(["git","-C","/repo","log","--format=%H","--grep=^verif:"],capture_output=True,text=True).stdout.split(),
   add_only=True),
 engines=[dict(name="verifh", path="/verif/h", serves_properties=sorted(CHECKS),
   kind_free_text="Go test binary (race detector on) driving the real engine.io code from /repo's working tree under generated workloads with online/offline monitors; driver /verif/check aggregates lanes, race reports, crashes, known findings and writes evidence")],
 checks=[], notes="See DESIGN.md. ./check <ID> quick|thorough; VERIF_SEED selects the PRNG seed; known findings in known-findings.txt.",
 not_applicable=[])
for pid in ALL:
    if pid in CHECKS:
        c = CHECKS[pid]
        m["checks"].append(dict(property_id=pid, quick_cmd=f"./check {pid} quick", thorough_cmd=f"./check {pid} thorough",
          evidence_file=f"/verif/evidence/{pid}.json", replay_cmd_template="cat {path}", engine="verifh",
          level_claimed=dict(category=c["level"], text=c["text"], design_ref=c["design"]), level_note=c["note"], technique=c["technique"]))
    else:
        m["not_applicable"].append(dict(property_id=pid, reason="check not built yet in this snapshot (work in progress; runtime monitoring applies, see DESIGN.md §4)"))
json.dump(m, open("/verif/MANIFEST.json","w"), indent=1)
print("checks:", len(m["checks"]), "n/a:", len(m["not_applicable"]))
