#!/usr/bin/env python3
"""Regenerates MANIFEST.json from the table below (kept in one place so it stays valid)."""
import json, subprocess
ALL = ["C%02d" % i for i in range(1, 21)]
CHECKS = {
 "C04": dict(level="exploration", design="§4 C04",
   technique="runtime monitoring: invariant hook evaluated at every quiescent point (synctest.Wait) of generated session histories incl. sessions killed inside the handshake window; id multiset + 16-goroutine storms, also under a degenerate random source; race detector (a race in the registry is a violation)",
   text="Generated histories of handshakes, closes by every cause, upgrades, stale requests and sessions that die while server.Handshake.afterNewSocket holds the handshake are run on one server; after every operation the bubble is quiesced and table == count == live announced sessions is asserted (no closed session reachable, no underflow), requests naming closed sessions must get 400 code 1, Server.Close must empty the table; ids are checked for uniqueness and URL-safety across the process and in concurrent storms, even when crypto/rand is replaced by a constant reader.",
   note="Quiescence is synctest.Wait plus 1 ms of virtual time; the handshake window is reached through a build-tagged hook."),
 "C12": dict(level="exploration", design="§4 C12",
   technique="runtime monitoring on virtual time: client-side receive log vs accepted sends around Close(false) (writer goroutine optionally held at *.send.start), bounded-time close oracle for silent clients, pending-poll release, one-close-per-session and empty-table oracle after Server/HttpServer shutdown",
   text="Generated cases on polling, WebSocket and in-memory WebTransport: graceful close with accepted-but-unsent packets (poll pending or absent; writer goroutine optionally held), silent clients (close within max(30 s, PI+PT)+PT of virtual time), a pending poll while the session closes by each cause (must be answered 200 with close/noop), Server.Close and HttpServer.Close with 1-20 mixed sessions incl. an upgrade in progress.",
   note="Known finding (not repaired): WebSocket/WebTransport DoClose tears the connection down concurrently with the asynchronous writer goroutine, so packets accepted before Close(false) can be lost; keyed per transport, the polling lanes stay strict."),
 "C03": dict(level="fault_enumeration", design="§4 C03",
   technique="runtime monitoring with fault enumeration: all ordered pairs of close causes fired at one virtual instant on every transport, goroutines held at hooked check-then-act windows and released in every order; per-session trace automaton over the event/ready-state log; registry invariant",
   text="Every single cause and every ordered pair of {peer disconnect, transport error, heartbeat expiry, Close(false), Close(true), Server.Close, parse error} is injected on polling, WebSocket and in-memory WebTransport sessions; goroutines arriving in socket.OnClose.window / socket.Close.window / server.Handshake.afterNewSocket are held and released in both orders (triples and PRNG orders in thorough). An automaton over the tap log checks forward-only state writes, exactly one close event with a reason attributable to an injected cause, silence after close, connection events only for open sessions, silent Send after close, and sessions without a cause staying open.",
   note="The pair space is enumerated completely; orders of release are enumerated for the hooked windows only. While a goroutine is held the harness settles on real time (2 ms) because the held goroutine can own a sync.Once of the emitter."),
 "C07": dict(level="exploration", design="§4 C07",
   technique="runtime monitoring on virtual time: offline checker over exact virtual timestamps of ping packetCreate, heartbeat and close events under a client-delay grid; gate lane between ping send and timeout arming; wrong-direction and EIO-mismatch lanes",
   text="Sessions run inside a synctest bubble so PI and PT deadlines are hit exactly; the client answers each ping at 0, PT/2, PT-1ns, PT, PT+1ns, never, twice or unsolicited (v4), or pings at fractions of PI+PT including exactly PI+PT (v3); the checker demands each ping exactly PI after open / after the accepted pong, 'ping timeout' exactly at ping+PT and never for a client that answered in time, v3 pongs for every ping and expiry exactly PI+PT after the last ping, and a transport-error close (only of that session) for wrong-direction heartbeats incl. sessions whose upgrade transport used another EIO value.",
   note="Virtual time is Go's synctest clock; coincidence at exactly the deadline instant is accepted either way. Hook socket.ping.between is a build-tagged yield point."),
 "C06": dict(level="exploration", design="§4 C06",
   technique="runtime monitoring: handshakes under generated server option combinations; open packet, registry, connection events, initial packet and heartbeat mode compared with the configuration (3-5 sessions per server)",
   text="For each generated option combination a real server is started and 3-5 clients handshake over polling, JSONP, WebSocket and in-memory WebTransport with EIO 4, 3 or absent; the monitor checks one connection event and one registry entry per admitted handshake, the open packet's JSON against the effective options (upgrades as a set), the initial packet as first message of every session with its kind, Protocol() and heartbeat mode per revision, and refusal of revision 3 when disallowed.",
   note="Trusts the reference decoder for the first response. WebTransport handshakes enter through server.Handshake with an in-memory stream, not through OnWebTransportSession."),
 "C16": dict(level="exploration", design="§4 C16",
   technique="runtime monitoring: every raw poll response (recorded by a wrapping http.Handler) decoded independently (RFC 9110 codings, strict JS string scanner for JSONP, reference payload codec) and matched to the flush events' batches by packet identity; header/body consistency rules",
   text="Generated polling and JSONP sessions with hostile text, binary packets, per-packet compress flags, Accept-Encoding variants (incl. look-alike tokens and q-values), thresholds and arbitrary j strings; each response is checked for Content-Length, Content-Type vs body nature, decodability under its Content-Encoding as HTTP defines it, compression only when requested/above threshold/named by Accept-Encoding, exact JSONP form with digits-only index and script-safe literal, and payload equality with the batch handed to the transport.",
   note="Trusts compress/gzip, compress/zlib, brotli, zstd decoders and refcodec. The open packet's content is not observable by packetCreate (created before the session is announced) and is matched by type."),
 "C17": dict(level="exploration", design="§4 C17",
   technique="runtime monitoring: response headers and initial_headers/headers events of generated session histories checked against a reference cookie rule and a reference CORS policy model",
   text="Generated servers (cookie shapes, CORS origin policy as '*', fixed string, list, regexp, mixed list, bool; credentials; preflightContinue; success status) and session histories (handshake, polls, posts, preflights from allowed / disallowed / look-alike / absent origins); the monitor checks Set-Cookie only on the handshake response with value == session id and configured attributes, initial_headers once per session, headers once per transport response, ACAO only for allowed origins, Vary: Origin when request-dependent, credentials only when configured, preflight answered with the configured status without creating a session.",
   note="The CORS reference model encodes only what the statement demands; exposed/allowed-headers echoing is not judged."),
 "C01": dict(level="exploration", design="§4 C01",
   technique="runtime monitoring on virtual time: recorded send/receive histories of real sessions (all four transports, upgrade mid-stream) checked by a per-sender exactly-once/prefix/kind oracle through an independent codec; gate-scheduled check-vs-flush interleaving; race detector",
   text="Hundreds to tens of thousands of generated sessions run against the real server inside a synctest bubble (real net/http, gorilla WebSocket and the WebTransport framing over in-memory connections). Every payload names its (sender, n); a conformant client actor decodes with the reference codec; the oracle demands per-sender received == sent in order, once, same bytes and kind, complete 600 virtual ms after the last Send, and that the session stayed open. A gate lane holds the upgrade's noop check after its writability test while the application sends.",
   note="Trusts refcodec, the fakenet connections and gorilla/websocket's client as the WebSocket peer. WebTransport runs over an in-memory stream (hook wt.nilSession), not QUIC. Known finding: parser dependency corrupts non-ASCII text in v3 binary payloads."),
 "C02": dict(level="exploration", design="§4 C02",
   technique="runtime monitoring: reference-encoded client submissions on every inbound encoding vs the server's message/data event log (order, bytes, kind, exactly once, truncation at close, 200 ok)",
   text="Generated packet lists are encoded by the reference codec in every supported form (v4 payload, v3 string/binary/base64 payloads, JSONP form bodies, WebSocket and WebTransport frames) and submitted to the real server; the monitor compares the session's message and data events with the submitted message packets up to the first close packet and checks nothing is delivered after it.",
   note="Trusts refcodec encoders (round-trip tested). Three defects of the parser dependency (outside /repo) are listed as known findings and exercised in dedicated lanes; the clean lanes avoid exactly those input classes."),
 "C13": dict(level="exploration", design="§4 C13",
   technique="runtime monitoring: round-trip oracle over generated write-API x length x buffer x fragmentation cases on the real Conn pair (in-memory stream), race detector on",
   text="Every generated message is written through the real webtransport.Conn write paths and read back on a peer Conn over an in-memory stream that fragments reads; the oracle demands exactly one message of the same kind and bytes per write, in order. Exploration of thousands of (API, length class, buffer size, role, fragmentation) tuples per run; held-on-what-was-run, not proof.",
   note="Trusts the in-memory stream (harness) to deliver bytes faithfully and the reference comparison (bytes.Equal). Lengths up to ~300 KB, buffer sizes 16..65536."),
 "C14": dict(level="exploration", design="§4 C14",
   technique="runtime monitoring: differential wire-format monitor (captured bytes vs independent reference encoder; reference-encoded streams incl. non-minimal length forms fed to the real reader)",
   text="Captured wire bytes of every generated message are compared byte-for-byte with an independent encoder written from the framing text (one minimal frame per message); conversely reference streams with minimal and non-minimal 16/64-bit length forms and zero-length frames are fed to the real reader and must yield the same messages.",
   note="Trusts refcodec.WTFrame (40 lines, itself cross-checked by its own decoder)."),
 "C15": dict(level="fault_enumeration", design="§4 C15",
   technique="runtime monitoring with fault enumeration: every corpus stream cut at every byte offset, ended by EOF and by an injected stream error, x read limits x consumption patterns; each return value of the real reader checked online against a reference parse",
   text="The real webtransport reader is driven over a corpus of byte streams (valid frame sequences incl. non-minimal forms, bit mutations, random bytes, 64-bit lengths up to 2^64-1), each truncated at EVERY offset and terminated by EOF and by an injected error, under six read limits and three consumption patterns; an online oracle checks no panic, bytes <= declared and <= supplied, limit -> ErrReadLimit + session close (hooked shim), truncated frame never reported complete, sticky errors. Fault points are enumerated completely per stream; the stream corpus itself is sampled.",
   note="Trusts the reference header parser (20 lines) and the fakenet stream; the close-shim hook wt.nilSession.CloseWithError stands in for the QUIC session."),
 "C19": dict(level="exploration", design="§4 C19",
   technique="runtime monitoring on virtual time (testing/synctest): reference-schedule oracle over callback timestamps, cancel-return watchdog, bubble goroutine-leftover scan, gate-scheduled interleavings at hook points, race detector",
   text="PRNG operation sequences on 1-3 timers run inside a synctest bubble so every due instant is exact; callbacks are compared with a reference schedule (required / optional only when an operation coincides with the due instant / forbidden), every cancel must return, and goroutines left in the bubble are listed from the runtime's own dump. Gate lanes place a cancel between an interval's tick and its re-arm and a second cancel between the runtime Stop and its signal.",
   note="Virtual time is Go's synctest clock; the two hook points are build-tagged yield points in utils/timer.go. Refresh on intervals / after cancel and concurrent Refresh are outside what is generated (stated in evidence assumptions)."),
 "C20": dict(level="exploration", design="§4 C20",
   technique="runtime monitoring: model-based differential sequences (reference slice/map/set/emitter models, caller-array sentinel overwrite for aliasing) + recorded concurrent histories checked for linearizability with porcupine + id-uniqueness multiset + race detector",
   text="Sequential contracts: PRNG sequences over the full method sets compared result-by-result with reference models (Slice incl. caller slices with spare capacity that are overwritten after the call; Map over int, string, pointer and zero-size values; emitter with nil listeners, duplicates, Once, re-entrant add/remove). Concurrent contracts: thousands of short recorded histories (2-8 goroutines, unique written values, per-key partition) checked by porcupine; Once under concurrent emits; 16-goroutine id storms; any race report inside types/ or utils/ is a violation.",
   note="Trusts porcupine v1.3.0 and the 15-line sequential models; history timestamps come from one atomic logical clock stamped before the call and after the return."),
}
m = dict(
 version=1,
 setup_cmd="cd /verif && ./check --setup",
 hooks=dict(guard="verif", enable="go1.26.8 test -c -race -tags verif (harness module /verif/h with replace => /repo)",
   baseline_off_cmd="cd /repo && go test -vet=off -count=1 ./...",
   source_commits=subprocess.run(["git","-C","/repo","log","--format=%H","--grep=^verif:"],capture_output=True,text=True).stdout.split(),
   add_only=True),
 engines=[dict(name="verifh", path="/verif/h", serves_properties=sorted(CHECKS),
   kind_free_text="Go test binary (race detector on) driving the real engine.io code from /repo's working tree under generated workloads with online/offline monitors; driver /verif/check aggregates lanes, race reports, crashes, known findings and writes evidence")],
 checks=[], notes="See DESIGN.md. ./check <ID> quick|thorough; VERIF_SEED selects the PRNG seed; known findings in known-findings.txt.",
 not_applicable=[])
for pid in ALL:
    if pid in CHECKS:
        c = CHECKS[pid]
        m["checks"].append(dict(property_id=pid, quick_cmd=f"./check {pid} quick", thorough_cmd=f"./check {pid} thorough",
          evidence_file=f"/verif/evidence/{pid}.json", replay_cmd_template="cat {path}", engine="verifh",
          level_claimed=dict(category=c["level"], text=c["text"], design_ref=c["design"]), level_note=c["note"], technique=c["technique"]))
    else:
        m["not_applicable"].append(dict(property_id=pid, reason="check not built yet in this snapshot (work in progress; runtime monitoring applies, see DESIGN.md §4)"))
json.dump(m, open("/verif/MANIFEST.json","w"), indent=1)
print("checks:", len(m["checks"]), "n/a:", len(m["not_applicable"]))
