// Package fakenet provides in-memory, full-duplex network connections whose blocking
// operations are sync.Cond waits (durably blocking for testing/synctest) and never hold a
// lock while blocked.  Writes are buffered like a socket send buffer.
package fakenet

import (
	"errors"
	"io"
	"net"
	"os"
	"sync"
	"time"
)

type addr string

func (a addr) Network() string { return "fakenet" }
func (a addr) String() string  { return string(a) }

// half is one direction of a connection.
type half struct {
	mu   sync.Mutex
	cond *sync.Cond
	buf  []byte
	// wclosed: the writer closed (reader sees EOF after draining)
	wclosed bool
	// rclosed: the reader closed (writer sees an error)
	rclosed bool
	// rdl: read deadline of the reading end
	rdl      time.Time
	rdlTimer *time.Timer
	// total bytes ever read from this half by its reader
	nread int64
	// total bytes ever written
	nwritten int64
	// fault injection: reader gets err once nread reaches failAt (if failAt>=0)
	failAt  int64
	failErr error
	// failOnce: the fault is transient (a read deadline that expired): reported once, then
	// the stream goes on supplying bytes
	failOnce bool
	// maxRead > 0 limits every Read to at most that many bytes (fragmentation)
	maxRead int
	// capacity > 0 models a full socket buffer: a write waits while that many bytes (or more)
	// are unread, until the reader drains or closes or the write deadline passes
	capacity int
	// stalled: the reading end does not take delivery (an application that has stopped reading)
	stalled  bool
	wdl      time.Time
	wdlTimer *time.Timer
}

func newHalf() *half {
	h := &half{failAt: -1}
	h.cond = sync.NewCond(&h.mu)
	return h
}

type timeoutError struct{}

func (timeoutError) Error() string   { return "fakenet: i/o timeout" }
func (timeoutError) Timeout() bool   { return true }
func (timeoutError) Temporary() bool { return true }
func (timeoutError) Unwrap() error   { return os.ErrDeadlineExceeded }

func (h *half) read(p []byte) (int, error) {
	h.mu.Lock()
	defer h.mu.Unlock()
	for {
		if h.rclosed {
			return 0, net.ErrClosed
		}
		if h.failAt >= 0 && h.nread >= h.failAt {
			err := h.failErr
			if h.failOnce {
				h.failAt = -1
			}
			return 0, err
		}
		if h.stalled {
			h.cond.Wait()
			continue
		}
		if len(h.buf) > 0 {
			n := len(p)
			if n > len(h.buf) {
				n = len(h.buf)
			}
			if h.maxRead > 0 && n > h.maxRead {
				n = h.maxRead
			}
			if h.failAt >= 0 && h.nread+int64(n) > h.failAt {
				n = int(h.failAt - h.nread)
			}
			copy(p, h.buf[:n])
			h.buf = h.buf[n:]
			h.nread += int64(n)
			if h.capacity > 0 {
				h.cond.Broadcast() // a writer may be waiting for room
			}
			if len(p) == 0 {
				return 0, nil
			}
			return n, nil
		}
		if h.wclosed {
			return 0, io.EOF
		}
		if !h.rdl.IsZero() && !time.Now().Before(h.rdl) {
			return 0, timeoutError{}
		}
		if len(p) == 0 {
			return 0, nil
		}
		h.cond.Wait()
	}
}

func (h *half) write(p []byte) (int, error) {
	h.mu.Lock()
	defer h.mu.Unlock()
	if h.wclosed {
		return 0, net.ErrClosed
	}
	if h.rclosed {
		return 0, errors.New("fakenet: broken pipe")
	}
	for h.capacity > 0 && len(h.buf) >= h.capacity {
		if !h.wdl.IsZero() && !time.Now().Before(h.wdl) {
			return 0, timeoutError{}
		}
		h.cond.Wait()
		if h.wclosed {
			return 0, net.ErrClosed
		}
		if h.rclosed {
			return 0, errors.New("fakenet: broken pipe")
		}
	}
	h.buf = append(h.buf, p...)
	h.nwritten += int64(len(p))
	h.cond.Broadcast()
	return len(p), nil
}

func (h *half) setReadDeadline(t time.Time) {
	h.mu.Lock()
	defer h.mu.Unlock()
	h.rdl = t
	if h.rdlTimer != nil {
		h.rdlTimer.Stop()
		h.rdlTimer = nil
	}
	if !t.IsZero() {
		d := time.Until(t)
		if d <= 0 {
			h.cond.Broadcast()
		} else {
			h.rdlTimer = time.AfterFunc(d, func() {
				h.mu.Lock()
				h.cond.Broadcast()
				h.mu.Unlock()
			})
		}
	}
}

func (h *half) setWriteDeadline(t time.Time) {
	h.mu.Lock()
	defer h.mu.Unlock()
	h.wdl = t
	if h.wdlTimer != nil {
		h.wdlTimer.Stop()
		h.wdlTimer = nil
	}
	if !t.IsZero() {
		d := time.Until(t)
		if d <= 0 {
			h.cond.Broadcast()
		} else {
			h.wdlTimer = time.AfterFunc(d, func() {
				h.mu.Lock()
				h.cond.Broadcast()
				h.mu.Unlock()
			})
		}
	}
}

func (h *half) closeWrite() {
	h.mu.Lock()
	h.wclosed = true
	h.cond.Broadcast()
	h.mu.Unlock()
}

func (h *half) closeRead() {
	h.mu.Lock()
	h.rclosed = true
	if h.rdlTimer != nil {
		h.rdlTimer.Stop()
		h.rdlTimer = nil
	}
	h.cond.Broadcast()
	h.mu.Unlock()
}

// Conn is one end of an in-memory connection.
type Conn struct {
	r, w   *half
	la, ra addr
	once   sync.Once
	// OnClose, if set, is called once when this end is closed.
	OnClose func()
}

// Pipe returns the two ends of a connection.
func Pipe() (*Conn, *Conn) {
	a2b, b2a := newHalf(), newHalf()
	a := &Conn{r: b2a, w: a2b, la: "client", ra: "server"}
	b := &Conn{r: a2b, w: b2a, la: "server", ra: "client"}
	return a, b
}

func (c *Conn) Read(p []byte) (int, error)  { return c.r.read(p) }
func (c *Conn) Write(p []byte) (int, error) { return c.w.write(p) }
func (c *Conn) Close() error {
	c.once.Do(func() {
		c.w.closeWrite()
		c.r.closeRead()
		if c.OnClose != nil {
			c.OnClose()
		}
	})
	return nil
}

// CloseWrite half-closes the connection (peer reads EOF after draining).
func (c *Conn) CloseWrite() error { c.w.closeWrite(); return nil }

func (c *Conn) LocalAddr() net.Addr  { return c.la }
func (c *Conn) RemoteAddr() net.Addr { return c.ra }
func (c *Conn) SetDeadline(t time.Time) error {
	c.r.setReadDeadline(t)
	c.w.setWriteDeadline(t)
	return nil
}
func (c *Conn) SetReadDeadline(t time.Time) error  { c.r.setReadDeadline(t); return nil }
func (c *Conn) SetWriteDeadline(t time.Time) error { c.w.setWriteDeadline(t); return nil }

// StallReads makes this end stop taking delivery (its reads wait although bytes are there), like
// an application that has stopped reading; with LimitReceiveBuffer the peer's writes then block.
func (c *Conn) StallReads(on bool) {
	c.r.mu.Lock()
	c.r.stalled = on
	c.r.cond.Broadcast()
	c.r.mu.Unlock()
}

// LimitReceiveBuffer makes the peer's writes to this end wait once n bytes are unread here
// (a peer that reads slowly or not at all: back-pressure); 0 lifts the limit.
func (c *Conn) LimitReceiveBuffer(n int) {
	c.r.mu.Lock()
	c.r.capacity = n
	c.r.cond.Broadcast()
	c.r.mu.Unlock()
}

// BytesRead is the number of bytes this end has consumed from its peer.
func (c *Conn) BytesRead() int64 {
	c.r.mu.Lock()
	defer c.r.mu.Unlock()
	return c.r.nread
}

// BytesWritten is the number of bytes this end has written.
func (c *Conn) BytesWritten() int64 {
	c.w.mu.Lock()
	defer c.w.mu.Unlock()
	return c.w.nwritten
}

// Unread is the number of bytes written by the peer that this end has not consumed.
func (c *Conn) Unread() int {
	c.r.mu.Lock()
	defer c.r.mu.Unlock()
	return len(c.r.buf)
}

// FailReadsAt makes reads of this end fail with err once n bytes have been consumed.
func (c *Conn) FailReadsAt(n int64, err error) {
	c.r.mu.Lock()
	c.r.failAt, c.r.failErr = n, err
	c.r.cond.Broadcast()
	c.r.mu.Unlock()
}

// FailReadsOnceAt makes ONE read fail with err once n bytes have been consumed; later reads
// continue with the remaining bytes (an expired read deadline that was then lifted).
func (c *Conn) FailReadsOnceAt(n int64, err error) {
	c.r.mu.Lock()
	c.r.failAt, c.r.failErr, c.r.failOnce = n, err, true
	c.r.cond.Broadcast()
	c.r.mu.Unlock()
}

// ErrTimeout is a net.Error whose Timeout() is true.
var ErrTimeout error = timeoutError{}

// FragmentReads limits every Read of this end to at most n bytes.
func (c *Conn) FragmentReads(n int) {
	c.r.mu.Lock()
	c.r.maxRead = n
	c.r.mu.Unlock()
}

// Listener is an in-memory net.Listener.
type Listener struct {
	mu     sync.Mutex
	cond   *sync.Cond
	q      []*Conn
	closed bool
	// Conns collects every server-side connection ever accepted, in order.
	Conns []*Conn
}

func NewListener() *Listener {
	l := &Listener{}
	l.cond = sync.NewCond(&l.mu)
	return l
}

func (l *Listener) Accept() (net.Conn, error) {
	l.mu.Lock()
	defer l.mu.Unlock()
	for {
		if l.closed {
			return nil, net.ErrClosed
		}
		if len(l.q) > 0 {
			c := l.q[0]
			l.q = l.q[1:]
			l.Conns = append(l.Conns, c)
			return c, nil
		}
		l.cond.Wait()
	}
}

func (l *Listener) Close() error {
	l.mu.Lock()
	l.closed = true
	l.cond.Broadcast()
	l.mu.Unlock()
	return nil
}

func (l *Listener) Addr() net.Addr { return addr("fakenet-listener") }

// Dial returns the client end of a new connection to the listener.
func (l *Listener) Dial() (*Conn, error) {
	c, s := Pipe()
	l.mu.Lock()
	defer l.mu.Unlock()
	if l.closed {
		return nil, errors.New("fakenet: connection refused")
	}
	l.q = append(l.q, s)
	l.cond.Broadcast()
	return c, nil
}
