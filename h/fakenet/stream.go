package fakenet

import (
	"errors"
	"sync"
	"time"

	"github.com/quic-go/quic-go"
	wt "github.com/zishang520/webtransport-go"
)

// Stream is an in-memory webtransport.Stream built on a Conn.  It records every Write
// call (for wire-format checks) and can fail writes.
type Stream struct {
	*Conn
	mu      sync.Mutex
	Writes  [][]byte
	werr    error
	werrAt  int // fail the n-th write (0-based) when >= 0
	nwrites int
	// tornAt: the n-th write (0-based) delivers only half of its bytes and fails; later writes work
	tornAt int
}

var _ wt.Stream = (*Stream)(nil)

// StreamPipe returns two connected streams.
func StreamPipe() (*Stream, *Stream) {
	a, b := Pipe()
	return &Stream{Conn: a, werrAt: -1, tornAt: -1}, &Stream{Conn: b, werrAt: -1, tornAt: -1}
}

func (s *Stream) Write(p []byte) (int, error) {
	s.mu.Lock()
	if s.werrAt >= 0 && s.nwrites >= s.werrAt {
		err := s.werr
		s.mu.Unlock()
		return 0, err
	}
	if s.tornAt >= 0 && s.nwrites == s.tornAt {
		// a write deadline that expires half-way: part of the bytes are on the wire
		s.nwrites++
		s.tornAt = -1
		half := p[:len(p)/2]
		s.Writes = append(s.Writes, append([]byte(nil), half...))
		s.mu.Unlock()
		s.Conn.Write(half)
		return len(half), ErrTimeout
	}
	s.nwrites++
	s.Writes = append(s.Writes, append([]byte(nil), p...))
	s.mu.Unlock()
	return s.Conn.Write(p)
}

// TearWrite makes the n-th write from now (0-based) deliver half of its bytes and fail with a
// timeout; the stream stays usable afterwards.
func (s *Stream) TearWrite(n int) {
	s.mu.Lock()
	s.tornAt = s.nwrites + n
	s.mu.Unlock()
}

// FailWritesFrom makes the n-th and later writes fail with err.
func (s *Stream) FailWritesFrom(n int, err error) {
	s.mu.Lock()
	s.werrAt, s.werr = n, err
	s.mu.Unlock()
}

// Wire returns the concatenation of everything written so far.
func (s *Stream) Wire() []byte {
	s.mu.Lock()
	defer s.mu.Unlock()
	var out []byte
	for _, w := range s.Writes {
		out = append(out, w...)
	}
	return out
}

func (s *Stream) StreamID() quic.StreamID          { return 0 }
func (s *Stream) CancelWrite(wt.StreamErrorCode)   { s.Conn.w.closeWrite() }
func (s *Stream) CancelRead(wt.StreamErrorCode)    { s.Conn.r.closeRead() }
func (s *Stream) SetDeadline(t time.Time) error    { return s.Conn.SetDeadline(t) }
func (s *Stream) Close() error                     { s.Conn.w.closeWrite(); return nil }
func (s *Stream) CloseBoth() error                 { return s.Conn.Close() }
func (s *Stream) SetWriteDeadline(time.Time) error { return nil }

var ErrInjected = errors.New("fakenet: injected fault")
