// Package refcodec contains independent encoders/decoders written from the Engine.IO
// protocol text (v3 and v4), the JSONP conventions of the reference client, and the
// Engine.IO WebTransport framing.  It shares no code with /repo or its parser module.
package refcodec

import (
	"bytes"
	"encoding/base64"
	"errors"
	"fmt"
	"strconv"
	"unicode/utf8"
)

// Packet types (wire digits).
const (
	Open    = '0'
	Close   = '1'
	Ping    = '2'
	Pong    = '3'
	Message = '4'
	Upgrade = '5'
	Noop    = '6'
)

// Packet is a decoded Engine.IO packet.
type Packet struct {
	Type   byte // '0'..'6'
	Data   []byte
	Binary bool
}

func (p Packet) String() string {
	k := "t"
	if p.Binary {
		k = "b"
	}
	d := p.Data
	if len(d) > 40 {
		return fmt.Sprintf("%c%s[%d]%q…", p.Type, k, len(d), d[:40])
	}
	return fmt.Sprintf("%c%s%q", p.Type, k, d)
}

func Text(t byte, s string) Packet { return Packet{Type: t, Data: []byte(s)} }
func Bin(t byte, b []byte) Packet  { return Packet{Type: t, Data: b, Binary: true} }
func validType(t byte) bool        { return t >= '0' && t <= '6' }
func (p Packet) Equal(q Packet) bool {
	return p.Type == q.Type && p.Binary == q.Binary && bytes.Equal(p.Data, q.Data)
}

var ErrMalformed = errors.New("refcodec: malformed")

// ---------- revision 4 ----------

// V4PacketText encodes a packet as it appears inside a v4 polling payload or a text frame.
func V4PacketText(p Packet) []byte {
	if p.Binary {
		out := []byte{'b'}
		return append(out, base64.StdEncoding.EncodeToString(p.Data)...)
	}
	return append([]byte{p.Type}, p.Data...)
}

// V4Payload joins packets with the record separator.
func V4Payload(ps []Packet) []byte {
	var out []byte
	for i, p := range ps {
		if i > 0 {
			out = append(out, 0x1e)
		}
		out = append(out, V4PacketText(p)...)
	}
	return out
}

func v4DecodeText(b []byte) (Packet, error) {
	if len(b) == 0 {
		return Packet{}, fmt.Errorf("%w: empty packet", ErrMalformed)
	}
	if b[0] == 'b' {
		d, err := base64.StdEncoding.DecodeString(string(b[1:]))
		if err != nil {
			return Packet{}, fmt.Errorf("%w: base64: %v", ErrMalformed, err)
		}
		return Packet{Type: Message, Data: d, Binary: true}, nil
	}
	if !validType(b[0]) {
		return Packet{}, fmt.Errorf("%w: packet type %q", ErrMalformed, b[0])
	}
	return Packet{Type: b[0], Data: append([]byte(nil), b[1:]...)}, nil
}

// V4DecodePayload splits on the separator and decodes each packet.
func V4DecodePayload(body []byte) ([]Packet, error) {
	if len(body) == 0 {
		return nil, fmt.Errorf("%w: empty payload", ErrMalformed)
	}
	var out []Packet
	for _, part := range bytes.Split(body, []byte{0x1e}) {
		p, err := v4DecodeText(part)
		if err != nil {
			return out, err
		}
		out = append(out, p)
	}
	return out, nil
}

// V4Frame encodes a packet as one WebSocket/WebTransport message: binary messages are sent
// raw in a binary frame, everything else as text.  With b64 the binary is base64 text.
func V4Frame(p Packet, b64 bool) (binary bool, data []byte) {
	if p.Binary && !b64 {
		return true, p.Data
	}
	return false, V4PacketText(p)
}

// V4DecodeFrame decodes one WebSocket/WebTransport message.
func V4DecodeFrame(binary bool, data []byte) (Packet, error) {
	if binary {
		return Packet{Type: Message, Data: append([]byte(nil), data...), Binary: true}, nil
	}
	return v4DecodeText(data)
}

// ---------- revision 3 ----------

func utf16Len(s []byte) int {
	n := 0
	for len(s) > 0 {
		r, l := utf8.DecodeRune(s)
		s = s[l:]
		if r >= 0x10000 {
			n += 2
		} else {
			n++
		}
	}
	return n
}

// V3PacketText: "<type><data>", or "b<type><base64>" for binary.
func V3PacketText(p Packet) []byte {
	if p.Binary {
		out := []byte{'b', p.Type}
		return append(out, base64.StdEncoding.EncodeToString(p.Data)...)
	}
	return append([]byte{p.Type}, p.Data...)
}

// V3PayloadString: "<utf16 length>:<packet>" repeated.
func V3PayloadString(ps []Packet) []byte {
	var out []byte
	for _, p := range ps {
		e := V3PacketText(p)
		out = append(out, strconv.Itoa(utf16Len(e))...)
		out = append(out, ':')
		out = append(out, e...)
	}
	return out
}

// V3PayloadBinary: "<0 string|1 binary><length digits as bytes><255><data>" repeated.  String
// packets are carried as the UTF-8 bytes of "<type><data>" (length = number of bytes); binary
// packets as "<type as byte><data>".
func V3PayloadBinary(ps []Packet) []byte {
	var out []byte
	for _, p := range ps {
		var body []byte
		if p.Binary {
			out = append(out, 1)
			body = append([]byte{p.Type - '0'}, p.Data...)
		} else {
			out = append(out, 0)
			body = append([]byte{p.Type}, p.Data...)
		}
		for _, d := range strconv.Itoa(len(body)) {
			out = append(out, byte(d-'0'))
		}
		out = append(out, 0xff)
		out = append(out, body...)
	}
	return out
}

func v3DecodeText(b []byte) (Packet, error) {
	if len(b) == 0 {
		return Packet{}, fmt.Errorf("%w: empty packet", ErrMalformed)
	}
	if b[0] == 'b' {
		if len(b) < 2 || !validType(b[1]) {
			return Packet{}, fmt.Errorf("%w: b64 packet type", ErrMalformed)
		}
		d, err := base64.StdEncoding.DecodeString(string(b[2:]))
		if err != nil {
			return Packet{}, fmt.Errorf("%w: base64: %v", ErrMalformed, err)
		}
		return Packet{Type: b[1], Data: d, Binary: true}, nil
	}
	if !validType(b[0]) {
		return Packet{}, fmt.Errorf("%w: packet type %q", ErrMalformed, b[0])
	}
	return Packet{Type: b[0], Data: append([]byte(nil), b[1:]...)}, nil
}

// V3DecodePayloadString decodes "<len>:<packet>..." (len in UTF-16 code units).
func V3DecodePayloadString(body []byte) ([]Packet, error) {
	var out []Packet
	if len(body) == 0 {
		return nil, fmt.Errorf("%w: empty payload", ErrMalformed)
	}
	for len(body) > 0 {
		i := bytes.IndexByte(body, ':')
		if i <= 0 {
			return out, fmt.Errorf("%w: missing length", ErrMalformed)
		}
		for _, c := range body[:i] {
			if c < '0' || c > '9' {
				return out, fmt.Errorf("%w: length %q", ErrMalformed, body[:i])
			}
		}
		n, err := strconv.Atoi(string(body[:i]))
		if err != nil {
			return out, fmt.Errorf("%w: length %q", ErrMalformed, body[:i])
		}
		body = body[i+1:]
		// take n UTF-16 units
		j, units := 0, 0
		for units < n {
			if j >= len(body) {
				return out, fmt.Errorf("%w: payload shorter than declared length", ErrMalformed)
			}
			r, l := utf8.DecodeRune(body[j:])
			j += l
			if r >= 0x10000 {
				units += 2
			} else {
				units++
			}
		}
		if units != n {
			return out, fmt.Errorf("%w: length splits a surrogate pair", ErrMalformed)
		}
		p, err := v3DecodeText(body[:j])
		if err != nil {
			return out, err
		}
		out = append(out, p)
		body = body[j:]
	}
	return out, nil
}

// V3DecodePayloadBinary decodes the XHR2 binary payload form.
func V3DecodePayloadBinary(body []byte) ([]Packet, error) {
	var out []Packet
	for len(body) > 0 {
		kind := body[0]
		if kind > 1 {
			return out, fmt.Errorf("%w: kind byte %d", ErrMalformed, kind)
		}
		body = body[1:]
		i := bytes.IndexByte(body, 0xff)
		if i <= 0 {
			return out, fmt.Errorf("%w: missing length terminator", ErrMalformed)
		}
		n := 0
		for _, d := range body[:i] {
			if d > 9 {
				return out, fmt.Errorf("%w: length digit %d", ErrMalformed, d)
			}
			n = n*10 + int(d)
			if n > 1<<30 {
				return out, fmt.Errorf("%w: absurd length", ErrMalformed)
			}
		}
		body = body[i+1:]
		if n > len(body) || n == 0 {
			return out, fmt.Errorf("%w: declared length %d, have %d", ErrMalformed, n, len(body))
		}
		raw := body[:n]
		body = body[n:]
		if kind == 0 {
			if !utf8.Valid(raw) {
				return out, fmt.Errorf("%w: string packet is not UTF-8", ErrMalformed)
			}
			p, err := v3DecodeText(raw)
			if err != nil {
				return out, err
			}
			out = append(out, p)
		} else {
			if raw[0] > 6 {
				return out, fmt.Errorf("%w: binary packet type %d", ErrMalformed, raw[0])
			}
			out = append(out, Packet{Type: raw[0] + '0', Data: append([]byte(nil), raw[1:]...), Binary: true})
		}
	}
	return out, nil
}

// V3Frame encodes a packet as one WebSocket message of revision 3.
func V3Frame(p Packet, b64 bool) (binary bool, data []byte) {
	if p.Binary && !b64 {
		return true, append([]byte{p.Type - '0'}, p.Data...)
	}
	return false, V3PacketText(p)
}

// V3DecodeFrame decodes one WebSocket message of revision 3.
func V3DecodeFrame(binary bool, data []byte) (Packet, error) {
	if binary {
		if len(data) == 0 || data[0] > 6 {
			return Packet{}, fmt.Errorf("%w: binary frame type", ErrMalformed)
		}
		return Packet{Type: data[0] + '0', Data: append([]byte(nil), data[1:]...), Binary: true}, nil
	}
	return v3DecodeText(data)
}

// ---------- revision-generic helpers ----------

// EncodePayload encodes a client->server or server->client polling payload.
// form: "v4", "v3s" (string), "v3b" (binary/XHR2).
func EncodePayload(form string, ps []Packet) []byte {
	switch form {
	case "v4":
		return V4Payload(ps)
	case "v3s":
		return V3PayloadString(ps)
	case "v3b":
		return V3PayloadBinary(ps)
	}
	panic("refcodec: form " + form)
}

func DecodePayload(form string, body []byte) ([]Packet, error) {
	switch form {
	case "v4":
		return V4DecodePayload(body)
	case "v3s":
		return V3DecodePayloadString(body)
	case "v3b":
		return V3DecodePayloadBinary(body)
	}
	panic("refcodec: form " + form)
}

func EncodeFrame(rev int, p Packet, b64 bool) (bool, []byte) {
	if rev == 4 {
		return V4Frame(p, b64)
	}
	return V3Frame(p, b64)
}

func DecodeFrame(rev int, binary bool, data []byte) (Packet, error) {
	if rev == 4 {
		return V4DecodeFrame(binary, data)
	}
	return V3DecodeFrame(binary, data)
}
