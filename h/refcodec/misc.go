package refcodec

import (
	"bytes"
	"compress/gzip"
	"compress/zlib"
	"encoding/binary"
	"fmt"
	"io"
	"net/url"
	"strings"
	"unicode/utf16"

	"github.com/andybalholm/brotli"
	"github.com/klauspost/compress/zstd"
)

// ---------- JSONP ----------

// JSONPBody builds the form body the reference JSONP client posts: literal "\n" (backslash,
// n) becomes backslash + newline, then every newline becomes the two characters "\n".
func JSONPBody(payload []byte) []byte {
	s := string(payload)
	s = strings.ReplaceAll(s, `\n`, "\\\n")
	s = strings.ReplaceAll(s, "\n", `\n`)
	return []byte("d=" + url.QueryEscape(s))
}

// JSONPRepresentable reports whether the client-side escaping can represent the payload
// unambiguously (a backslash immediately followed by a real newline collides with the
// escape of a literal "\n").
func JSONPRepresentable(payload []byte) bool {
	return !bytes.Contains(payload, []byte("\\\n"))
}

// ParseJSONP parses "___eio[<digits>](<JS string literal>);" strictly and returns the
// digits and the decoded string.
func ParseJSONP(body []byte) (digits string, payload []byte, err error) {
	const pre = "___eio["
	s := string(body)
	if !strings.HasPrefix(s, pre) {
		return "", nil, fmt.Errorf("%w: jsonp prefix", ErrMalformed)
	}
	s = s[len(pre):]
	i := 0
	for i < len(s) && s[i] >= '0' && s[i] <= '9' {
		i++
	}
	digits = s[:i]
	s = s[i:]
	if !strings.HasPrefix(s, "](") {
		return digits, nil, fmt.Errorf("%w: jsonp index not digits-only: %.40q", ErrMalformed, s)
	}
	s = s[2:]
	lit, rest, err := scanJSString(s)
	if err != nil {
		return digits, nil, err
	}
	if rest != ");" {
		return digits, nil, fmt.Errorf("%w: jsonp trailer %.40q", ErrMalformed, rest)
	}
	return digits, lit, nil
}

// scanJSString scans one double-quoted JavaScript string literal at the start of s.
func scanJSString(s string) (val []byte, rest string, err error) {
	if len(s) == 0 || s[0] != '"' {
		return nil, s, fmt.Errorf("%w: string literal expected", ErrMalformed)
	}
	var units []uint16
	flush := func(out *[]byte) {
		if len(units) > 0 {
			*out = append(*out, string(utf16.Decode(units))...)
			units = units[:0]
		}
	}
	var out []byte
	i := 1
	for i < len(s) {
		c := s[i]
		switch {
		case c == '"':
			flush(&out)
			return out, s[i+1:], nil
		case c == '\n' || c == '\r':
			return nil, s, fmt.Errorf("%w: raw line terminator in literal", ErrMalformed)
		case c == '\\':
			if i+1 >= len(s) {
				return nil, s, fmt.Errorf("%w: dangling backslash", ErrMalformed)
			}
			e := s[i+1]
			i += 2
			switch e {
			case '"', '\\', '/', '\'':
				flush(&out)
				out = append(out, e)
			case 'b':
				flush(&out)
				out = append(out, '\b')
			case 'f':
				flush(&out)
				out = append(out, '\f')
			case 'n':
				flush(&out)
				out = append(out, '\n')
			case 'r':
				flush(&out)
				out = append(out, '\r')
			case 't':
				flush(&out)
				out = append(out, '\t')
			case 'u':
				if i+4 > len(s) {
					return nil, s, fmt.Errorf("%w: short \\u escape", ErrMalformed)
				}
				var v uint16
				for k := 0; k < 4; k++ {
					h := s[i+k]
					var d byte
					switch {
					case h >= '0' && h <= '9':
						d = h - '0'
					case h >= 'a' && h <= 'f':
						d = h - 'a' + 10
					case h >= 'A' && h <= 'F':
						d = h - 'A' + 10
					default:
						return nil, s, fmt.Errorf("%w: bad \\u escape", ErrMalformed)
					}
					v = v<<4 | uint16(d)
				}
				i += 4
				units = append(units, v)
			default:
				return nil, s, fmt.Errorf("%w: escape \\%c", ErrMalformed, e)
			}
		default:
			flush(&out)
			// raw U+2028 / U+2029 are line terminators in pre-ES2019 JavaScript
			if c == 0xe2 && i+2 < len(s) && s[i+1] == 0x80 && (s[i+2] == 0xa8 || s[i+2] == 0xa9) {
				return nil, s, fmt.Errorf("%w: raw U+2028/2029 in literal", ErrMalformed)
			}
			out = append(out, c)
			i++
		}
	}
	return nil, s, fmt.Errorf("%w: unterminated literal", ErrMalformed)
}

// ScriptSafe reports whether a JSONP body can be embedded in a <script> element without
// terminating it or opening a comment.
func ScriptSafe(body []byte) bool {
	l := bytes.ToLower(body)
	return !bytes.Contains(l, []byte("</script")) && !bytes.Contains(l, []byte("<!--"))
}

// ---------- content codings ----------

// DecodeContent undoes an HTTP content coding as RFC 9110 defines it.
func DecodeContent(coding string, body []byte) ([]byte, error) {
	switch coding {
	case "", "identity":
		return body, nil
	case "gzip":
		r, err := gzip.NewReader(bytes.NewReader(body))
		if err != nil {
			return nil, err
		}
		return io.ReadAll(r)
	case "deflate": // zlib format (RFC 1950), not raw DEFLATE
		r, err := zlib.NewReader(bytes.NewReader(body))
		if err != nil {
			return nil, err
		}
		return io.ReadAll(r)
	case "br":
		return io.ReadAll(brotli.NewReader(bytes.NewReader(body)))
	case "zstd":
		r, err := zstd.NewReader(bytes.NewReader(body))
		if err != nil {
			return nil, err
		}
		defer r.Close()
		return io.ReadAll(r)
	}
	return nil, fmt.Errorf("unknown content coding %q", coding)
}

// AcceptNames reports whether an Accept-Encoding header names coding as a token
// (case-insensitively, parameters ignored).
func AcceptNames(header, coding string) bool {
	for _, el := range strings.Split(header, ",") {
		tok, _, _ := strings.Cut(el, ";")
		if strings.EqualFold(strings.TrimSpace(tok), coding) {
			return true
		}
	}
	return false
}

// ---------- WebTransport framing ----------

// WTFrame is the minimal-length encoding of one message.
func WTFrame(binaryMsg bool, payload []byte) []byte {
	return WTFrameForm(binaryMsg, payload, 0)
}

// WTFrameForm encodes with a chosen length form: 0 minimal, 16 or 64 forces that form
// (when the length fits).
func WTFrameForm(binaryMsg bool, payload []byte, form int) []byte {
	var b0 byte
	if binaryMsg {
		b0 = 0x80
	}
	n := len(payload)
	var out []byte
	switch {
	case form == 64 || (form == 0 && n >= 65536):
		out = append(out, b0|127)
		var l [8]byte
		binary.BigEndian.PutUint64(l[:], uint64(n))
		out = append(out, l[:]...)
	case form == 16 || (form == 0 && n >= 126):
		if n >= 65536 {
			panic("length does not fit 16 bits")
		}
		out = append(out, b0|126)
		out = append(out, byte(n>>8), byte(n))
	default:
		if n >= 126 {
			panic("length does not fit 7 bits")
		}
		out = append(out, b0|byte(n))
	}
	return append(out, payload...)
}

// WTMsg is one WebTransport message.
type WTMsg struct {
	Binary  bool
	Payload []byte
}

// WTDecode parses a complete stream of frames; rest is the unparsed tail (incomplete frame).
func WTDecode(stream []byte) (msgs []WTMsg, rest []byte) {
	for len(stream) > 0 {
		b0 := stream[0]
		n := uint64(b0 & 0x7f)
		h := 1
		switch n {
		case 126:
			if len(stream) < 3 {
				return msgs, stream
			}
			n = uint64(binary.BigEndian.Uint16(stream[1:3]))
			h = 3
		case 127:
			if len(stream) < 9 {
				return msgs, stream
			}
			n = binary.BigEndian.Uint64(stream[1:9])
			h = 9
		}
		if uint64(len(stream)-h) < n {
			return msgs, stream
		}
		msgs = append(msgs, WTMsg{Binary: b0&0x80 != 0, Payload: append([]byte(nil), stream[h:h+int(n)]...)})
		stream = stream[h+int(n):]
	}
	return msgs, nil
}
