package checks

import (
	"bytes"
	"fmt"
	"math/rand/v2"
	"strings"
	"testing"
	"time"

	"github.com/zishang520/engine.io/v2/config"
	"github.com/zishang520/engine.io/v2/types"

	"verifh/refcodec"
	"verifh/rep"
	"verifh/rig"
)

type inPkt struct {
	Type   string `json:"type"` // message | noop | heartbeat | close
	Binary bool   `json:"binary"`
	Size   int    `json:"size"`
	Flavor string `json:"flavor"` // ascii | unicode | tricky | empty
	data   []byte
}

type c02Case struct {
	Chunked  bool      `json:"chunked_post"` // polling data requests without Content-Length
	Form     string    `json:"form"`         // v4 | v3s | v3b | v3b64 | jsonp4 | jsonp3 | ws4 | ws3 | ws4b64 | ws3b64 | wt
	Payloads [][]inPkt `json:"payloads"`
	Negative string    `json:"negative"` // "" | candidate-message | after-close
	Seed     string    `json:"seed"`
}

var c02Forms = []string{"v4", "v4", "v3s", "v3b", "v3b64", "jsonp4", "jsonp3", "ws4", "ws3", "ws4b64", "ws3b64", "wt"}

func textOf(rng *rand.Rand, n int, flavor string, noSep bool) []byte {
	var al []string
	switch flavor {
	case "unicode":
		al = []string{"a", "é", "ß", "€", "😀", "中", " ", "𝄞", "z"}
	case "tricky":
		al = []string{":", "\n", "\\", "\\n", "\"", "0", "1", "b", "4", "%", "&", "=", "+", " ", "\x1e", "\r"}
	default:
		al = []string{"a", "b", "c", "d", "0", "1", " "}
	}
	var out []byte
	for len(out) < n {
		s := al[rng.IntN(len(al))]
		if noSep && s == "\x1e" {
			continue
		}
		if len(out)+len(s) > n {
			s = "x"
		}
		out = append(out, s...)
	}
	return out
}

func genC02(rng *rand.Rand, form string, clean bool) c02Case {
	c := c02Case{Form: form}
	polling := !strings.HasPrefix(form, "ws") && form != "wt"
	np := 1 + rng.IntN(4)
	closed := false
	budget := 150000
	for p := 0; p < np && !closed; p++ {
		n := 1 + rng.IntN(6)
		if rng.IntN(8) == 0 {
			n = 7 + rng.IntN(6)
		}
		var ps []inPkt
		for i := 0; i < n; i++ {
			k := inPkt{Type: "message"}
			switch x := rng.IntN(20); {
			case x == 0:
				k.Type = "noop"
			case x == 1:
				k.Type = "heartbeat"
			case x == 2 && polling && p == np-1 && rng.IntN(2) == 0:
				k.Type = "close"
			}
			if k.Type == "message" {
				k.Binary = rng.IntN(3) == 0
				k.Size = []int{0, 1, 2, 10, 100, 125, 126, 1000, 4096, 5000}[rng.IntN(10)]
				if rng.IntN(30) == 0 {
					k.Size = []int{65533, 65534, 65535, 65536, 70000, 100000}[rng.IntN(6)]
				}
				if k.Size > budget {
					k.Size = 10
				}
				budget -= k.Size
				k.Flavor = []string{"ascii", "ascii", "unicode", "tricky"}[rng.IntN(4)]
				if k.Size == 0 {
					k.Flavor = "empty"
				}
				if k.Binary {
					k.data = fillPayload(rng, k.Size, false)
				} else {
					k.data = textOf(rng, k.Size, k.Flavor, form == "v4" || form == "jsonp4")
				}
			}
			ps = append(ps, k)
		}
		c.Payloads = append(c.Payloads, ps)
		for _, k := range ps {
			if k.Type == "close" {
				closed = true
			}
		}
	}
	if form == "v3s" {
		for pi := range c.Payloads {
			for ki := range c.Payloads[pi] {
				k := &c.Payloads[pi][ki]
				if k.Binary {
					k.Binary = false
					k.data = textOf(rng, k.Size, "ascii", false)
				}
			}
		}
	}
	if clean {
		sanitizeC02(&c, rng)
	}
	c.Chunked = polling && rng.IntN(4) == 0
	return c
}

// sanitizeC02 removes the input shapes that hit known defects of the parser dependency.
func sanitizeC02(c *c02Case, rng *rand.Rand) {
	for pi := range c.Payloads {
		ps := c.Payloads[pi]
		for i := range ps {
			k := &ps[i]
			switch c.Form {
			case "v4", "jsonp4":
				// a v4 polling payload with a packet >= 65535 bytes is dropped by the parser's scanner
				if enc := len(k.data) + 1; k.Binary && (len(k.data)+2)/3*4+1 >= 65000 || !k.Binary && enc >= 65000 {
					k.data = k.data[:100]
					k.Size = 100
				}
			case "v3b":
				if !k.Binary && !isASCII(k.data) {
					k.data = bytes.Map(func(r rune) rune {
						if r > 127 {
							return 'u'
						}
						return r
					}, k.data)
					k.Flavor = "ascii"
				}
			}
		}
		if c.Form == "v3b" {
			// the parser dependency mis-reads whatever follows a string packet in a binary
			// payload: in the clean lanes a string packet (text message, noop, heartbeat,
			// close) may only come last, after at least one binary packet
			var out []inPkt
			var lastString *inPkt
			for i := range ps {
				k := ps[i]
				if k.Type == "message" && k.Binary {
					out = append(out, k)
				} else {
					lastString = &ps[i]
				}
			}
			if len(out) == 0 {
				out = append(out, inPkt{Type: "message", Binary: true, Size: 2, data: []byte{9, 9}})
			}
			if lastString != nil {
				out = append(out, *lastString)
			}
			c.Payloads[pi] = out
		}
	}
}

func (k inPkt) packet(rev int) refcodec.Packet {
	switch k.Type {
	case "noop":
		return refcodec.Packet{Type: refcodec.Noop}
	case "close":
		return refcodec.Packet{Type: refcodec.Close}
	case "heartbeat":
		if rev == 3 {
			return refcodec.Packet{Type: refcodec.Ping}
		}
		return refcodec.Packet{Type: refcodec.Pong}
	}
	return refcodec.Packet{Type: refcodec.Message, Data: k.data, Binary: k.Binary}
}

func c02Cfg(form string) rig.ClientCfg {
	switch form {
	case "v4":
		return rig.ClientCfg{Rev: 4, Transport: "polling"}
	case "v3s":
		return rig.ClientCfg{Rev: 3, Transport: "polling"}
	case "v3b":
		return rig.ClientCfg{Rev: 3, Transport: "polling"}
	case "v3b64":
		return rig.ClientCfg{Rev: 3, Transport: "polling", B64: true}
	case "jsonp4":
		return rig.ClientCfg{Rev: 4, Transport: "polling", JSONP: true, J: "3"}
	case "jsonp3":
		return rig.ClientCfg{Rev: 3, Transport: "polling", JSONP: true, J: "3", B64: true}
	case "ws4":
		return rig.ClientCfg{Rev: 4, Transport: "websocket"}
	case "ws3":
		return rig.ClientCfg{Rev: 3, Transport: "websocket"}
	case "ws4b64":
		return rig.ClientCfg{Rev: 4, Transport: "websocket", B64: true}
	case "ws3b64":
		return rig.ClientCfg{Rev: 3, Transport: "websocket", B64: true}
	}
	return rig.ClientCfg{Rev: 4, Transport: "webtransport"}
}

type expMsg struct {
	data   []byte
	binary bool
}

func runC02(c c02Case, r *rep.Report) (key, msg string, stats map[string]int64) {
	stats = map[string]int64{}
	var pan any
	func() {
		defer func() { pan = recover() }()
		rig.Bubble(r.T(), func() {
			so := &config.ServerOptions{}
			so.SetAllowEIO3(true)
			so.SetTransports(types.NewSet("polling", "websocket", "webtransport"))
			so.SetMaxHttpBufferSize(400000)
			so.SetPingInterval(20 * time.Second)
			so.SetPingTimeout(20 * time.Second)
			w := rig.NewWorld(rig.Options{Server: so})
			defer w.Finish()
			cfg := c02Cfg(c.Form)
			cfg.NoAutoPong = true
			cfg.ChunkedPost = c.Chunked
			cl, err := w.Connect(cfg)
			rig.Wait()
			sock := w.Socket(0)
			if err != nil || sock == nil {
				key, msg = "c02-handshake-failed", fmt.Sprint(err)
				return
			}
			sid := sock.Id()
			cl.StartReader()
			var expect []expMsg
			closedByClient := false
		outer:
			for _, ps := range c.Payloads {
				var pk []refcodec.Packet
				for _, k := range ps {
					pk = append(pk, k.packet(cfg.Rev))
				}
				if cfg.Transport == "polling" {
					res := cl.Post(pk...)
					stats["payloads_posted"]++
					if res.Err != nil || res.Status != 200 || string(res.Body) != "ok" {
						key, msg = classifyC02(c, "c02-data-request-not-acknowledged"), fmt.Sprintf("POST answered %d %q err=%v", res.Status, res.Body, res.Err)
						return
					}
				} else {
					if err := cl.Send(pk...); err != nil {
						key, msg = "c02-frame-write-failed", err.Error()
						return
					}
					stats["frames_sent"] += int64(len(pk))
				}
				for _, k := range ps {
					if k.Type == "close" {
						closedByClient = true
						break outer
					}
					if k.Type == "message" {
						expect = append(expect, expMsg{k.data, k.Binary})
					}
				}
			}
			time.Sleep(50 * time.Millisecond)
			rig.Wait()
			if closedByClient {
				// anything after the close must not be delivered; try another payload
				res := cl.Post(refcodec.Text(refcodec.Message, "after-close"))
				stats["posts_after_close"]++
				if res.Status == 200 {
					key, msg = "c02-post-accepted-after-close", fmt.Sprintf("POST after a close packet answered %d %q", res.Status, res.Body)
					return
				}
				time.Sleep(10 * time.Millisecond)
				rig.Wait()
			}
			for _, kind := range []string{"message", "data"} {
				evs := w.Tap.Of(sid, kind)
				stats[kind+"_events"] += int64(len(evs))
				for i, e := range evs {
					if e.State != "open" {
						key, msg = "c02-message-while-not-open", fmt.Sprintf("%s event #%d delivered in state %s", kind, i, e.State)
						return
					}
					if i >= len(expect) {
						key, msg = classifyC02(c, "c02-extra-message"), fmt.Sprintf("%s event #%d %.60q was never submitted (expected %d messages)", kind, i, e.Str, len(expect))
						return
					}
					if e.Str != string(expect[i].data) || e.Bin != expect[i].binary {
						// find what it is
						what := "corrupted"
						for j, x := range expect {
							if e.Str == string(x.data) && e.Bin == x.binary {
								if j > i {
									what = fmt.Sprintf("message %d skipped/lost", i)
								} else {
									what = fmt.Sprintf("message %d duplicated or reordered", j)
								}
								break
							}
						}
						key, msg = classifyC02(c, "c02-message-mismatch"), fmt.Sprintf("%s event #%d: %s; submitted (%d bytes, binary=%v) %.50q, delivered (%d bytes, binary=%v) %.50q", kind, i, what, len(expect[i].data), expect[i].binary, expect[i].data, len(e.Str), e.Bin, e.Str)
						return
					}
				}
				if len(evs) < len(expect) {
					x := expect[len(evs)]
					key, msg = classifyC02(c, "c02-message-not-delivered"), fmt.Sprintf("%d of %d submitted messages delivered as %s events although every carrier was acknowledged; first missing: %d bytes binary=%v %.40q; session state %s", len(evs), len(expect), kind, len(x.data), x.binary, x.data, sock.ReadyState())
					return
				}
			}
			if !closedByClient && sock.ReadyState() != "open" {
				reason := ""
				if ev := w.Tap.Of(sid, "close"); len(ev) > 0 {
					reason = ev[0].Str
				}
				key, msg = classifyC02(c, "c02-session-closed:"+reason), "well-formed input closed the session: "+reason
			}
			cl.Stop()
		})
	}()
	if pan != nil {
		return "c02-panic", fmt.Sprint(pan), stats
	}
	return
}

// classifyC02 keys a failure on the input features of the known parser-dependency defects.
func classifyC02(c c02Case, key string) string {
	switch c.Form {
	case "v4", "jsonp4":
		for _, ps := range c.Payloads {
			for _, k := range ps {
				n := len(k.data) + 1
				if k.Binary {
					n = (len(k.data)+2)/3*4 + 1
				}
				if n >= 65535 {
					return "v4-polling-payload-packet-ge-64k"
				}
			}
		}
	case "v3b":
		nonASCII, afterString := false, false
		for _, ps := range c.Payloads {
			for i, k := range ps {
				isString := !(k.Type == "message" && k.Binary)
				if isString && !isASCII(k.data) {
					nonASCII = true
				}
				if isString && i < len(ps)-1 {
					afterString = true
				}
			}
		}
		if nonASCII {
			return "v3-binary-payload-non-ascii-text"
		}
		if afterString {
			return "v3-binary-payload-packet-after-string"
		}
	}
	return key
}

func c02Sig(c c02Case) string {
	var sb strings.Builder
	sb.WriteString(c.Form + "/" + c.Negative + "/")
	if c.Chunked {
		sb.WriteString("chunked/")
	}
	for _, ps := range c.Payloads {
		for _, k := range ps {
			t := k.Type[:1]
			if k.Type == "message" {
				t = "t"
				if k.Binary {
					t = "b"
				}
				switch {
				case k.Size == 0:
					t += "0"
				case k.Size >= 65000:
					t += "L"
				case k.Size > 200:
					t += "m"
				}
				if k.Flavor == "unicode" || k.Flavor == "tricky" {
					t += k.Flavor[:1]
				}
			}
			sb.WriteString(t)
		}
		sb.WriteString("|")
	}
	return sb.String()
}

// runC02DuringProbe: messages submitted on the session's current transport (polling) while an
// upgrade candidate is being probed, then on the new transport once the upgrade is complete.
func runC02DuringProbe(rev int, r *rep.Report) (key, msg string) {
	rig.Bubble(r.T(), func() {
		so := &config.ServerOptions{}
		so.SetAllowEIO3(true)
		so.SetTransports(types.NewSet("polling", "websocket"))
		so.SetPingInterval(20 * time.Second)
		w := rig.NewWorld(rig.Options{Server: so})
		defer w.Finish()
		cl, err := w.Connect(rig.ClientCfg{Rev: rev, Transport: "polling", NoAutoPong: true})
		rig.Wait()
		sock := w.Socket(0)
		if err != nil || sock == nil {
			key, msg = "c02-handshake-failed", fmt.Sprint(err)
			return
		}
		sid := sock.Id()
		cl.StartReader()
		if res := cl.Post(refcodec.Text(refcodec.Message, "before")); res.Status != 200 {
			key, msg = "c02-post-refused", fmt.Sprintf("POST before the upgrade answered %d", res.Status)
			return
		}
		cand := w.Candidate(sid, rev)
		if e := cand.DialCandidateWS(); e != nil {
			key, msg = "c02-handshake-failed", e.Error()
			return
		}
		time.Sleep(time.Millisecond)
		cand.WSWriteRaw(false, []byte("2probe"))
		if _, d, e := cand.WS.ReadMessage(); e != nil || string(d) != "3probe" {
			r.Inconclusive(fmt.Sprintf("during-probe: no probe pong (%q %v)", d, e))
			return
		}
		if !sock.Upgrading() {
			r.Inconclusive("during-probe: session not marked upgrading after the probe")
			return
		}
		// the current transport is still polling: its data requests must be accepted and delivered
		for i := 0; i < 2; i++ {
			res := cl.Post(refcodec.Text(refcodec.Message, fmt.Sprintf("during-probe-%d", i)))
			if res.Err != nil || res.Status != 200 || string(res.Body) != "ok" {
				key, msg = "c02-post-refused", fmt.Sprintf("a data request on the session's current transport (polling) while an upgrade candidate is being probed was answered %d %q (err %v)", res.Status, res.Body, res.Err)
				return
			}
		}
		cl.Pause()
		cand.WSWriteRaw(false, []byte("5"))
		time.Sleep(time.Millisecond)
		rig.Wait()
		cand.WSWriteRaw(false, []byte("4after-upgrade"))
		time.Sleep(10 * time.Millisecond)
		rig.Wait()
		var got []string
		for _, e := range w.Tap.Of(sid, "message") {
			got = append(got, e.Str)
		}
		want := "before,during-probe-0,during-probe-1,after-upgrade"
		if strings.Join(got, ",") != want {
			key, msg = "c02-message-not-delivered", fmt.Sprintf("messages submitted before / during the probe of an upgrade candidate (on polling) / after the upgrade (on websocket): delivered [%s], want [%s]; session %s, upgraded %v", strings.Join(got, ","), want, sock.ReadyState(), sock.Upgraded())
		}
		cl.Stop()
	})
	return
}

func TestC02(t *testing.T) {
	r := rep.New(t, "C02")
	defer r.Flush()
	if r.Lane == 3%r.Lanes {
		// the engine behind a types.HttpServer listening itself: HTTP/1.1, HTTP/2 (TLS) and HTTP/3 (QUIC) on loopback
		netLanes(r, r.N(4, 64))
	}
	r.Rule("PRNG payload lists (1-4 carriers of 1-12 packets: text/binary/empty/unicode/escape-heavy messages, noop, heartbeat, close) submitted by a reference-codec client as v4 payloads, v3 string / binary / base64 payloads, JSONP form bodies, WebSocket frames (v3/v4, base64 or binary) and WebTransport frames; WebSocket/WebTransport victims of both revisions next to a neighbour that keeps sending frames the parser refuses (with trailing bytes); oracle: the server's 'message' and 'data' events equal the submitted message packets up to the first close packet (order, bytes, kind, once), every POST answered 200 ok, nothing delivered after close; distinct = form + packet-shape signature")
	r.Assume("revision-4 polling text never contains U+001E (no escaping exists); a JSONP payload never contains a backslash immediately followed by a real newline (the reference client's escaping cannot represent it)")
	r.Assume("the v3 binary (XHR2) form is only used for payloads that contain a binary packet, as conformant clients do; known parser-dependency defects are exercised in dedicated lanes")
	if r.Lane == 1%r.Lanes {
		quicMessages(r, 2, r.N(24, 960))
	}
	if r.Lane == 0 {
		for k := 0; k < r.N(24, 1600); k++ {
			key, msg, rounds := runC02Neighbour(r.CaseRand(22, k), r)
			r.Case(fmt.Sprintf("neighbour/%d", k%7), rounds > 0)
			r.Obs("rounds_next_to_a_misbehaving_neighbour", int64(rounds))
			if key != "" {
				r.Violation(key, msg, map[string]any{"lane": "victim sessions next to a neighbour sending refused frames", "case": k, "seed": r.Seed})
			}
		}
	}
	if r.Lane == 2%r.Lanes {
		for k := 0; k < r.N(8, 400); k++ {
			rev := 4 - k%2
			key, msg := runC02DuringProbe(rev, r)
			r.Case(fmt.Sprintf("during-probe/v%d", rev), true)
			r.Obs("messages_during_upgrade_probe_cases", 1)
			if key != "" {
				r.Violation(key, msg, map[string]any{"lane": "data requests while an upgrade candidate is being probed", "rev": rev})
			}
		}
	}
	// a case that has not finished after a minute of real time (normal: milliseconds) is examined
	// for a goroutine spinning in library code (rep.Guard)
	r.Guard(60 * time.Second)
	n := r.N(2400, 240000)
	for i := 0; i < n; i++ {
		if !r.Only(i) {
			continue
		}
		rng := r.CaseRand(2, i)
		c := genC02(rng, c02Forms[rng.IntN(len(c02Forms))], true)
		if strings.HasPrefix(c.Form, "jsonp") {
			for pi := range c.Payloads {
				for ki := range c.Payloads[pi] {
					k := &c.Payloads[pi][ki]
					if !k.Binary {
						k.data = bytes.ReplaceAll(k.data, []byte("\\\n"), []byte("\\ "))
					}
				}
			}
		}
		c.Seed = fmt.Sprintf("seed=%d lane=%d case=%d", r.Seed, r.Lane, i)
		r.Begin(fmt.Sprint(i), c)
		key, msg, stats := runC02(c, r)
		r.End(fmt.Sprint(i))
		r.Case(c02Sig(c), stats["message_events"] > 0)
		for k, v := range stats {
			r.Obs(k, v)
		}
		r.Obs("form:"+c.Form, 1)
		if i < 2 {
			r.Sample(c)
		}
		if key != "" {
			r.Violation(key, msg, c)
		}
	}
	// known-finding lanes (dependency defects), each with its own input class
	nk := r.N(12, 200)
	for i := 0; i < nk; i++ {
		if !r.Only(100000 + i) {
			continue
		}
		rng := r.CaseRand(3, i)
		cases := []c02Case{
			{Form: "v4", Payloads: [][]inPkt{{{Type: "message", Size: 10, data: []byte("before-big")}, {Type: "message", Size: 65534 + rng.IntN(3000), Flavor: "ascii"}, {Type: "message", Size: 5, data: []byte("after")}}}},
			{Form: "v3b", Payloads: [][]inPkt{{{Type: "message", Binary: true, Size: 3, data: []byte{1, 2, 3}}, {Type: "message", Size: 4, data: []byte("héé"), Flavor: "unicode"}}}},
			{Form: "v3b", Payloads: [][]inPkt{{{Type: "message", Binary: true, Size: 3, data: []byte{1, 2, 3}}, {Type: "message", Size: 5, data: []byte("hello")}, {Type: "message", Size: 5, data: []byte("world")}}}},
		}
		for ci := range cases {
			c := cases[ci]
			for pi := range c.Payloads {
				for ki := range c.Payloads[pi] {
					k := &c.Payloads[pi][ki]
					if k.data == nil {
						k.data = textOf(rng, k.Size, "ascii", true)
					}
				}
			}
			c.Seed = fmt.Sprintf("seed=%d lane=%d known-lane case=%d/%d", r.Seed, r.Lane, i, ci)
			key, msg, _ := runC02(c, r)
			r.Case("known-lane:"+c02Sig(c), true)
			r.Obs("known_lane_cases", 1)
			if key != "" {
				r.Violation(key, msg, c)
			}
		}
	}
}

// runC02Neighbour: well-behaved WebSocket and WebTransport sessions next to a misbehaving
// neighbour on the same server.  Round after round a fresh hostile connection sends one frame the
// parser refuses - with bytes after the point where decoding stops - and is closed for it; after
// each one every victim submits a message.  What one connection sent must never show up in (or
// disturb) what another session's application receives.
func runC02Neighbour(rng *rand.Rand, r *rep.Report) (key, msg string, rounds int) {
	rig.Bubble(r.T(), func() {
		so := &config.ServerOptions{}
		so.SetAllowEIO3(true)
		so.SetTransports(types.NewSet("polling", "websocket", "webtransport"))
		so.SetPingInterval(20 * time.Second)
		w := rig.NewWorld(rig.Options{Server: so})
		defer w.Finish()
		type victim struct {
			cl   *rig.Client
			sid  string
			sent []expMsg
		}
		var vs []*victim
		for _, cfg := range []rig.ClientCfg{{Rev: 4, Transport: "websocket"}, {Rev: 4, Transport: "webtransport"}, {Rev: 3, Transport: "websocket"}, {Rev: 4, Transport: "websocket", B64: true}} {
			cfg.NoAutoPong = true
			n := len(w.SocketIDs())
			cl, err := w.Connect(cfg)
			rig.Wait()
			if err != nil || len(w.SocketIDs()) != n+1 {
				key, msg = "c02-handshake-failed", fmt.Sprint(err)
				return
			}
			cl.StartReader()
			vs = append(vs, &victim{cl: cl, sid: cl.Sid})
		}
		// warm-up: every victim has sent a few frames of both kinds
		for k := 0; k < 3; k++ {
			for _, v := range vs {
				m := expMsg{[]byte(fmt.Sprintf("warm-%d", k)), k%2 == 1 && !v.cl.Cfg.B64 && v.cl.Cfg.Rev == 4}
				v.cl.Send(refcodec.Packet{Type: refcodec.Message, Data: m.data, Binary: m.binary})
				v.sent = append(v.sent, m)
			}
			time.Sleep(time.Millisecond)
		}
		rig.Wait()
		hostileFrames := []struct {
			bin  bool
			data string
		}{
			{false, "?4foreign|"}, {false, "94foreign-text|"}, {false, "b!!!!not-base64!!!!|tail"}, {true, "\x09\x04foreign-binary|"}, {false, "x"}, {false, "44444444444444444444|"},
			{true, "\xff\xfe\xfdforeign|"}, {false, "ééé 4foreign-unicode|"},
		}
		for round := 0; round < 8; round++ {
			kind := []string{"websocket", "webtransport"}[rng.IntN(2)]
			h, err := w.Connect(rig.ClientCfg{Rev: 4, Transport: kind, NoAutoPong: true})
			if err != nil {
				key, msg = "c02-handshake-failed", "hostile neighbour: "+err.Error()
				return
			}
			f := hostileFrames[rng.IntN(len(hostileFrames))]
			for k := 1 + rng.IntN(3); k > 0; k-- {
				if kind == "websocket" {
					h.WSWriteRaw(f.bin, []byte(f.data))
				} else {
					h.WTWriteRaw(f.bin, []byte(f.data))
				}
			}
			time.Sleep(time.Millisecond)
			rig.Wait()
			for _, v := range vs {
				bin := rng.IntN(2) == 0 && !v.cl.Cfg.B64 && v.cl.Cfg.Rev == 4
				m := expMsg{[]byte(fmt.Sprintf("hello-%d-%s", round, strings.Repeat("v", rng.IntN(40)))), bin}
				if err := v.cl.Send(refcodec.Packet{Type: refcodec.Message, Data: m.data, Binary: m.binary}); err != nil {
					key, msg = "c02-frame-write-failed", err.Error()
					return
				}
				v.sent = append(v.sent, m)
			}
			time.Sleep(time.Millisecond)
			rig.Wait()
			h.Stop()
			rounds++
		}
		time.Sleep(20 * time.Millisecond)
		rig.Wait()
		for vi, v := range vs {
			evs := w.Tap.Of(v.sid, "message")
			for i, e := range evs {
				if i >= len(v.sent) || e.Str != string(v.sent[i].data) || e.Bin != v.sent[i].binary {
					want := "(nothing)"
					if i < len(v.sent) {
						want = fmt.Sprintf("%.40q binary=%v", v.sent[i].data, v.sent[i].binary)
					}
					key, msg = "c02-message-mismatch:neighbour", fmt.Sprintf("victim %d (%s, rev %d): message event #%d is %.60q binary=%v, submitted %s - after a neighbouring connection had sent a frame the parser refuses", vi, v.cl.Cfg.Transport, v.cl.Cfg.Rev, i, e.Str, e.Bin, want)
					return
				}
			}
			if len(evs) != len(v.sent) {
				s := w.SocketByID(v.sid)
				st := "gone"
				if s != nil {
					st = s.ReadyState()
				}
				key, msg = "c02-message-not-delivered:neighbour", fmt.Sprintf("victim %d (%s, rev %d): %d of %d submitted messages delivered; session %s - after a neighbouring connection had sent frames the parser refuses", vi, v.cl.Cfg.Transport, v.cl.Cfg.Rev, len(evs), len(v.sent), st)
				return
			}
		}
		for _, v := range vs {
			v.cl.Stop()
		}
	})
	return
}
