package checks

import (
	"fmt"
	"os"
	"strings"
	"sync"
	"sync/atomic"
	"testing"
	"time"

	"github.com/zishang520/engine.io/v2/config"
	"github.com/zishang520/engine.io/v2/engine"
	"github.com/zishang520/engine.io/v2/types"

	"verifh/fakenet"
	"verifh/rep"
	"verifh/rig"
)

var closeCauses = []string{"peer-disconnect", "transport-error", "ping-timeout", "close-false", "close-true", "server-close", "parse-error"}

// reasons each cause may legitimately produce
var causeReasons = map[string][]string{
	"peer-disconnect": {"transport close", "transport error", "ping timeout"},
	"transport-error": {"transport error", "transport close", "parse error"},
	"ping-timeout":    {"ping timeout"},
	"close-false":     {"forced close"},
	"close-true":      {"forced close"},
	"server-close":    {"forced close", "server close"},
	"parse-error":     {"parse error", "transport error"},
	// a frame the parser refuses, on a framed transport (WebSocket, WebTransport): the documented
	// reason for that cause is exactly 'parse error'
	"parse-error-frame": {"parse error"},
}

type c03Case struct {
	Transport string   `json:"transport"`
	Rev       int      `json:"rev"`
	Causes    []string `json:"causes"` // fired at the same virtual instant
	Order     []int    `json:"release_order"`
	Window    string   `json:"window"` // onclose | close | handshake | none
	Buffered  bool     `json:"buffered_packet_at_close"`
	Seed      string   `json:"seed"`
}

// fireCause triggers one close cause from its own goroutine.
func fireCause(cause string, w *rig.World, cl *rig.Client, sock engine.Socket) {
	switch cause {
	case "peer-disconnect":
		cl.Stop()
	case "transport-error":
		switch cl.Cfg.Transport {
		case "polling":
			// a second, overlapping poll is a protocol violation -> transport error
			cl.W.Start(rig.ReqSpec{Method: "GET", Target: "/engine.io/?EIO=" + fmt.Sprint(cl.Cfg.Rev) + "&transport=polling&sid=" + cl.Sid})
		case "websocket":
			// an invalid frame (reserved bits set)
			cl.WS.UnderlyingConn().Write([]byte{0xff, 0xff, 0xff, 0xff})
		case "webtransport":
			// a frame whose 64-bit length is negative
			cl.WTStream.Conn.Write([]byte{0x7f, 0xff, 0xff, 0xff, 0xff, 0xff, 0xff, 0xff, 0xff})
		}
	case "close-false":
		sock.Close(false)
	case "close-true":
		sock.Close(true)
	case "server-close":
		w.Eng.Close()
	case "parse-error":
		switch cl.Cfg.Transport {
		case "polling":
			cl.W.Start(rig.ReqSpec{Method: "POST", Target: "/engine.io/?EIO=" + fmt.Sprint(cl.Cfg.Rev) + "&transport=polling&sid=" + cl.Sid, Header: map[string][]string{"Content-Type": {"text/plain"}}, Body: []byte("9garbage")})
		case "websocket":
			cl.WSWriteRaw(false, []byte("9garbage"))
		case "webtransport":
			cl.WTWriteRaw(false, []byte("9garbage"))
		}
	}
}

// events logged after the close event by a different goroutine at the same virtual instant
var c03ConcurrentWithClose atomic.Int64

var stateRank = map[string]int{"opening": 0, "open": 1, "closing": 2, "closed": 3}

// debugDump appends the event log to a finding's message when VERIF_DEBUG is set.
func debugDump(w *rig.World) string {
	if os.Getenv("VERIF_DEBUG") == "" {
		return ""
	}
	return "\nEVENTS:" + w.Tap.Dump(80)
}

// judgeLifecycle runs the per-session trace automaton over the tap log.
func judgeLifecycle(w *rig.World, sid string, causes []string, wantClosed bool) (string, string) {
	evs := w.Tap.Of(sid)
	var trace []string
	closes := 0
	var closeSeq, closeGid int64
	var closeAt time.Duration
	reason := ""
	for _, e := range evs {
		switch e.Kind {
		case "state":
			trace = append(trace, e.Str)
			parts := strings.SplitN(e.Str, ">", 2)
			if stateRank[parts[1]] <= stateRank[parts[0]] {
				return "c03-state-not-forward", fmt.Sprintf("ready state written %s (trace %v)", e.Str, trace)
			}
		case "connection":
			if e.State != "open" {
				return "c03-connection-event-session-not-open", fmt.Sprintf("the connection event handed over a session in state %q", e.State)
			}
		case "close":
			closes++
			trace = append(trace, "close:"+e.Str)
			if closes == 1 {
				closeSeq, reason, closeAt, closeGid = e.Seq, e.Str, e.At, e.Gid
			}
		case "message", "data", "packet", "heartbeat", "upgrade", "upgrading", "flush", "drain", "packetCreate":
			if closes > 0 && e.At == closeAt && e.Gid != closeGid {
				// recorded by another goroutine at the very virtual instant of the close event: that
				// goroutine passed its open-state test before the state was written (the reader that
				// is delivering a frame the client wrote while the close was under way).  Its cause
				// was not "afterwards"; the statement does not order concurrent causes.  Counted.
				c03ConcurrentWithClose.Add(1)
				continue
			}
			if closes > 0 {
				return "c03-event-after-close:" + e.Kind, fmt.Sprintf("%s event (seq %d) after the close event (seq %d, %s): %q", e.Kind, e.Seq, closeSeq, reason, e.Str)
			}
		}
	}
	if closes > 1 {
		return "c03-multiple-close-events", fmt.Sprintf("%d close events on one session for causes %v (trace %v)", closes, causes, trace)
	}
	sock := w.SocketByID(sid)
	st := ""
	if sock != nil {
		st = sock.ReadyState()
	}
	if len(causes) == 0 {
		if closes > 0 || (st != "open" && st != "") {
			return "c03-closed-without-cause:" + reason, fmt.Sprintf("no close cause was injected; state %s, close events %d (%s)", st, closes, reason)
		}
		return "", ""
	}
	if closes == 0 {
		if wantClosed {
			return "c03-no-close-event", fmt.Sprintf("causes %v were injected; state %s, no close event (trace %v)%s", causes, st, trace, debugDump(w))
		}
		return "", ""
	}
	ok := false
	for _, c := range causes {
		for _, rs := range causeReasons[c] {
			if rs == reason {
				ok = true
			}
		}
	}
	if !ok {
		return "c03-close-reason-not-attributable:" + reason, fmt.Sprintf("close reason %q cannot come from the injected causes %v%s", reason, causes, debugDump(w))
	}
	if st != "closed" {
		return "c03-close-event-but-state:" + st, fmt.Sprintf("close event emitted, ready state %s", st)
	}
	return "", ""
}

// checkRegistry is C04's invariant, evaluated at a quiescent point.
func checkRegistry(w *rig.World) (string, string) {
	cnt := w.Eng.ClientsCount()
	table := w.Eng.Clients()
	n := 0
	var bad string
	table.Range(func(id string, s engine.Socket) bool {
		n++
		if s.ReadyState() == "closed" {
			bad = fmt.Sprintf("closed session %s is still reachable in the client table", id)
		}
		if s.Id() != id {
			bad = fmt.Sprintf("session %s is registered under %s", s.Id(), id)
		}
		return true
	})
	if bad != "" {
		return "c04-closed-session-registered", bad
	}
	if cnt > 1<<62 {
		return "c04-count-underflow", fmt.Sprintf("client count %d", cnt)
	}
	if int(cnt) != n {
		return "c04-count-drift", fmt.Sprintf("ClientsCount() %d, table has %d entries", cnt, n)
	}
	// every live announced session is reachable
	live := 0
	for _, sid := range w.SocketIDs() {
		s := w.SocketByID(sid)
		if s.ReadyState() != "closed" {
			live++
			if _, ok := table.Load(sid); !ok {
				return "c04-live-session-unreachable", fmt.Sprintf("session %s is %s but not in the client table", sid, s.ReadyState())
			}
		}
	}
	if live != n {
		return "c04-count-drift", fmt.Sprintf("%d live sessions were announced, the table has %d entries", live, n)
	}
	return "", ""
}

func runC03(c c03Case, r *rep.Report) (key, msg string, stats map[string]int64) {
	stats = map[string]int64{}
	var pan any
	func() {
		defer func() { pan = recover() }()
		rig.Bubble(r.T(), func() {
			so := &config.ServerOptions{}
			so.SetAllowEIO3(true)
			so.SetTransports(types.NewSet("polling", "websocket", "webtransport"))
			hasTimeout := false
			for _, cs := range c.Causes {
				if cs == "ping-timeout" {
					hasTimeout = true
				}
			}
			PI, PT := 50*time.Millisecond, 30*time.Millisecond
			if !hasTimeout {
				PI, PT = 20*time.Second, 20*time.Second
			}
			so.SetPingInterval(PI)
			so.SetPingTimeout(PT)
			w := rig.NewWorld(rig.Options{Server: so})
			defer w.Finish()
			if c.Window == "handshake" {
				w.Gate.Arm("server.Handshake.afterNewSocket", 1)
			}
			cfg := rig.ClientCfg{Rev: c.Rev, Transport: c.Transport, NoAutoPong: hasTimeout}
			var cl *rig.Client
			var err error
			connected := make(chan struct{})
			go func() {
				cl, err = w.Connect(cfg)
				close(connected)
			}()
			rig.Wait()
			if c.Window == "handshake" {
				// the handshake goroutine is held between constructing the session and
				// registering it; the client already has its open packet
				ps := w.Gate.Parked()
				if len(ps) != 1 {
					r.Inconclusive("handshake window not reached")
					w.Gate.ReleaseAll()
					<-connected
					return
				}
				stats["gate:handshake_held_after_new_socket"]++
				sock := ps[0].Args[0].(engine.Socket)
				select {
				case <-connected:
				default:
					// websocket/webtransport: Connect returns once the open packet arrived
					time.Sleep(time.Microsecond)
					rig.Wait()
				}
				<-connected
				if err != nil {
					key, msg = "c03-handshake-failed", err.Error()
					w.Gate.ReleaseAll()
					return
				}
				for _, cs := range c.Causes {
					cs := cs
					if cs == "ping-timeout" {
						time.Sleep(PI + PT + time.Millisecond)
						continue
					}
					go fireCause(cs, w, cl, sock)
				}
				time.Sleep(time.Millisecond)
				rig.Wait()
				w.Gate.ReleaseAll()
				time.Sleep(100 * time.Millisecond)
				rig.Wait()
				// the session may or may not have been announced
				if k, m := judgeLifecycle(w, sock.Id(), c.Causes, false); k != "" {
					key, msg = k, m
					return
				}
				if sock.ReadyState() == "closed" {
					stats["handshake_window_session_closed"]++
					if _, ok := w.Eng.Clients().Load(sock.Id()); ok {
						key, msg = "c04-closed-session-registered", "a session that closed while its handshake was being completed stays in the client table"
						return
					}
					if w.Eng.ClientsCount() != uint64(w.Eng.Clients().Len()) {
						key, msg = "c04-count-drift", fmt.Sprintf("count %d table %d", w.Eng.ClientsCount(), w.Eng.Clients().Len())
						return
					}
				}
				return
			}
			<-connected
			rig.Wait()
			sock := w.Socket(0)
			if err != nil || sock == nil {
				key, msg = "c03-handshake-failed", fmt.Sprint(err)
				return
			}
			sid := sock.Id()
			cl.StartReader()
			time.Sleep(time.Millisecond)
			rig.Wait()
			if c.Buffered {
				// a packet waiting in the buffer / in flight when the causes strike
				sock.Send(types.NewStringBufferString("buffered"), nil, nil)
			}
			switch c.Window {
			case "onclose":
				w.Gate.Arm("socket.OnClose.window", -1)
			case "close":
				w.Gate.Arm("socket.Close.window", -1)
				w.Gate.Arm("socket.OnClose.window", -1)
			}
			if hasTimeout {
				// arrive at the expiry instant: ping at open+PI, expiry PT later
				opened := w.Tap.Of(sid, "connection")[0].At
				time.Sleep(opened + PI + PT - w.Tap.Now())
			}
			for _, cs := range c.Causes {
				if cs == "ping-timeout" {
					continue
				}
				cs := cs
				go fireCause(cs, w, cl, sock)
			}
			gated := c.Window == "onclose" || c.Window == "close"
			settle := rig.Wait
			if gated {
				// a goroutine held in the window may own a lock of the code under test
				// (e.g. the sync.Once of a once-listener): wait on real time, not on the bubble
				settle = rig.Settle
			}
			settle()
			parked := w.Gate.Parked()
			stats[fmt.Sprintf("gate:goroutines_in_window=%d", len(parked))]++
			if len(parked) >= 2 {
				stats["gate:two_or_more_causes_past_the_state_test"]++
			}
			// release in the scripted order, one at a time
			for i := 0; i < 8; i++ {
				ps := w.Gate.Parked()
				if len(ps) == 0 {
					break
				}
				k := 0
				if i < len(c.Order) {
					k = c.Order[i] % len(ps)
				}
				ps[k].Release()
				settle()
			}
			w.Gate.ReleaseAll()
			time.Sleep(200 * time.Millisecond)
			rig.Wait()
			if len(c.Causes) > 0 && sock.ReadyState() == "open" && c.Transport == "polling" {
				// a polling client that vanished between two polls is only noticed by the heartbeat
				time.Sleep(PI + PT + time.Second)
				rig.Wait()
			}
			if len(c.Causes) > 0 && sock.ReadyState() == "closing" {
				// an orderly close waits for the client or the close timeout
				time.Sleep(31 * time.Second)
				rig.Wait()
			}
			// Send after close must be silently discarded
			if sock.ReadyState() == "closed" {
				sock.Send(types.NewStringBufferString("after-close"), nil, nil)
				rig.Wait()
			}
			wantClosed := len(c.Causes) > 0
			onlyParse := len(c.Causes) > 0
			for _, cs := range c.Causes {
				if cs != "parse-error" {
					onlyParse = false
				}
			}
			if c.Transport == "polling" && onlyParse {
				// an undecodable polling payload is dropped without closing the session; the
				// statement does not demand a close for it
				wantClosed = false
			}
			judged := append([]string(nil), c.Causes...)
			if c.Transport != "polling" {
				for i, cs := range judged {
					if cs == "parse-error" {
						judged[i] = "parse-error-frame"
					}
				}
			}
			if k, m := judgeLifecycle(w, sid, judged, wantClosed); k != "" {
				key, msg = k, m
				return
			}
			if k, m := checkRegistry(w); k != "" {
				key, msg = k, m
				return
			}
			cl.Stop()
		})
	}()
	if pan != nil {
		return "c03-panic", fmt.Sprint(pan), stats
	}
	return
}

// runC03UpgradeAfterClose: the candidate's upgrade packet arrives after the session's state
// became closed, while an application close listener is still running.
func runC03UpgradeAfterClose(cause string, r *rep.Report) (key, msg string) {
	rig.Bubble(r.T(), func() {
		so := &config.ServerOptions{}
		so.SetTransports(types.NewSet("polling", "websocket"))
		so.SetPingInterval(20 * time.Second)
		w := rig.NewWorld(rig.Options{Server: so, OnConnection: func(s engine.Socket) {
			s.On("close", func(...any) { time.Sleep(5 * time.Millisecond) })
		}})
		defer w.Finish()
		cl, err := w.Connect(rig.ClientCfg{Rev: 4, Transport: "polling"})
		rig.Wait()
		sock := w.Socket(0)
		if err != nil || sock == nil {
			key, msg = "c03-handshake-failed", fmt.Sprint(err)
			return
		}
		cl.StartReader()
		cand := w.Candidate(sock.Id(), 4)
		if cand.DialCandidateWS() != nil {
			return
		}
		time.Sleep(time.Millisecond)
		cand.WSWriteRaw(false, []byte("2probe"))
		time.Sleep(time.Millisecond)
		rig.Wait()
		go fireCause(cause, w, cl, sock)
		time.Sleep(time.Millisecond) // the close listener is sleeping now
		cand.WSWriteRaw(false, []byte("5"))
		time.Sleep(50 * time.Millisecond)
		rig.Wait()
		key, msg = judgeLifecycle(w, sock.Id(), []string{cause}, true)
		if key == "" && (sock.Upgraded() || sock.Transport().Name() != "polling") {
			key, msg = "c03-event-after-close:upgrade", fmt.Sprintf("a closed session switched transport: Upgraded()=%v transport %s", sock.Upgraded(), sock.Transport().Name())
		}
		// the candidate of a session that closed must have been closed by the server
		gone := make(chan struct{})
		go func() {
			for {
				if _, _, e := cand.WS.ReadMessage(); e != nil {
					close(gone)
					return
				}
			}
		}()
		time.Sleep(time.Second)
		rig.Wait()
		select {
		case <-gone:
		default:
			if key == "" {
				key, msg = "c08-candidate-left-open", fmt.Sprintf("session closed (%s) while a candidate was being entertained and its upgrade packet arrived during the close: one second later the candidate connection is still open", cause)
			}
		}
		cl.Stop()
	})
	return
}

// runC03CauseDuringOpen: the connection of a session dies while the session is still being
// constructed: a server-level flush listener (it runs while the open packet is handed to the
// transport, before the handshake has announced or even registered the session) kills the
// carrying connection and waits until the transport's reader has noticed.  The state must still
// only move forward, at most one close event, and a session that closed is never announced.
func runC03CauseDuringOpen(transport string, r *rep.Report) (key, msg string, hit bool) {
	rig.Bubble(r.T(), func() {
		so := &config.ServerOptions{}
		so.SetTransports(types.NewSet("polling", "websocket", "webtransport"))
		so.SetPingInterval(300 * time.Millisecond)
		so.SetPingTimeout(200 * time.Millisecond)
		w := rig.NewWorld(rig.Options{Server: so})
		defer w.Finish()
		var cl *rig.Client
		var mu sync.Mutex
		var sid string
		var once sync.Once
		w.Eng.On("flush", func(a ...any) {
			once.Do(func() {
				s := a[0].(engine.Socket)
				mu.Lock()
				sid = s.Id()
				mu.Unlock()
				hit = true
				// the carrying connection goes away under the session
				switch transport {
				case "webtransport":
					mu.Lock()
					c := cl
					mu.Unlock()
					if c != nil && c.WTServerStream != nil {
						c.WTServerStream.CloseBoth()
					}
				default:
					if n := len(w.L.Conns); n > 0 {
						w.L.Conns[n-1].Close()
					}
				}
				for i := 0; i < 20 && s.ReadyState() != "closed"; i++ {
					time.Sleep(time.Millisecond)
				}
			})
		})
		cfg := rig.ClientCfg{Rev: 4, Transport: transport, NoAutoPong: true}
		done := make(chan struct{})
		go func() {
			c, _ := w.Connect(cfg)
			mu.Lock()
			cl = c
			mu.Unlock()
			close(done)
		}()
		rig.Wait()
		time.Sleep(2 * time.Second) // past every heartbeat deadline
		rig.Wait()
		mu.Lock()
		id := sid
		mu.Unlock()
		if id == "" {
			hit = false
			return
		}
		key, msg = judgeLifecycle(w, id, []string{"peer-disconnect", "ping-timeout"}, false)
		if key == "" {
			key, msg = checkRegistry(w)
		}
		mu.Lock()
		if cl != nil {
			cl.Stop()
		}
		mu.Unlock()
	})
	return
}

// runC03CloseInsideSend: a close cause completes while Send is between its ready-state test and
// its flush (a packetCreate listener runs exactly there).  The packet of that Send must be
// discarded silently: no flush, drain or any other event after the close event.
func runC03CloseInsideSend(transport, cause string, r *rep.Report) (key, msg string) {
	rig.Bubble(r.T(), func() {
		so := &config.ServerOptions{}
		so.SetTransports(types.NewSet("polling", "websocket", "webtransport"))
		so.SetPingInterval(20 * time.Second)
		var w *rig.World
		var cl *rig.Client
		armed := false
		w = rig.NewWorld(rig.Options{Server: so, OnConnection: func(s engine.Socket) {
			s.On("packetCreate", func(...any) {
				if !armed {
					return
				}
				armed = false
				switch cause {
				case "close-true":
					s.Close(true)
				case "server-close":
					w.Eng.Close()
				case "peer-disconnect":
					cl.Stop()
					// the reader goroutine notices and closes the session while Send is still here
					for i := 0; i < 50 && s.ReadyState() != "closed"; i++ {
						time.Sleep(time.Millisecond)
					}
				}
			})
		}})
		defer w.Finish()
		var err error
		cl, err = w.Connect(rig.ClientCfg{Rev: 4, Transport: transport})
		rig.Wait()
		sock := w.Socket(0)
		if err != nil || sock == nil {
			key, msg = "c03-handshake-failed", fmt.Sprint(err)
			return
		}
		cl.StartReader()
		time.Sleep(time.Millisecond)
		rig.Wait()
		sock.Send(types.NewStringBufferString("before"), nil, nil)
		time.Sleep(time.Millisecond)
		rig.Wait()
		armed = true
		sock.Send(types.NewStringBufferString("raced"), nil, nil)
		time.Sleep(100 * time.Millisecond)
		rig.Wait()
		if sock.ReadyState() != "closed" {
			if transport == "polling" && cause == "peer-disconnect" {
				return // a polling client that vanishes is noticed by the heartbeat only
			}
			key, msg = "c03-no-close-event", fmt.Sprintf("%s inside Send on %s: session is %s", cause, transport, sock.ReadyState())
			return
		}
		key, msg = judgeLifecycle(w, sock.Id(), []string{cause}, true)
		if key == "" {
			key, msg = checkRegistry(w)
		}
	})
	return
}

func TestC03(t *testing.T) {
	r := rep.New(t, "C03")
	defer r.Flush()
	if r.Lane == 1%r.Lanes {
		// peers that have stopped reading, then the session ends (real time, judged at rest)
		stalledEndings(r, r.N(4, 64))
	}
	// journalled cases that have not ended after a minute of real time are examined (rep.Guard)
	r.Guard(60 * time.Second)
	r.Rule("fault enumeration: every ordered pair (and single, and triple in thorough) of close causes {peer disconnect, transport error, heartbeat expiry, Close(false), Close(true), Server.Close, parse error} fired at one virtual instant on every transport, with the goroutines that passed the closed-state test held at the hook windows (socket.OnClose.window, socket.Close.window, server.Handshake.afterNewSocket) and released in every order; plus cause-free histories, plus an upgrade packet that lands after the state became closed while an application close listener is still running, and a close cause that completes while Send is between its state test and its flush; oracle: per-session trace automaton (forward-only state writes, exactly one close event with an attributable reason, no session event after close, connection event only for open sessions, Send after close silent) and the registry invariant; distinct = (transport, causes, window, release order, number of goroutines held)")
	if r.Lane == 2%r.Lanes {
		for k := 0; k < r.N(8, 200); k++ {
			for _, tr := range []string{"polling", "websocket", "webtransport"} {
				rev := 4
				if tr != "webtransport" && k%3 == 2 {
					rev = 3
				}
				key, msg := runC03ClosingAbandoned(tr, rev, r)
				r.Case(fmt.Sprintf("closing-abandoned/%s/v%d", tr, rev), true)
				r.Obs("closing_sessions_on_a_transport_that_never_becomes_writable", 1)
				if key != "" {
					r.Violation(key, msg, map[string]any{"lane": "Close(false) with a buffered packet on a transport that never becomes writable again", "transport": tr, "rev": rev})
				}
			}
		}
	}
	if r.Lane == 1%r.Lanes {
		for k := 0; k < r.N(16, 400); k++ {
			rev := 4 - k%2
			key, msg, both := runC03ConcurrentImmediateClose(rev, r)
			r.Case(fmt.Sprintf("concurrent-immediate-close/v%d", rev), both)
			if key != "" {
				r.Violation(key, msg, map[string]any{"lane": "Close(true) and Server.Close both past the transport's state test (hooks transport.Close.window, polling.DoClose.*)", "rev": rev})
			}
		}
	}
	var cases []c03Case
	transports := []string{"polling", "websocket", "webtransport"}
	for _, tr := range transports {
		for _, a := range closeCauses {
			cases = append(cases, c03Case{Transport: tr, Causes: []string{a}, Window: "none"})
			cases = append(cases, c03Case{Transport: tr, Causes: []string{a}, Window: "handshake"})
			for _, b := range closeCauses {
				if a == b && (a == "peer-disconnect" || a == "server-close" || a == "transport-error" || a == "parse-error" || a == "ping-timeout") {
					continue
				}
				for _, order := range [][]int{{0, 0}, {1, 0}} {
					cases = append(cases, c03Case{Transport: tr, Causes: []string{a, b}, Window: "onclose", Order: order})
				}
				cases = append(cases, c03Case{Transport: tr, Causes: []string{a, b}, Window: "close", Order: []int{1, 0, 1}})
				cases = append(cases, c03Case{Transport: tr, Causes: []string{a, b}, Window: "none"})
			}
		}
		cases = append(cases, c03Case{Transport: tr, Window: "none"})
	}
	if r.Thorough() {
		rng := r.Rand(3)
		for i := 0; i < 300000; i++ {
			c := c03Case{Transport: transports[rng.IntN(3)], Window: []string{"onclose", "close", "none", "handshake"}[rng.IntN(4)], Buffered: rng.IntN(2) == 0}
			n := 1 + rng.IntN(3)
			for k := 0; k < n; k++ {
				c.Causes = append(c.Causes, closeCauses[rng.IntN(len(closeCauses))])
			}
			c.Order = []int{rng.IntN(3), rng.IntN(3), rng.IntN(3), rng.IntN(3)}
			cases = append(cases, c)
		}
	}
	if sh := os.Getenv("VERIF_C03_SHAPE"); sh != "" {
		// debugging aid: many copies of one case shape, e.g. polling/transport-error/none/1
		f := strings.Split(sh, "/")
		cases = nil
		for i := 0; i < 40000; i++ {
			cases = append(cases, c03Case{Transport: f[0], Causes: strings.Split(f[1], ","), Window: f[2], Buffered: f[3] == "1", Order: []int{0, 0, 0, 0}})
		}
	}
	r.Exhaustive("all single causes and all ordered pairs of the 7 close causes x 3 transports x hooked windows x both release orders (cause pair space only; schedules outside the hooked windows are sampled)")
	if r.Lane == 0 {
		for k := 0; k < r.N(4, 100); k++ {
			for _, cause := range []string{"close-true", "peer-disconnect", "server-close", "transport-error"} {
				key, msg := runC03UpgradeAfterClose(cause, r)
				r.Case("upgrade-after-close/"+cause, true)
				r.Obs("upgrade_after_close_cases", 1)
				if key != "" {
					r.Violation(key, msg, map[string]any{"lane": "upgrade packet lands after the state became closed, while an application close listener is running", "cause": cause})
				}
			}
		}
	}
	if r.Lane == 1%r.Lanes {
		quicClose(r, 3, r.N(8, 320), false)
	}
	defer func() {
		r.Obs("events_concurrent_with_close_same_instant_other_goroutine", c03ConcurrentWithClose.Load())
	}()
	if r.Lane == 3%r.Lanes {
		for k := 0; k < r.N(8, 200); k++ {
			for _, tr := range []string{"websocket", "polling", "webtransport"} {
				key, msg, hit := runC03CauseDuringOpen(tr, r)
				r.Case("cause-during-open/"+tr, hit)
				if hit {
					r.Obs("connections_killed_while_the_open_packet_is_flushed", 1)
				}
				if key != "" {
					r.Violation(key, msg, map[string]any{"lane": "the carrying connection dies while the open packet is being flushed (server-level flush listener during construction)", "transport": tr})
				}
			}
		}
	}
	if r.Lane == 2%r.Lanes {
		for k := 0; k < r.N(4, 100); k++ {
			for _, tr := range []string{"polling", "websocket", "webtransport"} {
				for _, cause := range []string{"close-true", "server-close", "peer-disconnect"} {
					key, msg := runC03CloseInsideSend(tr, cause, r)
					r.Case("close-inside-send/"+tr+"/"+cause, true)
					r.Obs("close_inside_send_cases", 1)
					if key != "" {
						r.Violation(key, msg, map[string]any{"lane": "a close cause completes while Send is between its state test and its flush (packetCreate listener)", "transport": tr, "cause": cause})
					}
				}
			}
		}
	}
	for i, c := range cases {
		if !r.Mine(i) || !r.Only(i) {
			continue
		}
		c.Rev = 4
		if c.Transport != "webtransport" && r.CaseRand(33, i).IntN(4) == 0 {
			c.Rev = 3
		}
		if !r.Thorough() {
			c.Buffered = i%3 == 0
		}
		c.Seed = fmt.Sprintf("seed=%d lane=%d case=%d", r.Seed, r.Lane, i)
		r.Begin(fmt.Sprint(i), c)
		key, msg, stats := runC03(c, r)
		r.End(fmt.Sprint(i))
		r.Case(fmt.Sprintf("%s/v%d/%v/%s/%v/%v", c.Transport, c.Rev, c.Causes, c.Window, c.Order, c.Buffered), true)
		for k, v := range stats {
			r.Obs(k, v)
		}
		r.Obs("cases", 1)
		if i < 2 {
			r.Sample(c)
		}
		if key != "" {
			r.Violation(key, msg, c)
		}
	}
}

// runC03ConcurrentImmediateClose: two immediate closes of one polling session whose poll is
// pending - the application's Close(true) and Server.Close - both past the transport's "already
// closing?" test (hook transport.Close.window) at the same moment.  Each then finds the transport
// writable (polling.DoClose.writableSeen) and hands a close packet to a writer goroutine; the
// closers are held before they report the close (polling.DoClose.beforeOnClose) while the writer
// goroutines run.  The session must close exactly once, with the reason of one of its causes.
func runC03ConcurrentImmediateClose(rev int, r *rep.Report) (key, msg string, both bool) {
	rig.Bubble(r.T(), func() {
		so := &config.ServerOptions{}
		so.SetAllowEIO3(true)
		so.SetPingInterval(20 * time.Second)
		w := rig.NewWorld(rig.Options{Server: so})
		defer w.Finish()
		cl, err := w.Connect(rig.ClientCfg{Rev: rev, Transport: "polling"})
		rig.Wait()
		sock := w.Socket(0)
		if err != nil || sock == nil {
			key, msg = "c03-handshake-failed", fmt.Sprint(err)
			return
		}
		sid := sock.Id()
		cl.StartReader()
		time.Sleep(time.Millisecond)
		rig.Wait()
		w.Gate.Arm("transport.Close.window", 2)
		w.Gate.Arm("polling.DoClose.writableSeen", 2)
		w.Gate.Arm("polling.DoClose.beforeOnClose", 2)
		go sock.Close(true)
		go w.Eng.Close()
		step := func(point string) int {
			rig.Settle()
			n := 0
			for _, p := range w.Gate.Parked() {
				if p.Point == point {
					n++
					p.Release()
				}
			}
			return n
		}
		inWindow := step("transport.Close.window")
		sawWritable := step("polling.DoClose.writableSeen")
		rig.Settle()
		// the closers wait before reporting; the writer goroutines run meanwhile
		rig.Settle()
		held := step("polling.DoClose.beforeOnClose")
		w.Gate.ReleaseAll()
		both = inWindow == 2
		r.Obs(fmt.Sprintf("gate:closers_past_the_transport_state_test=%d", inWindow), 1)
		r.Obs(fmt.Sprintf("gate:closers_that_found_the_transport_writable=%d", sawWritable), 1)
		_ = held
		time.Sleep(50 * time.Millisecond)
		rig.Wait()
		if k, m := judgeLifecycle(w, sid, []string{"close-true", "server-close"}, true); k != "" {
			key, msg = k, fmt.Sprintf("application Close(true) and Server.Close at the same moment on a polling session (v%d) whose poll is pending, %d closers past the transport's state test, %d found it writable: %s", rev, inWindow, sawWritable, m)
			return
		}
		if k, m := checkRegistry(w); k != "" {
			key, msg = k, m
		}
		cl.Stop()
	})
	return
}

// runC03ClosingAbandoned: a graceful Close(false) with a packet still buffered on a transport that
// will never be writable again - a polling client that never polls again, or a WebSocket /
// WebTransport peer that has stopped reading (writer blocked on a full connection) - issued before
// the first ping, i.e. while no ping timeout is armed.  The session may not linger in 'closing':
// the heartbeat must still end it, with exactly one close event.
func runC03ClosingAbandoned(transport string, rev int, r *rep.Report) (key, msg string) {
	rig.Bubble(r.T(), func() {
		PI, PT := 300*time.Millisecond, 200*time.Millisecond
		so := &config.ServerOptions{}
		so.SetAllowEIO3(true)
		so.SetTransports(types.NewSet("polling", "websocket", "webtransport"))
		so.SetPingInterval(PI)
		so.SetPingTimeout(PT)
		w := rig.NewWorld(rig.Options{Server: so})
		defer w.Finish()
		cl, err := w.Connect(rig.ClientCfg{Rev: rev, Transport: transport, NoAutoPong: true})
		rig.Wait()
		sock := w.Socket(0)
		if err != nil || sock == nil {
			key, msg = "c03-handshake-failed", fmt.Sprint(err)
			return
		}
		sid := sock.Id()
		if transport != "polling" {
			var nc *fakenet.Conn
			if cl.WS != nil {
				nc, _ = cl.WS.UnderlyingConn().(*fakenet.Conn)
			} else if cl.WTStream != nil {
				nc = cl.WTStream.Conn
			}
			if nc == nil {
				r.Inconclusive("closing-abandoned: no in-memory connection to stall")
				return
			}
			nc.LimitReceiveBuffer(1)
			nc.StallReads(true)
			for i := 0; i < 3; i++ {
				sock.Send(types.NewStringBufferString(strings.Repeat("x", 50000)), nil, nil)
			}
			time.Sleep(time.Millisecond)
			rig.Wait()
		}
		sock.Send(types.NewStringBufferString("never-flushed"), nil, nil)
		sock.Close(false)
		time.Sleep(PI + 2*PT + 31*time.Second)
		rig.Wait()
		evs := w.Tap.Of(sid, "close")
		if len(evs) != 1 || sock.ReadyState() != "closed" {
			var rs []string
			for _, e := range evs {
				rs = append(rs, e.Str)
			}
			key, msg = "c03-no-close-event", fmt.Sprintf("v%d %s session, packet buffered on a transport that never becomes writable again, Close(false) before the first ping: %v later the session is %s with close events %v (want exactly one; the heartbeat must end a session that lingers in 'closing')", rev, transport, PI+2*PT+31*time.Second, sock.ReadyState(), rs)
			return
		}
		if k, m := checkRegistry(w); k != "" {
			key, msg = k, m
		}
		cl.Stop()
	})
	return
}
