package checks

import (
	"encoding/json"
	"errors"
	"fmt"
	"io"
	"net/http"
	"net/http/httptest"
	"path"
	"strings"
	"sync"
	"testing"
	"time"

	ws "github.com/gorilla/websocket"
	"github.com/zishang520/engine.io/v2/config"
	"github.com/zishang520/engine.io/v2/engine"
	"github.com/zishang520/engine.io/v2/types"

	"verifh/rep"
	"verifh/rig"
)

// ---------- routing ----------

type attachVariant struct {
	Name     string
	Opts     func() any
	Base     string
	Trailing bool
}

func attachVariants() []attachVariant {
	mk := func(path *string, slash *bool) func() any {
		return func() any {
			o := &config.AttachOptions{}
			if path != nil {
				o.SetPath(*path)
			}
			if slash != nil {
				o.SetAddTrailingSlash(*slash)
			}
			return o
		}
	}
	s := func(v string) *string { return &v }
	b := func(v bool) *bool { return &v }
	return []attachVariant{
		{"no-options", func() any { return nil }, "/engine.io", true},
		{"server-options-only", func() any { so := &config.ServerOptions{}; so.SetAllowEIO3(true); return so }, "/engine.io", true},
		{"empty-attach-options", mk(nil, nil), "/engine.io", true},
		{"path-no-slash", mk(s("/rt"), nil), "/rt", true},
		{"path-with-slash", mk(s("/rt/"), nil), "/rt", true},
		{"path-nested", mk(s("/a/b"), nil), "/a/b", true},
		{"no-trailing-slash", mk(nil, b(false)), "/engine.io", false},
		{"path-no-trailing-slash", mk(s("/rt/"), b(false)), "/rt", false},
		{"trailing-slash-explicit", mk(s("/rt"), b(true)), "/rt", true},
	}
}

// cleanRef is the reference path cleaner (RFC 3986 dot-segment removal + slash collapsing,
// trailing slash preserved).
func cleanRef(p string) string {
	if p == "" {
		return "/"
	}
	if p[0] != '/' {
		p = "/" + p
	}
	c := path.Clean(p)
	if strings.HasSuffix(p, "/") && c != "/" {
		c += "/"
	}
	return c
}

func routedToEngine(v attachVariant, reqPath string) bool {
	c := cleanRef(reqPath)
	if v.Trailing {
		return strings.HasPrefix(c, v.Base+"/")
	}
	return c == v.Base
}

func runRouting(r *rep.Report) {
	for _, v := range attachVariants() {
		mux := types.NewWebServer(http.HandlerFunc(func(w http.ResponseWriter, req *http.Request) {
			w.Header().Set("X-Default-Handler", "1")
			w.WriteHeader(http.StatusTeapot)
		}))
		var eng engine.Server
		opts := v.Opts()
		if so, ok := opts.(*config.ServerOptions); ok {
			eng = engine.Attach(mux, so) // README form (B): server options only
		} else {
			eng = engine.NewServer(nil)
			eng.Attach(mux, opts)
		}
		base := v.Base
		paths := []string{
			base + "/", base, base + "/sub", base + "/sub/deeper/", base + "x", base + "x/",
			"/a/.." + base + "/", base + "/../" + strings.TrimPrefix(base, "/") + "/", "/" + base + "//", base + "/./",
			strings.ToUpper(base) + "/", "/other", "/", "/other" + base + "/", base + "/..", base + "/../",
		}
		for pi, p := range paths {
			for _, method := range []string{"GET", "POST", "CONNECT", "OPTIONS", "DELETE"}[:1+4*((pi+1)%2)] {
				// (built as GET and relabelled: httptest parses a CONNECT target as an authority)
				req := httptest.NewRequest("GET", "http://h"+p+"?transport=bogus", nil)
				req.Method = method
				rec := httptest.NewRecorder()
				mux.ServeHTTP(rec, req)
				byEngine := rec.Header().Get("X-Default-Handler") == "" && strings.Contains(rec.Body.String(), "Transport unknown")
				byDefault := rec.Header().Get("X-Default-Handler") == "1"
				want := routedToEngine(v, p)
				r.Case(fmt.Sprintf("route/%s/%s/%s", v.Name, method, p), true)
				if p == base+"/sub" {
					r.Sample(map[string]any{"kind": "routing", "attach": v.Name, "path": p, "served_by_engine": byEngine, "expected_engine": want})
				}
				r.Obs("routing_cases", 1)
				if want {
					r.Obs("routed_to_engine_expected", 1)
				}
				if (want && !byEngine) || (!want && !byDefault) {
					who := "the application's handler"
					if byEngine {
						who = "the engine"
					} else if !byDefault {
						who = fmt.Sprintf("neither (status %d)", rec.Code)
					}
					key := "c05-routing:" + v.Name
					r.Violationf(key, map[string]any{"attach": v.Name, "path": p, "method": method}, "attach variant %s (engine path %s, trailing slash %v): %s request path %q (cleaned %q) was served by %s, expected %s", v.Name, v.Base, v.Trailing, method, p, cleanRef(p), who, map[bool]string{true: "the engine", false: "the application's handler"}[want])
				}
			}
		}
		eng.Close()
	}
}

// ---------- admission ----------

type admCfg struct {
	Enabled   []string `json:"enabled"`
	AllowEIO3 bool     `json:"allow_eio3"`
	Hook      string   `json:"hook"`       // none | allow | deny
	MW        string   `json:"middleware"` // ok | fail
}

type admReq struct {
	Method    string `json:"method"`
	Transport string `json:"transport"` // value, "-" absent, "polling,bogus" repeated
	Sid       string `json:"sid"`       // absent | unknown | known-same | known-other | closed
	EIO       string `json:"eio"`       // 4 | 3 | - | garbage | 5 | 04
	OriginBad bool   `json:"origin_bad"`
	Upgrade   bool   `json:"ws_upgrade_headers"`
}

type admExp struct {
	Accept  bool
	Status  int
	Code    int
	Message string
	Alt     *admExp // an equally acceptable outcome
	NA      bool    // not decidable in this rig
}

func admModel(c admCfg, q admReq) admExp {
	rej := func(status, code int, msg string) admExp { return admExp{Status: status, Code: code, Message: msg} }
	enabled := map[string]bool{}
	for _, t := range c.Enabled {
		enabled[t] = true
	}
	if q.Upgrade && !enabled["websocket"] {
		// the server does not speak WebSocket at all: 501, or the documented 'transport unknown'
		a := rej(400, 0, "Transport unknown")
		return admExp{Status: 501, Code: -1, Alt: &a}
	}
	if c.MW == "fail" {
		return rej(400, 3, "Bad request")
	}
	tvals := []string{}
	switch q.Transport {
	case "-":
		tvals = []string{""}
	case "polling,bogus":
		tvals = []string{"bogus", "polling"} // the statement does not say which repeated value counts
	default:
		tvals = []string{q.Transport}
	}
	var outs []admExp
	for _, tv := range tvals {
		outs = append(outs, admModelT(c, q, tv, enabled))
	}
	if len(outs) == 2 {
		o := outs[0]
		o.Alt = &outs[1]
		return o
	}
	return outs[0]
}

func admModelT(c admCfg, q admReq, tv string, enabled map[string]bool) admExp {
	rej := func(status, code int, msg string) admExp { return admExp{Status: status, Code: code, Message: msg} }
	if !enabled[tv] || tv == "webtransport" {
		return rej(400, 0, "Transport unknown")
	}
	if q.OriginBad {
		return rej(400, 3, "Bad request")
	}
	switch q.Sid {
	case "unknown", "closed":
		return rej(400, 1, "Session ID unknown")
	case "known-other":
		if !q.Upgrade {
			return rej(400, 3, "Bad request")
		}
		return admExp{NA: true}
	case "known-same":
		if tv != "polling" {
			// the canary session lives on polling: any other value is a transport mismatch
			if !q.Upgrade {
				return rej(400, 3, "Bad request")
			}
			return admExp{NA: true}
		}
		if q.Upgrade {
			return admExp{NA: true}
		}
		if q.Method == "POST" {
			return admExp{Accept: true}
		}
		return admExp{NA: true} // a poll would block; other methods are the transport's business
	}
	// handshake
	if q.Method != "GET" {
		return rej(400, 2, "Bad handshake method")
	}
	if tv == "websocket" && !q.Upgrade {
		return rej(400, 3, "Bad request")
	}
	if c.Hook == "deny" {
		return rej(403, 4, "nope: not today")
	}
	if q.EIO != "4" && !c.AllowEIO3 {
		if q.Upgrade {
			return admExp{NA: true} // refused after the WebSocket was accepted: R-http lane
		}
		return rej(400, 5, "Unsupported protocol version")
	}
	if q.Upgrade {
		return admExp{NA: true}
	}
	return admExp{Accept: true}
}

func runAdmission(r *rep.Report, c admCfg, reqs []admReq) {
	so := &config.ServerOptions{}
	so.SetTransports(types.NewSet(c.Enabled...))
	so.SetAllowEIO3(c.AllowEIO3)
	so.SetPingInterval(time.Hour)
	so.SetPingTimeout(time.Hour)
	switch c.Hook {
	case "allow":
		so.SetAllowRequest(func(*types.HttpContext) error { return nil })
	case "deny":
		so.SetAllowRequest(func(*types.HttpContext) error { return errors.New("nope: not today") })
	}
	eng := engine.NewServer(so)
	if c.MW == "fail" {
		eng.Use(func(ctx *types.HttpContext, next func(error)) { next(errors.New("middleware says no")) })
	}
	var mu sync.Mutex
	connErr := 0
	conns := 0
	eng.On("connection_error", func(...any) { mu.Lock(); connErr++; mu.Unlock() })
	eng.On("connection", func(...any) { mu.Lock(); conns++; mu.Unlock() })
	do := func(method, target string, hdr http.Header, body string) *httptest.ResponseRecorder {
		req := httptest.NewRequest(method, "http://h"+target, strings.NewReader(body))
		for k, v := range hdr {
			req.Header[k] = v
		}
		rec := httptest.NewRecorder()
		done := make(chan struct{})
		go func() { defer close(done); eng.ServeHTTP(rec, req) }()
		select {
		case <-done:
		case <-time.After(5 * time.Second):
			return nil
		}
		return rec
	}
	// sessions used by the sid cases: need an admissible handshake, so build them through a
	// second server object? no - use the engine's Handshake directly to bypass hook/middleware
	newSession := func() (string, engine.Socket) {
		req := httptest.NewRequest("GET", "http://h/engine.io/?EIO=4&transport=polling", nil)
		rec := httptest.NewRecorder()
		ctx := types.NewHttpContext(rec, req)
		var sock engine.Socket
		h := func(a ...any) { sock = a[0].(engine.Socket) }
		eng.Once("connection", h)
		eng.Handshake("polling", ctx)
		if sock == nil {
			return "", nil
		}
		return sock.Id(), sock
	}
	if !contains(c.Enabled, "polling") {
		// sid cases need a polling session; skip them on servers without polling
		var f []admReq
		for _, q := range reqs {
			if q.Sid == "absent" || q.Sid == "unknown" {
				f = append(f, q)
			}
		}
		reqs = f
	}
	var liveSid, closedSid string
	var live engine.Socket
	if contains(c.Enabled, "polling") {
		liveSid, live = newSession()
		var cs engine.Socket
		closedSid, cs = newSession()
		if cs != nil {
			cs.Close(true)
		}
		if live == nil {
			r.Inconclusive("could not create the canary session")
			return
		}
	}
	for _, q := range reqs {
		exp := admModel(c, q)
		if exp.NA {
			r.Obs("admission_cells_not_decidable_here", 1)
			continue
		}
		qs := []string{}
		switch q.Transport {
		case "-":
		case "polling,bogus":
			qs = append(qs, "transport=polling", "transport=bogus")
		default:
			qs = append(qs, "transport="+q.Transport)
		}
		switch q.EIO {
		case "4", "3", "5", "04":
			// "5" and "04" are numbers that are neither revision: the revision is 4 when the
			// parameter is 4, otherwise 3
			qs = append(qs, "EIO="+q.EIO)
		case "garbage":
			qs = append(qs, "EIO=9x")
		}
		switch q.Sid {
		case "unknown":
			qs = append(qs, "sid=doesnotexist")
		case "known-same":
			qs = append(qs, "sid="+liveSid)
		case "known-other":
			qs = append(qs, "sid="+liveSid)
		case "closed":
			qs = append(qs, "sid="+closedSid)
		}
		hdr := http.Header{}
		if q.OriginBad {
			hdr["Origin"] = []string{"http://a\x01b.example"}
		}
		if q.Upgrade {
			hdr.Set("Connection", "Upgrade")
			hdr.Set("Upgrade", "websocket")
			hdr.Set("Sec-WebSocket-Version", "13")
			hdr.Set("Sec-WebSocket-Key", "dGhlIHNhbXBsZSBub25jZQ==")
		}
		tq := q
		if q.Sid == "known-other" {
			// the live session is on polling: ask for it on websocket
			var nq []string
			for _, x := range qs {
				if !strings.HasPrefix(x, "transport=") {
					nq = append(nq, x)
				}
			}
			qs = append(nq, "transport=websocket")
			tq.Transport = "websocket"
			exp = admModel(c, tq)
			if exp.NA {
				continue
			}
		}
		body := ""
		if q.Method == "POST" {
			body = "6" // the canary session speaks revision 4 whatever the request's EIO says
		}
		mu.Lock()
		ce0, cn0 := connErr, conns
		mu.Unlock()
		cnt0 := eng.ClientsCount()
		rec := do(q.Method, "/engine.io/?"+strings.Join(qs, "&"), hdr, body)
		r.Case(fmt.Sprintf("adm/%v/%v/%s/%s/%+v", c.Enabled, c.AllowEIO3, c.Hook, c.MW, q), true)
		r.Obs("admission_cases", 1)
		desc := map[string]any{"server": c, "request": q, "query": strings.Join(qs, "&")}
		if rec != nil {
			r.Sample(map[string]any{"kind": "admission", "server": c, "request": q, "query": strings.Join(qs, "&"), "status": rec.Code, "body": rec.Body.String()})
		}
		if rec == nil {
			r.Violationf("c05-request-never-answered", desc, "request was not answered within 5 s")
			continue
		}
		mu.Lock()
		ce1, cn1 := connErr, conns
		mu.Unlock()
		match := func(e admExp) (bool, string) {
			if e.Accept {
				if rec.Code != 200 {
					return false, fmt.Sprintf("expected admission, got %d %q", rec.Code, rec.Body.String())
				}
				return true, ""
			}
			if e.Code == -1 {
				if rec.Code != e.Status {
					return false, fmt.Sprintf("expected status %d, got %d", e.Status, rec.Code)
				}
				return true, ""
			}
			var got struct {
				Code    *int   `json:"code"`
				Message string `json:"message"`
			}
			if rec.Code != e.Status {
				return false, fmt.Sprintf("expected %d {code %d, %q}, got status %d body %q", e.Status, e.Code, e.Message, rec.Code, rec.Body.String())
			}
			if err := json.Unmarshal(rec.Body.Bytes(), &got); err != nil || got.Code == nil {
				return false, fmt.Sprintf("expected JSON error body, got %q", rec.Body.String())
			}
			if *got.Code != e.Code || got.Message != e.Message {
				return false, fmt.Sprintf("expected {code %d, %q}, got {code %d, %q}", e.Code, e.Message, *got.Code, got.Message)
			}
			return true, ""
		}
		ok, why := match(exp)
		used := exp
		if !ok && exp.Alt != nil {
			if ok2, _ := match(*exp.Alt); ok2 {
				ok, used = true, *exp.Alt
			}
		}
		if !ok {
			k := "c05-admission-decision"
			if !exp.Accept && exp.Code == 5 {
				k = "c05-admission-decision:unsupported-protocol-version"
			}
			r.Violationf(k, desc, "%s", why)
			continue
		}
		if used.Accept {
			r.Obs("admitted", 1)
			if q.Sid == "absent" {
				if cn1 != cn0+1 || eng.ClientsCount() != cnt0+1 {
					r.Violationf("c05-admitted-handshake-sessions", desc, "admitted handshake: %d connection events, count %d -> %d", cn1-cn0, cnt0, eng.ClientsCount())
				}
				// close the session it created
				if i := strings.Index(rec.Body.String(), `"sid":"`); i >= 0 {
					sid := rec.Body.String()[i+7:]
					sid = sid[:strings.Index(sid, `"`)]
					if s, ok := eng.Clients().Load(sid); ok {
						s.Close(true)
					}
				}
			}
			continue
		}
		r.Obs(fmt.Sprintf("rejected_code_%d", used.Code), 1)
		wantCE := 1
		if used.Code == -1 {
			wantCE = 0
		}
		if ce1-ce0 != wantCE {
			r.Violationf("c05-connection-error-events", desc, "%d connection_error events for one rejected request (status %d %q)", ce1-ce0, rec.Code, rec.Body.String())
		}
		if cn1 != cn0 || eng.ClientsCount() != cnt0 {
			r.Violationf("c05-rejected-request-created-session", desc, "connection events %d -> %d, client count %d -> %d", cn0, cn1, cnt0, eng.ClientsCount())
		}
		if live != nil && live.ReadyState() != "open" {
			r.Violationf("c05-rejected-request-disturbed-session", desc, "the existing session is %s after the rejected request", live.ReadyState())
			liveSid, live = newSession()
		}
	}
	// canary: the pre-existing session still exchanges messages
	if live != nil {
		got := make(chan string, 1)
		live.On("message", func(a ...any) {
			b, _ := io.ReadAll(a[0].(io.Reader))
			select {
			case got <- string(b):
			default:
			}
		})
		rec := do("POST", "/engine.io/?EIO=4&transport=polling&sid="+liveSid, nil, "4canary")
		ok := rec != nil && rec.Code == 200
		select {
		case m := <-got:
			ok = ok && m == "canary"
		case <-time.After(2 * time.Second):
			ok = false
		}
		r.Obs("canary_round_trips", 1)
		if !ok && c.MW != "fail" {
			r.Violationf("c05-canary-failed", map[string]any{"server": c}, "the pre-existing session no longer accepts data after the rejected requests")
		}
		live.Close(true)
	}
	eng.Close()
}

func contains(xs []string, x string) bool {
	for _, v := range xs {
		if v == x {
			return true
		}
	}
	return false
}

// refusals after a WebSocket connection was accepted: the close message carries the text
func runAcceptedRefusals(r *rep.Report) {
	rig.Bubble(r.T(), func() {
		so := &config.ServerOptions{}
		so.SetAllowEIO3(false)
		w := rig.NewWorld(rig.Options{Server: so})
		defer w.Finish()
		_, err := w.Connect(rig.ClientCfg{Rev: 3, Transport: "websocket"})
		rig.Wait()
		r.Case("accepted-refusal/ws/eio3", true)
		r.Obs("accepted_connection_refusals", 1)
		var ce *ws.CloseError
		if !errors.As(err, &ce) || ce.Text != "Unsupported protocol version" {
			r.Violationf("c05-accepted-websocket-refusal", nil, "revision-3 handshake over an accepted WebSocket on a server without allowEIO3: client saw %v, expected a close message carrying 'Unsupported protocol version'", err)
		}
		n := 0
		for _, e := range w.Tap.Events() {
			if e.Kind == "connection_error" {
				n++
			}
		}
		if n != 1 {
			r.Violationf("c05-connection-error-events", nil, "%d connection_error events for a handshake refused after the WebSocket was accepted", n)
		}
		if w.Eng.ClientsCount() != 0 {
			r.Violationf("c05-rejected-request-created-session", nil, "refused WebSocket handshake left %d sessions", w.Eng.ClientsCount())
		}
	})
}

// runUpgradeFailures: requests that pass every admission check and ask for a WebSocket upgrade
// which the WebSocket layer then refuses (wrong version, missing or short key, wrong method with a
// known sid).  The engine rejects them as "Bad request": one JSON answer, one connection_error.
func runUpgradeFailures(r *rep.Report) {
	rig.Bubble(r.T(), func() {
		so := &config.ServerOptions{}
		w := rig.NewWorld(rig.Options{Server: so})
		defer w.Finish()
		wsSession, err := w.Connect(rig.ClientCfg{Rev: 4, Transport: "websocket"})
		rig.Wait()
		if err != nil {
			r.Inconclusive("upgrade-failure lane: " + err.Error())
			return
		}
		wsSession.StartReader()
		base := func() http.Header {
			return http.Header{"Connection": {"Upgrade"}, "Upgrade": {"websocket"}, "Sec-Websocket-Version": {"13"}, "Sec-Websocket-Key": {"dGhlIHNhbXBsZSBub25jZQ=="}}
		}
		type uf struct {
			name   string
			method string
			query  string
			mut    func(http.Header)
		}
		cases := []uf{
			{"version 12", "GET", "EIO=4&transport=websocket", func(h http.Header) { h.Set("Sec-Websocket-Version", "12") }},
			{"version absent", "GET", "EIO=4&transport=websocket", func(h http.Header) { h.Del("Sec-Websocket-Version") }},
			{"key absent", "GET", "EIO=4&transport=websocket", func(h http.Header) { h.Del("Sec-Websocket-Key") }},
			{"key not 16 bytes", "GET", "EIO=4&transport=websocket", func(h http.Header) { h.Set("Sec-Websocket-Key", "c2hvcnQ=") }},
			{"key not base64", "GET", "EIO=4&transport=websocket", func(h http.Header) { h.Set("Sec-Websocket-Key", "!!!!") }},
			{"POST with the sid of a websocket session", "POST", "EIO=4&transport=websocket&sid=" + wsSession.Sid, func(h http.Header) {}},
			{"version 12 with the sid of a websocket session", "GET", "EIO=4&transport=websocket&sid=" + wsSession.Sid, func(h http.Header) { h.Set("Sec-Websocket-Version", "12") }},
		}
		for _, tc := range cases {
			h := base()
			tc.mut(h)
			errsBefore, sessBefore := 0, w.Eng.ClientsCount()
			for _, e := range w.Tap.Events() {
				if e.Kind == "connection_error" {
					errsBefore++
				}
			}
			res := w.Do(rig.ReqSpec{Method: tc.method, Target: "/engine.io/?" + tc.query, Header: h})
			rig.Wait()
			r.Case("upgrade-failure/"+tc.name, true)
			r.Obs("websocket_upgrade_failures", 1)
			errs := 0
			for _, e := range w.Tap.Events() {
				if e.Kind == "connection_error" {
					errs++
				}
			}
			var body struct {
				Code    *int   `json:"code"`
				Message string `json:"message"`
			}
			jerr := json.Unmarshal(res.Body, &body)
			if res.Err != nil || res.Status != 400 || jerr != nil || body.Code == nil || *body.Code != 3 || body.Message != "Bad request" {
				r.Violationf("c05-admission-decision", map[string]string{"request": tc.name}, "WebSocket upgrade the WebSocket layer refuses (%s): answered %d %q (Content-Type %q, err %v); documented: 400 {\"code\":3,\"message\":\"Bad request\"}", tc.name, res.Status, trunc(res.Body), res.Header.Get("Content-Type"), res.Err)
				continue
			}
			if errs-errsBefore != 1 {
				r.Violationf("c05-connection-error-events", map[string]string{"request": tc.name}, "%d connection_error events for a refused WebSocket upgrade (%s)", errs-errsBefore, tc.name)
			}
			if w.Eng.ClientsCount() != sessBefore {
				r.Violationf("c05-rejected-request-created-session", map[string]string{"request": tc.name}, "client count %d -> %d", sessBefore, w.Eng.ClientsCount())
			}
			if s := w.SocketByID(wsSession.Sid); s == nil || s.ReadyState() != "open" {
				r.Violationf("c05-rejected-request-disturbed-session", map[string]string{"request": tc.name}, "the existing WebSocket session did not survive the refused request")
				return
			}
		}
		wsSession.Stop()
	})
}

// runOriginBytes: every control byte, one at a time, inside the Origin header of an otherwise
// admissible handshake (delivered in-process: net/http's own parser would refuse most of them).
// SP and HT may appear in a header value; every other control byte makes the header malformed:
// 400, code 3, one connection_error, no session.
func runOriginBytes(r *rep.Report) {
	eng := engine.NewServer(&config.ServerOptions{})
	defer eng.Close()
	errs := 0
	eng.On("connection_error", func(...any) { errs++ })
	for b := 0; b < 256; b++ {
		if b >= 0x20 && b != 0x7f && b < 0x80 && b != ' ' {
			continue // printable ASCII: one representative below
		}
		for _, pos := range []string{"middle", "end", "start"} {
			origin := "http://a" + string([]byte{byte(b)}) + "b.example"
			switch pos {
			case "end":
				origin = "http://a.example" + string([]byte{byte(b)})
			case "start":
				origin = string([]byte{byte(b)}) + "http://a.example"
			}
			req := httptest.NewRequest("GET", "http://h/engine.io/?EIO=4&transport=polling", nil)
			req.Header["Origin"] = []string{origin}
			rec := httptest.NewRecorder()
			before, e0 := eng.ClientsCount(), errs
			eng.ServeHTTP(rec, req)
			r.Case(fmt.Sprintf("origin-byte/%#02x/%s", b, pos), true)
			r.Obs("origin_control_byte_cases", 1)
			malformed := (b < 0x20 && b != '\t') || b == 0x7f
			if malformed {
				var body struct {
					Code    *int   `json:"code"`
					Message string `json:"message"`
				}
				jerr := json.Unmarshal(rec.Body.Bytes(), &body)
				if rec.Code != 400 || jerr != nil || body.Code == nil || *body.Code != 3 || body.Message != "Bad request" || errs-e0 != 1 || eng.ClientsCount() != before {
					r.Violationf("c05-admission-decision", map[string]any{"origin_byte": b, "position": pos}, "handshake whose Origin header contains the control byte %#02x (%s): answered %d %q, %d connection_error events, client count %d -> %d; a malformed Origin is refused with 400 {\"code\":3,\"message\":\"Bad request\"}", b, pos, rec.Code, trunc(rec.Body.Bytes()), errs-e0, before, eng.ClientsCount())
					return
				}
			} else if rec.Code != 200 {
				r.Violationf("c05-admission-decision", map[string]any{"origin_byte": b, "position": pos}, "handshake whose Origin header contains the byte %#02x (allowed in a header value) was refused: %d %q", b, rec.Code, trunc(rec.Body.Bytes()))
				return
			}
		}
	}
}

// nearBaseline: the request differs from a plain good handshake (GET, polling, no sid, EIO=4,
// clean Origin, no upgrade headers) in at most two fields.  The quick tier runs all of these
// under every configuration, next to its stride sample of the whole table, so that a change of
// one check (or of the order of two) cannot fall between the sampled cells.
func nearBaseline(q admReq) bool {
	d := 0
	if q.Method != "GET" {
		d++
	}
	if q.Transport != "polling" {
		d++
	}
	if q.Sid != "absent" {
		d++
	}
	if q.EIO != "4" {
		d++
	}
	if q.OriginBad {
		d++
	}
	if q.Upgrade {
		d++
	}
	return d <= 2
}

// runHookTexts: the allow-request hook refuses with error texts a JSON encoder must escape (or,
// for invalid UTF-8, replace): the 403 body must be JSON (parsed here by encoding/json, which is
// strict) whose code is 4 and whose message is the hook's own text.  Both a plain handshake and a
// handshake refused on a server with other hook-independent rejections around it.
func runHookTexts(r *rep.Report) {
	texts := []string{
		"nope", "", "with \"quotes\" and \\ backslashes", "line\nbreak\tand\rreturn", "esc \x1b[31mred\x1b[0m", "nul \x00 inside", "bell \a vt \v ff \f bs \b",
		"del \x7f", "invalid utf-8 \xff\xfe here", "tag \U000e0001 rune", "separators \u2028 \u2029", "</script><!-- html", "unicode é ß € 😀 中",
		strings.Repeat("long ", 1000), "{\"code\":0,\"message\":\"injected\"}", "token=\x1b]0;title\x07",
	}
	for _, text := range texts {
		so := &config.ServerOptions{}
		text := text
		so.SetAllowRequest(func(*types.HttpContext) error { return errors.New(text) })
		eng := engine.NewServer(so)
		errs := 0
		eng.On("connection_error", func(...any) { errs++ })
		rec := httptest.NewRecorder()
		eng.ServeHTTP(rec, httptest.NewRequest("GET", "http://h/engine.io/?EIO=4&transport=polling", nil))
		r.Case(fmt.Sprintf("hook-text/%.12q", text), true)
		r.Obs("hook_texts_checked", 1)
		var body struct {
			Code    *int    `json:"code"`
			Message *string `json:"message"`
		}
		// invalid UTF-8 cannot travel in JSON: how many replacement characters stand for a run of
		// invalid bytes is not specified, so runs are collapsed on both sides
		collapse := func(x string) string {
			for strings.Contains(x, "\ufffd\ufffd") {
				x = strings.ReplaceAll(x, "\ufffd\ufffd", "\ufffd")
			}
			return x
		}
		want := collapse(strings.ToValidUTF8(text, "\ufffd"))
		jerr := json.Unmarshal(rec.Body.Bytes(), &body)
		got := ""
		if body.Message != nil {
			got = *body.Message
		}
		// an empty hook text may be left out of the body (omitempty) or be ""
		if rec.Code != 403 || jerr != nil || body.Code == nil || *body.Code != 4 || collapse(got) != want {
			r.Violationf("c05-admission-decision:hook-text", map[string]string{"hook_error_text": text}, "allow-request hook refusing with the text %.60q: answered %d %.120q (JSON error: %v); documented: 403 with a JSON body of code 4 and the hook's own text as message", text, rec.Code, rec.Body.String(), jerr)
		}
		if errs != 1 {
			r.Violationf("c05-connection-error-events", map[string]string{"hook_error_text": text}, "%d connection_error events for one refused handshake", errs)
		}
		if eng.ClientsCount() != 0 {
			r.Violationf("c05-rejected-request-created-session", map[string]string{"hook_error_text": text}, "a refused handshake left %d sessions", eng.ClientsCount())
		}
		eng.Close()
	}
}

func TestC05(t *testing.T) {
	r := rep.New(t, "C05")
	defer r.Flush()
	r.Rule("routing: 9 attach variants (none, server options only, empty, path with/without slash, nested, addTrailingSlash on/off) x 16 request paths (exact, sub-paths, missing slash, dot segments, doubled slashes, case variants, unrelated) x methods {GET, POST, CONNECT, OPTIONS, DELETE} through types.HttpServer.ServeHTTP with a marked default handler, against a reference mount rule; admission: the abstract table method x transport value (incl. absent, repeated, webtransport, garbage) x sid {absent, unknown, known same/other transport, closed} x EIO x Origin bytes x upgrade headers x hook x middleware x enabled transports x allowEIO3 against a reference precedence model (differential), one connection_error per rejection, registry snapshot, canary session; 16 hook error texts a JSON encoder must escape or replace (control characters, DEL, invalid UTF-8, supplementary-plane and separator runes, markup, JSON look-alikes), the body parsed strictly; plus refusals after an accepted WebSocket and an allowRequest refusal of a real WebTransport session (QUIC on loopback); thorough enumerates the table completely, quick a deterministic stride of it; distinct = table cells")
	r.Assume("a WebSocket upgrade request on a server whose transports exclude websocket may be answered 501 or with the documented 'Transport unknown' error; for a repeated transport parameter either value may count")
	r.Assume("cells whose outcome needs a hijackable connection (accepted WebSocket upgrades) or a blocking poll are decided in the R-http lanes of this and other checks and are counted as not decidable here")
	if r.Lane == 0 {
		runRouting(r)
		runAcceptedRefusals(r)
		runUpgradeFailures(r)
		runOriginBytes(r)
		runHookTexts(r)
		runClosingSessionRequests(r)
	}
	if r.Lane == 0 {
		quicLanes(r, "admission")
	}
	var cfgs []admCfg
	for _, en := range [][]string{{"polling", "websocket"}, {"polling"}, {"websocket"}, {"polling", "websocket", "webtransport"}} {
		for _, a3 := range []bool{false, true} {
			for _, hook := range []string{"none", "allow", "deny"} {
				for _, mw := range []string{"ok", "fail"} {
					cfgs = append(cfgs, admCfg{en, a3, hook, mw})
				}
			}
		}
	}
	var reqs []admReq
	for _, m := range []string{"GET", "POST", "PUT"} {
		for _, tr := range []string{"polling", "websocket", "webtransport", "bogus", "-", "polling,bogus"} {
			for _, sid := range []string{"absent", "unknown", "known-same", "known-other", "closed"} {
				for _, eio := range []string{"4", "3", "-", "garbage", "5", "04"} {
					for _, ob := range []bool{false, true} {
						for _, up := range []bool{false, true} {
							if up && m != "GET" {
								continue
							}
							reqs = append(reqs, admReq{m, tr, sid, eio, ob, up})
						}
					}
				}
			}
		}
	}
	total := len(cfgs) * len(reqs)
	stride := 1
	if !r.Thorough() {
		stride = 7 // deterministic sample of the table
	}
	idx := 0
	for ci, c := range cfgs {
		var mine []admReq
		for _, q := range reqs {
			if (idx%stride == int(r.Seed)%stride || nearBaseline(q)) && r.Mine(ci) {
				mine = append(mine, q)
			}
			idx++
		}
		if len(mine) > 0 {
			runAdmission(r, c, mine)
		}
	}
	r.Obs("abstract_table_cells", int64(total))
	if r.Thorough() {
		r.Obs("table_enumerated_completely", 1)
		r.Exhaustive("the abstract admission table (48 server configurations x 1440 request shapes) and the routing table (9 attach variants x 16 paths x methods); exhaustive with respect to that abstraction only")
	}
}

// runClosingSessionRequests: a session that is registered and on its way out - a graceful
// Close(false) of a polling session between two polls, whose close packet needs the client's next
// poll to travel - is still a known session: the client's next poll and data request must pass the
// admission checks (known sid, same transport), not be answered 'Session ID unknown', and must not
// produce a connection_error event.
func runClosingSessionRequests(r *rep.Report) {
	for _, rev := range []int{4, 3} {
		so := &config.ServerOptions{}
		so.SetAllowEIO3(true)
		so.SetPingInterval(time.Hour)
		so.SetPingTimeout(time.Hour)
		eng := engine.NewServer(so)
		errs := 0
		eng.On("connection_error", func(...any) { errs++ })
		rec := httptest.NewRecorder()
		eng.ServeHTTP(rec, httptest.NewRequest("GET", fmt.Sprintf("http://h/engine.io/?EIO=%d&transport=polling", rev), nil))
		body := rec.Body.String()
		k := strings.Index(body, `"sid":"`)
		if k < 0 {
			r.Inconclusive("closing-session lane: handshake failed")
			eng.Close()
			continue
		}
		sid := body[k+7:]
		sid = sid[:strings.Index(sid, `"`)]
		s, ok := eng.Clients().Load(sid)
		if !ok {
			eng.Close()
			continue
		}
		s.Send(types.NewStringBufferString("last"), nil, nil)
		s.Close(false)
		r.Case(fmt.Sprintf("closing-session-requests/v%d", rev), s.ReadyState() == "closing")
		r.Obs("requests_naming_a_closing_session", 2)
		// a data request first (it does not complete the close), then the poll that carries the close packet
		for _, q := range []struct{ method, body string }{{"POST", map[int]string{4: "4x", 3: "2:4x"}[rev]}, {"GET", ""}} {
			if _, still := eng.Clients().Load(sid); !still {
				break
			}
			rec := httptest.NewRecorder()
			req := httptest.NewRequest(q.method, fmt.Sprintf("http://h/engine.io/?EIO=%d&transport=polling&sid=%s", rev, sid), strings.NewReader(q.body))
			done := make(chan struct{})
			go func() { defer close(done); eng.ServeHTTP(rec, req) }()
			select {
			case <-done:
			case <-time.After(5 * time.Second):
				r.Obs("closing_session_requests_unanswered_after_5s", 1)
				continue
			}
			if rec.Code == 400 && strings.Contains(rec.Body.String(), `"code":1`) {
				r.Violationf("c05-admission-decision:closing-session", map[string]any{"rev": rev, "method": q.method}, "%s naming a session that is registered and in state 'closing' (graceful close waiting for the client's next poll) was answered %d %.60q: the sid is known, the request must be admitted", q.method, rec.Code, rec.Body.String())
			}
		}
		if errs != 0 {
			r.Violationf("c05-connection-error-events", map[string]any{"rev": rev}, "%d connection_error events for requests naming a registered (closing) session", errs)
		}
		eng.Close()
	}
}
