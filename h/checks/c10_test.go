package checks

import (
	"bytes"
	"compress/gzip"
	"fmt"
	"io"
	"math/rand/v2"
	"strings"
	"sync/atomic"
	"testing"
	"time"

	"github.com/zishang520/engine.io/v2/config"
	"github.com/zishang520/engine.io/v2/types"

	"verifh/refcodec"
	"verifh/rep"
	"verifh/rig"
)

type c10Case struct {
	Limit     int64  `json:"limit"`
	Transport string `json:"transport"`
	Rev       int    `json:"rev"`
	Size      int    `json:"body_or_frame_size"`
	Chunked   bool   `json:"chunked_no_content_length"`
	Packets   int    `json:"packets"`
	Binary    bool   `json:"binary"`
	Upgraded  bool   `json:"session_upgraded_from_polling"`
	PMD       bool   `json:"permessage_deflate"` // WebSocket: compression negotiated, the frame travels compressed
	// JSONP (polling): the session was opened with the j parameter, data requests are form bodies d=<payload>
	JSONP bool   `json:"jsonp"`
	Seed  string `json:"seed"`
}

// what net/http itself may drain from an unread body after the handler returned
const httpPostHandlerDrain = 256 << 10
const readSlack = 16 << 10

func genC10(rng *rand.Rand) c10Case {
	c := c10Case{Rev: 4}
	c.Limit = []int64{1, 10, 100, 4096, 65536, 200000}[rng.IntN(6)]
	c.Transport = []string{"polling", "polling", "websocket", "webtransport"}[rng.IntN(4)]
	if c.Transport == "polling" && rng.IntN(3) == 0 {
		c.Rev = 3
	}
	l := int(c.Limit)
	c.Size = []int{l - 1, l, l + 1, l + 2, 2 * l, 4 * l, 64 * l, l / 2, 1}[rng.IntN(9)]
	if c.Size < 1 {
		c.Size = 1
	}
	if c.Size > 3<<20 {
		c.Size = 3 << 20
	}
	if rng.IntN(8) == 0 {
		c.Size = l + 600000 // far beyond net/http's own post-handler drain
	}
	c.Chunked = c.Transport == "polling" && rng.IntN(2) == 0
	c.Packets = 1
	if rng.IntN(3) == 0 {
		c.Packets = 2 + rng.IntN(4)
	}
	c.Binary = c.Transport != "polling" && rng.IntN(2) == 0
	c.Upgraded = c.Transport != "polling" && c.Limit >= 100 && rng.IntN(2) == 0
	c.PMD = c.Transport == "websocket" && rng.IntN(3) == 0
	c.JSONP = c.Transport == "polling" && c.Packets == 1 && rng.IntN(3) == 0
	return c
}

// cntBody counts what the library reads from a request body.
type cntBody struct {
	r io.Reader
	c io.Closer
	n *atomic.Int64
}

func (b *cntBody) Read(p []byte) (int, error) {
	n, err := b.r.Read(p)
	b.n.Add(int64(n))
	return n, err
}
func (b *cntBody) Close() error { return b.c.Close() }

// runC10Inflated: the declared Content-Length is that of a compressed body; an application
// middleware (Server.Use) replaces the body by its inflated form, as transparent request
// decompression does.  The limit is about what the transport reads, whatever was declared.
func runC10Inflated(limit int64, size int, rev int, r *rep.Report) (key, msg string) {
	rig.Bubble(r.T(), func() {
		so := &config.ServerOptions{}
		so.SetAllowEIO3(true)
		so.SetMaxHttpBufferSize(limit)
		so.SetPingInterval(20 * time.Second)
		w := rig.NewWorld(rig.Options{Server: so})
		defer w.Finish()
		var consumed atomic.Int64
		w.Eng.Use(func(ctx *types.HttpContext, next func(error)) {
			q := ctx.Request()
			if q.Method == "POST" && q.Header.Get("Content-Encoding") == "gzip" {
				zr, err := gzip.NewReader(q.Body)
				if err != nil {
					next(err)
					return
				}
				q.Header.Del("Content-Encoding")
				q.Body = &cntBody{r: zr, c: q.Body, n: &consumed}
			}
			next(nil)
		})
		cl, err := w.Connect(rig.ClientCfg{Rev: rev, Transport: "polling"})
		rig.Wait()
		if err != nil {
			key, msg = "c10-handshake-failed", err.Error()
			return
		}
		cl.StartReader()
		time.Sleep(time.Millisecond)
		rig.Wait()
		inner := "4" + strings.Repeat("a", size-1)
		plain := inner
		if rev == 3 {
			plain = fmt.Sprintf("%d:%s", len(inner), inner)
		}
		var zb bytes.Buffer
		zw := gzip.NewWriter(&zb)
		zw.Write([]byte(plain))
		zw.Close()
		res := w.Do(rig.ReqSpec{Method: "POST", Target: "/engine.io/?EIO=" + fmt.Sprint(rev) + "&transport=polling&sid=" + cl.Sid,
			Header: map[string][]string{"Content-Type": {"text/plain;charset=UTF-8"}, "Content-Encoding": {"gzip"}}, Body: zb.Bytes()})
		time.Sleep(10 * time.Millisecond)
		rig.Wait()
		for _, e := range w.Tap.Of(cl.Sid, "message") {
			if int64(len(e.Str)) > limit {
				key, msg = "c10-oversized-message-delivered:polling", fmt.Sprintf("a message of %d bytes was delivered with maxHttpBufferSize %d: the body declared %d bytes (compressed) and a middleware inflated it to %d", len(e.Str), limit, zb.Len(), len(plain))
				return
			}
		}
		if int64(len(plain)) > limit {
			if res.Err == nil && res.Status != 413 {
				key, msg = "c10-oversized-body-not-refused", fmt.Sprintf("body inflated by a middleware to %d bytes (declared %d, limit %d) answered %d %q, expected 413", len(plain), zb.Len(), limit, res.Status, res.Body)
				return
			}
			if consumed.Load() > limit+readSlack {
				key, msg = "c10-oversized-body-consumed", fmt.Sprintf("the transport read %d bytes of a body inflated to %d bytes (limit %d + slack %d)", consumed.Load(), len(plain), limit, readSlack)
				return
			}
		} else if res.Status != 200 {
			key, msg = "c10-admissible-body-refused", fmt.Sprintf("body inflated to %d bytes (limit %d) answered %d", len(plain), limit, res.Status)
			return
		} else if n := len(w.Tap.Of(cl.Sid, "message")); n != 1 {
			key, msg = "c10-admissible-body-not-delivered", fmt.Sprintf("%d message events for one admissible inflated body of %d bytes", n, len(plain))
			return
		}
		cl.Stop()
	})
	return
}

func runC10(c c10Case, rng *rand.Rand, r *rep.Report) (key, msg string, stats map[string]int64) {
	stats = map[string]int64{}
	var pan any
	func() {
		defer func() { pan = recover() }()
		rig.Bubble(r.T(), func() {
			so := &config.ServerOptions{}
			so.SetAllowEIO3(true)
			so.SetTransports(types.NewSet("polling", "websocket", "webtransport"))
			so.SetMaxHttpBufferSize(c.Limit)
			so.SetPingInterval(20 * time.Second)
			if c.PMD {
				so.SetPerMessageDeflate(&types.PerMessageDeflate{Threshold: 1024})
			}
			w := rig.NewWorld(rig.Options{Server: so})
			defer w.Finish()
			canary, err := w.Connect(rig.ClientCfg{Rev: 4, Transport: "websocket"})
			if err != nil {
				key, msg = "c10-handshake-failed", err.Error()
				return
			}
			canary.StartReader()
			start := c.Transport
			if c.Upgraded {
				start = "polling"
			}
			cl, err := w.Connect(rig.ClientCfg{Rev: c.Rev, Transport: start, WSCompress: c.PMD, JSONP: c.JSONP, J: "0", B64: c.JSONP && c.Rev == 3})
			rig.Wait()
			if err != nil {
				key, msg = "c10-handshake-failed", err.Error()
				return
			}
			if c.Upgraded {
				cl.StartReader()
				if err := cl.UpgradeTo(c.Transport, nil); err != nil {
					key, msg = "c10-upgrade-failed", err.Error()
					return
				}
				time.Sleep(time.Millisecond)
				rig.Wait()
				stats["frames_on_upgraded_sessions"]++
			}
			sid := cl.Sid
			sock := w.SocketByID(sid)
			if !c.Upgraded {
				cl.StartReader()
			}
			time.Sleep(time.Millisecond)
			rig.Wait()
			switch c.Transport {
			case "polling":
				// a payload of c.Size bytes: c.Packets message packets
				per := c.Size / c.Packets
				var ps []refcodec.Packet
				for i := 0; i < c.Packets; i++ {
					n := per - 8
					if n < 0 {
						n = 0
					}
					ps = append(ps, refcodec.Packet{Type: refcodec.Message, Data: []byte(strings.Repeat("a", n))})
				}
				form := "v4"
				if c.Rev == 3 {
					form = "v3s"
				}
				body := refcodec.EncodePayload(form, ps)
				for len(body) < c.Size {
					body = append(body, 'a')
				}
				if len(body) > c.Size && c.Size > 2 {
					// keep the exact size: one message of size-1 bytes (v4) / a length-prefixed one (v3)
					if form == "v4" {
						body = append([]byte("4"), []byte(strings.Repeat("a", c.Size-1))...)
					} else {
						n := c.Size
						for {
							inner := "4" + strings.Repeat("a", n)
							enc := fmt.Sprintf("%d:%s", len(inner), inner)
							if len(enc) <= c.Size || n == 0 {
								body = []byte(enc)
								break
							}
							n--
						}
					}
				}
				ctype := "text/plain;charset=UTF-8"
				if c.JSONP && len(body) > 3 {
					// the same number of bytes on the wire: d=<payload that needs no escaping>
					body = append([]byte("d="), body[:len(body)-2]...)
					if form == "v3s" {
						inner := "4" + strings.Repeat("a", max(len(body)-2-8, 0))
						enc := fmt.Sprintf("d=%d:%s", len(inner), inner)
						for len(enc) < c.Size {
							enc += "a"
						}
						body = []byte(enc)
					}
					ctype = "application/x-www-form-urlencoded"
					stats["jsonp_bodies"]++
				}
				nconn := len(w.L.Conns)
				x := w.Start(rig.ReqSpec{Method: "POST", Target: "/engine.io/?EIO=" + fmt.Sprint(c.Rev) + "&transport=polling&sid=" + sid,
					Header: map[string][]string{"Content-Type": {ctype}}, Body: body, Chunked: c.Chunked})
				res := x.Wait()
				time.Sleep(10 * time.Millisecond)
				rig.Wait()
				stats["polling_bodies"]++
				over := int64(len(body)) > c.Limit
				if over {
					stats["oversized_bodies"]++
				}
				if c.Chunked {
					stats["chunked_bodies"]++
				}
				// the connection that carried the POST
				var consumed int64
				if len(w.L.Conns) > nconn {
					consumed = w.L.Conns[nconn].BytesRead()
				}
				for _, e := range w.Tap.Of(sid, "message") {
					if int64(len(e.Str)) > c.Limit {
						key, msg = "c10-oversized-message-delivered:polling", fmt.Sprintf("a message of %d bytes was delivered with maxHttpBufferSize %d (body %d bytes, chunked=%v)", len(e.Str), c.Limit, len(body), c.Chunked)
						return
					}
				}
				if over {
					if res.Err == nil && res.Status != 413 {
						key, msg = "c10-oversized-body-not-refused", fmt.Sprintf("body of %d bytes (limit %d, chunked=%v) answered %d %q, expected 413", len(body), c.Limit, c.Chunked, res.Status, res.Body)
						return
					}
					if consumed > c.Limit+readSlack+httpPostHandlerDrain {
						key, msg = "c10-oversized-body-consumed", fmt.Sprintf("server consumed %d bytes of a %d-byte body (limit %d + slack %d)", consumed, len(body), c.Limit, readSlack+httpPostHandlerDrain)
						return
					}
				} else if res.Status != 200 {
					key, msg = "c10-admissible-body-refused", fmt.Sprintf("body of %d bytes (limit %d) answered %d", len(body), c.Limit, res.Status)
					return
				}
			case "websocket", "webtransport":
				payload := make([]byte, c.Size)
				for i := range payload {
					payload[i] = 'b'
				}
				p := refcodec.Packet{Type: refcodec.Message, Data: payload, Binary: c.Binary}
				bin, data := refcodec.EncodeFrame(4, p, false)
				var before int64
				if c.Transport == "webtransport" {
					before = cl.WTServerStream.BytesRead()
					cl.WTWriteRaw(bin, data)
				} else {
					cl.WSWriteRaw(bin, data)
				}
				time.Sleep(10 * time.Millisecond)
				rig.Wait()
				stats["frames"]++
				if c.PMD {
					stats["frames_sent_compressed"]++
				}
				over := int64(len(data)) > c.Limit
				if over {
					stats["oversized_frames"]++
				}
				for _, e := range w.Tap.Of(sid, "message") {
					if int64(len(e.Str)) > c.Limit {
						key, msg = "c10-oversized-message-delivered:"+c.Transport, fmt.Sprintf("a message of %d bytes was delivered with limit %d", len(e.Str), c.Limit)
						return
					}
				}
				if over {
					if sock.ReadyState() != "closed" {
						key, msg = "c10-oversized-frame-did-not-close:"+c.Transport, fmt.Sprintf("frame of %d bytes (limit %d): session is %s", len(data), c.Limit, sock.ReadyState())
						return
					}
					if c.Transport == "webtransport" {
						if got := cl.WTServerStream.BytesRead() - before; got > c.Limit+readSlack {
							key, msg = "c10-oversized-frame-consumed", fmt.Sprintf("server consumed %d bytes of an oversized %d-byte frame (limit %d)", got, len(data), c.Limit)
							return
						}
					}
				} else if c.PMD && c.Size < 64 {
					// the connection's own limit counts bytes on the wire: a tiny message can be larger
					// compressed than plain; whether it passes is not what the statement is about
					stats["tiny_compressed_frames_not_judged"]++
				} else if sock.ReadyState() != "open" {
					key, msg = "c10-admissible-frame-closed:"+c.Transport, fmt.Sprintf("frame of %d bytes (limit %d) closed the session", len(data), c.Limit)
					return
				} else if n := len(w.Tap.Of(sid, "message")); n != 1 {
					key, msg = "c10-admissible-frame-not-delivered:"+c.Transport, fmt.Sprintf("%d message events for one admissible frame", n)
					return
				}
			}
			// other sessions are unaffected
			cs := w.SocketByID(canary.Sid)
			if int64(len("4canary")) <= c.Limit {
				canary.Send(refcodec.Text(refcodec.Message, "canary"))
			}
			cs.Send(types.NewStringBufferString("still-here"), nil, nil)
			time.Sleep(time.Millisecond)
			rig.Wait()
			ok := false
			for _, m := range canary.Messages() {
				if string(m.P.Data) == "still-here" {
					ok = true
				}
			}
			if !ok || cs.ReadyState() != "open" {
				key, msg = "c10-other-session-affected", fmt.Sprintf("the canary session is %s / did not receive its message", cs.ReadyState())
				return
			}
			cl.Stop()
			canary.Stop()
		})
	}()
	if pan != nil {
		return "c10-panic", fmt.Sprint(pan), stats
	}
	return
}

func TestC10(t *testing.T) {
	r := rep.New(t, "C10")
	defer r.Flush()
	r.Rule("PRNG cases: limit in {1,10,100,4096,65536,200000} x size in {limit-1, limit, limit+1, limit+2, 2x, 4x, 64x, limit+600000, ...} x polling bodies with declared Content-Length or chunked transfer (real net/http parsing) or a declared length that an application middleware makes wrong (compressed request body inflated in a Server.Use middleware), single and multi-packet, revision 3 and 4 x WebSocket frames (plain, and compressed with permessage-deflate: the limit is about what the message inflates to) x WebTransport frames, on fresh sessions and on sessions upgraded from polling; oracle: no message event above the limit, oversized polling body answered 413, bytes consumed from the carrying connection bounded, oversized frame closes exactly that session, canary session keeps working; distinct = (transport, limit, size class, chunked, packets)")
	r.Assume(fmt.Sprintf("the constant of the statement: %d bytes of read-buffer slack plus the %d bytes net/http itself may drain from an unread request body after the handler returned", readSlack, httpPostHandlerDrain))
	if r.Lane == 1%r.Lanes {
		quicLimit(r)
	}
	if r.Lane == 2%r.Lanes {
		for k := 0; k < r.N(4, 64); k++ {
			for _, limit := range []int64{100, 4096, 30000} {
				for _, size := range []int{int(limit) - 1, int(limit), int(limit) + 1, 4 * int(limit), 1 << 20} {
					for _, rev := range []int{4, 3} {
						if rev == 3 && size == int(limit) {
							continue // the length prefix makes the body longer than the message
						}
						key, msg := runC10Inflated(limit, size, rev, r)
						r.Case(fmt.Sprintf("inflated/%d/%d/v%d", limit, size, rev), true)
						r.Obs("bodies_inflated_by_a_middleware", 1)
						if key != "" {
							r.Violation(key, msg, map[string]any{"lane": "declared Content-Length of a compressed body, inflated by an application middleware", "limit": limit, "inflated_size": size, "rev": rev})
						}
					}
				}
			}
		}
	}
	// a case that has not ended after a minute of real time (normal: milliseconds) is examined for a
	// goroutine spinning in library code (rep.Guard)
	r.Guard(60 * time.Second)
	n := r.N(2000, 150000)
	for i := 0; i < n; i++ {
		if !r.Only(i) {
			continue
		}
		rng := r.CaseRand(10, i)
		c := genC10(rng)
		c.Seed = fmt.Sprintf("seed=%d lane=%d case=%d", r.Seed, r.Lane, i)
		r.Begin(fmt.Sprint(i), c)
		key, msg, stats := runC10(c, rng, r)
		r.End(fmt.Sprint(i))
		cls := "under"
		if int64(c.Size) == c.Limit {
			cls = "at"
		} else if int64(c.Size) > c.Limit {
			cls = "over"
			if int64(c.Size) > c.Limit+500000 {
				cls = "far-over"
			}
		}
		r.Case(fmt.Sprintf("%s/v%d/%d/%s(%d)/%v/%d/%v/up%v/pmd%v", c.Transport, c.Rev, c.Limit, cls, c.Size, c.Chunked, c.Packets, c.Binary, c.Upgraded, c.PMD), true)
		for k, v := range stats {
			r.Obs(k, v)
		}
		if i < 2 {
			r.Sample(c)
		}
		if key != "" {
			r.Violation(key, msg, c)
		}
	}
}
