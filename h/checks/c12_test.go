package checks

import (
	"fmt"
	"io"
	"math/rand/v2"
	"net"
	"net/http"
	"strings"
	"sync"
	"testing"
	"time"

	"github.com/zishang520/engine.io/v2/config"
	"github.com/zishang520/engine.io/v2/engine"
	"github.com/zishang520/engine.io/v2/transports"
	"github.com/zishang520/engine.io/v2/types"

	"verifh/fakenet"
	"verifh/refcodec"
	"verifh/rep"
	"verifh/rig"
)

type c12Case struct {
	Mode        string `json:"mode"` // graceful | silent | pending-poll | shutdown | http-shutdown
	Transport   string `json:"transport"`
	Rev         int    `json:"rev"`
	Buffered    int    `json:"buffered_sends"`
	PollPending bool   `json:"poll_pending"`
	GateSend    bool   `json:"hold_writer_goroutine"`
	Cause       string `json:"cause"`
	Sessions    int    `json:"sessions"`
	Upgrading   bool   `json:"upgrade_in_progress"`
	// Stalled (silent mode, WebSocket/WebTransport): the client has stopped reading and its
	// connection is full, so the transport's writer goroutine is blocked in the middle of the batch
	Stalled bool   `json:"client_stopped_reading"`
	Seed    string `json:"seed"`
}

func genC12(rng *rand.Rand) c12Case {
	c := c12Case{Rev: 4, Transport: []string{"polling", "polling", "websocket", "webtransport"}[rng.IntN(4)]}
	if c.Transport != "webtransport" && rng.IntN(4) == 0 {
		c.Rev = 3
	}
	c.Mode = []string{"graceful", "graceful", "silent", "pending-poll", "shutdown", "http-shutdown"}[rng.IntN(6)]
	c.Buffered = rng.IntN(5)
	c.PollPending = rng.IntN(2) == 0
	c.GateSend = rng.IntN(3) == 0
	c.Cause = append(append([]string(nil), closeCauses...), "client-close-packet")[rng.IntN(len(closeCauses)+1)]
	c.Sessions = 1 + rng.IntN(8)
	if rng.IntN(6) == 0 {
		c.Sessions = 9 + rng.IntN(12)
	}
	c.Upgrading = c.Transport == "polling" && rng.IntN(5) == 0
	c.Stalled = c.Mode == "silent" && c.Transport != "polling" && rng.IntN(2) == 0
	return c
}

func runC12(c c12Case, r *rep.Report) (key, msg string, stats map[string]int64) {
	stats = map[string]int64{}
	var pan any
	PI, PT := 25*time.Second, 20*time.Second
	func() {
		defer func() { pan = recover() }()
		rig.Bubble(r.T(), func() {
			so := &config.ServerOptions{}
			so.SetAllowEIO3(true)
			so.SetTransports(types.NewSet("polling", "websocket", "webtransport"))
			so.SetPingInterval(PI)
			so.SetPingTimeout(PT)
			w := rig.NewWorld(rig.Options{Server: so, UseHttpServer: c.Mode == "http-shutdown", AttachOpts: &config.AttachOptions{}})
			defer w.Finish()
			cfg := rig.ClientCfg{Rev: c.Rev, Transport: c.Transport}
			switch c.Mode {
			case "graceful", "silent":
				cl, err := w.Connect(cfg)
				rig.Wait()
				sock := w.Socket(0)
				if err != nil || sock == nil {
					key, msg = "c12-handshake-failed", fmt.Sprint(err)
					return
				}
				sid := sock.Id()
				polling := c.Transport == "polling"
				if polling {
					// take the handshake's follow-up poll so that the buffer state is known
					if c.PollPending {
						cl.StartReader()
						time.Sleep(time.Millisecond)
						rig.Wait()
					}
				} else {
					cl.StartReader()
				}
				if c.Stalled {
					var nc *fakenet.Conn
					if cl.WS != nil {
						nc, _ = cl.WS.UnderlyingConn().(*fakenet.Conn)
					} else if cl.WTStream != nil {
						nc = cl.WTStream.Conn
					}
					if nc != nil {
						nc.LimitReceiveBuffer(1)
						nc.StallReads(true)
						// two frames fill the connection: the writer goroutine blocks inside the second
						sock.Send(types.NewStringBufferString("fill-0"), nil, nil)
						time.Sleep(time.Millisecond)
						sock.Send(types.NewStringBufferString("fill-1"), nil, nil)
						time.Sleep(time.Millisecond)
						rig.Wait()
						stats["stalled_clients_with_a_blocked_writer"]++
					}
				}
				point := map[string]string{"polling": "polling.send.start", "websocket": "ws.send.start", "webtransport": "wt.send.start"}[c.Transport]
				if c.GateSend {
					w.Gate.Arm(point, 1)
				}
				var sent []string
				n := c.Buffered
				if c.GateSend && n == 0 {
					n = 1
				}
				for i := 0; i < n; i++ {
					m := fmt.Sprintf("m%d", i)
					sent = append(sent, m)
					sock.Send(types.NewStringBufferString(m), nil, nil)
				}
				if c.GateSend {
					rig.Wait()
					if len(w.Gate.Parked()) == 1 {
						stats["gate:writer_goroutine_held_with_batch"]++
					}
				}
				t0 := w.Tap.Now()
				sock.Close(false)
				if c.GateSend {
					rig.Wait()
					w.Gate.ReleaseAll()
				}
				if c.Mode == "graceful" {
					if polling && !c.PollPending {
						cl.StartReader()
					}
					time.Sleep(2 * time.Second)
					rig.Wait()
					late := false
					if polling && cl.Ended() == "" {
						late = true
						// The orderly close is handed to the next poll by a test-then-store pair in the
						// transport (DoClose: "not writable" -> remember the close; poll arrival: set
						// writable -> look for a remembered close).  When the poll arrives in between,
						// the close packet leaves only when the close timeout fires.  The statement
						// bounds the time ("within bounded time (the fixed close timeout ...)"), it does
						// not promise the very next poll: wait for the bound, then judge.
						stats["graceful_close_delivered_only_at_close_timeout"]++
						time.Sleep(31 * time.Second)
						rig.Wait()
					}
					// all accepted messages, then the close packet / teardown
					got := cl.Received()
					var msgs []string
					sawClose := false
					for _, rv := range got {
						if rv.P.Type == refcodec.Message {
							if sawClose {
								key, msg = "c12-message-after-close-packet", fmt.Sprintf("message %q arrived after the close packet", rv.P.Data)
								return
							}
							msgs = append(msgs, string(rv.P.Data))
						}
						if rv.P.Type == refcodec.Close {
							sawClose = true
						}
					}
					stats["graceful_closes"]++
					if strings.Join(msgs, ",") != strings.Join(sent, ",") {
						k := "c12-packets-lost-on-graceful-close:" + c.Transport
						key, msg = k, fmt.Sprintf("Close(false) with %v accepted: client received %v before the teardown (client loop: %s)%s", sent, msgs, cl.Ended(), w.Tap.Dump(60))
						return
					}
					if polling && !sawClose && !late {
						key, msg = "c12-no-close-packet", fmt.Sprintf("polling client never received a close packet; loop ended: %q%s", cl.Ended(), w.Tap.Dump(60))
						return
					}
					if late && cl.Ended() == "" {
						// closed by the close timeout: the poll that was pending must have been released
						key, msg = "c12-pending-poll-not-released", fmt.Sprintf("graceful close completed by the close timeout, the client's pending poll is still unanswered%s", w.Tap.Dump(30))
						return
					}
				} else {
					// silent client: nobody reads any more
					if !polling {
						// keep the connection but stop reading: nothing to do, the frames are written
						// into the connection's buffer; the close is immediate
					} else {
						cl.Stop()
					}
					limit := 30 * time.Second
					if PI+PT > limit {
						limit = PI + PT
					}
					limit += PT
					time.Sleep(limit + time.Second)
					rig.Wait()
					stats["silent_closes"]++
					ev := w.Tap.Of(sid, "close")
					if len(ev) == 0 {
						key, msg = "c12-silent-client-never-closed", fmt.Sprintf("Close(false) at %v, client silent: session still %s after %v", t0, sock.ReadyState(), limit+time.Second)
						return
					}
					if ev[0].At-t0 > limit {
						key, msg = "c12-close-too-late", fmt.Sprintf("closed %v after Close(false); bound %v", ev[0].At-t0, limit)
						return
					}
				}
				ev := w.Tap.Of(sid, "close")
				if len(ev) != 1 {
					key, msg = "c12-close-events", fmt.Sprintf("%d close events", len(ev))
					return
				}
				if c.Mode == "graceful" && ev[0].Str != "forced close" {
					key, msg = "c12-close-reason", fmt.Sprintf("graceful close reported %q", ev[0].Str)
					return
				}
				cl.Stop()
			case "pending-poll":
				// whenever a session closes, for any reason, its pending poll is released
				cl, err := w.Connect(rig.ClientCfg{Rev: c.Rev, Transport: "polling", NoAutoPong: true})
				rig.Wait()
				sock := w.Socket(0)
				if err != nil || sock == nil {
					key, msg = "c12-handshake-failed", fmt.Sprint(err)
					return
				}
				x := cl.PollStart()
				time.Sleep(time.Millisecond)
				rig.Wait()
				if x.Done() {
					x = cl.PollStart()
					time.Sleep(time.Millisecond)
					rig.Wait()
				}
				cause := c.Cause
				if cause == "peer-disconnect" || cause == "transport-error" {
					cause = "close-true" // these remove or duplicate the poll itself
				}
				if cause == "parse-error" {
					cause = "close-false" // an undecodable polling payload does not close the session
				}
				if cause == "client-close-packet" {
					cl.Post(refcodec.Packet{Type: refcodec.Close})
				} else if cause == "ping-timeout" {
					// the ping itself answers the pending poll; a conformant client polls again
					time.Sleep(PI + time.Millisecond)
					rig.Wait()
					if x.Done() {
						x = cl.PollStart()
					}
					time.Sleep(PT + time.Second)
				} else {
					go fireCause(cause, w, cl, sock)
				}
				time.Sleep(time.Second)
				rig.Wait()
				stats["pending_poll_closes"]++
				if !x.Done() {
					key, msg = "c12-pending-poll-not-released:"+cause, fmt.Sprintf("session closed by %s (%s) but its pending poll is still unanswered", cause, sock.ReadyState())
					return
				}
				res := x.Res
				ps, derr := cl.DecodePoll(res)
				ok := false
				for _, p := range ps {
					if p.Type == refcodec.Close || p.Type == refcodec.Noop {
						ok = true
					}
				}
				if res.Err != nil || res.Status != 200 || derr != nil || !ok {
					key, msg = "c12-pending-poll-not-released:"+cause, fmt.Sprintf("session closed by %s; pending poll answered status %d err %v packets %v", cause, res.Status, res.Err, ps)
					return
				}
			case "shutdown", "http-shutdown":
				var cls []*rig.Client
				trs := []string{"polling", "websocket", "webtransport"}
				for i := 0; i < c.Sessions; i++ {
					cl, err := w.Connect(rig.ClientCfg{Rev: 4, Transport: trs[(i+c.Buffered)%3]})
					if err != nil {
						key, msg = "c12-handshake-failed", err.Error()
						return
					}
					cl.StartReader()
					cls = append(cls, cl)
				}
				rig.Wait()
				if c.Upgrading && cls[0].Cfg.Transport == "polling" {
					cls[0].Cfg.ProbeAtOnce = false
					go cls[0].UpgradeTo("websocket", func() { time.Sleep(time.Hour) })
					time.Sleep(5 * time.Millisecond)
					rig.Wait()
				}
				for i, sid := range w.SocketIDs() {
					for k := 0; k < (i+c.Buffered)%3; k++ {
						w.SocketByID(sid).Send(types.NewStringBufferString("x"), nil, nil)
					}
				}
				// some sessions are already closing gracefully (buffered data, client not polling)
				nClosing := 0
				for i, cl := range cls {
					if cl.Cfg.Transport == "polling" && (i+c.Buffered)%2 == 0 {
						cl.Pause()
						s := w.SocketByID(cl.Sid)
						s.Send(types.NewStringBufferString("pending"), nil, nil)
						s.Close(false)
						nClosing++
					}
				}
				rig.Wait()
				stats["sessions_closing_at_shutdown"] += int64(nClosing)
				if c.Mode == "http-shutdown" {
					go w.Mux.Close(nil)
				} else {
					w.Eng.Close()
				}
				time.Sleep(time.Second)
				rig.Wait()
				stats["shutdowns"]++
				stats["sessions_at_shutdown"] += int64(c.Sessions)
				for _, sid := range w.SocketIDs() {
					ev := w.Tap.Of(sid, "close")
					if len(ev) != 1 {
						key, msg = "c12-shutdown-close-events", fmt.Sprintf("session %s has %d close events after shutdown (state %s)", sid, len(ev), w.SocketByID(sid).ReadyState())
						return
					}
				}
				if n := w.Eng.Clients().Len(); n != 0 || w.Eng.ClientsCount() != 0 {
					key, msg = "c12-table-not-empty-after-shutdown", fmt.Sprintf("table %d count %d", n, w.Eng.ClientsCount())
					return
				}
				for _, cl := range cls {
					cl.Stop()
				}
			}
		})
	}()
	if pan != nil {
		return "c12-panic", fmt.Sprint(pan), stats
	}
	return
}

// runC12CloseVsDrain places the drain of the last buffered batch between Close(false)'s test of
// the write buffer and its subscription to the drain event (hook socket.Close.beforeDrainWait).
func runC12CloseVsDrain(transport string, r *rep.Report) (key, msg string, held bool) {
	rig.Bubble(r.T(), func() {
		so := &config.ServerOptions{}
		so.SetTransports(types.NewSet("polling", "websocket", "webtransport"))
		so.SetPingInterval(25 * time.Second)
		so.SetPingTimeout(20 * time.Second)
		w := rig.NewWorld(rig.Options{Server: so})
		defer w.Finish()
		cl, err := w.Connect(rig.ClientCfg{Rev: 4, Transport: transport})
		rig.Wait()
		sock := w.Socket(0)
		if err != nil || sock == nil {
			key, msg = "c12-handshake-failed", fmt.Sprint(err)
			return
		}
		sid := sock.Id()
		point := map[string]string{"websocket": "ws.send.start", "webtransport": "wt.send.start"}[transport]
		if transport != "polling" {
			cl.StartReader()
			// the writer goroutine of m0 is held: the transport stays unwritable, m1 stays buffered
			w.Gate.Arm(point, 1)
		}
		sock.Send(types.NewStringBufferString("m0"), nil, nil)
		sock.Send(types.NewStringBufferString("m1"), nil, nil)
		rig.Wait()
		w.Gate.Arm("socket.Close.beforeDrainWait", 1)
		go sock.Close(false)
		rig.Wait()
		var closer *rig.Parked
		for _, p := range w.Gate.Parked() {
			if p.Point == "socket.Close.beforeDrainWait" {
				closer = p
			}
		}
		if closer == nil {
			r.Inconclusive("Close(false) did not reach the hook socket.Close.beforeDrainWait with packets buffered")
			w.Gate.ReleaseAll()
			return
		}
		held = true
		// now everything buffered goes out and drains
		if transport == "polling" {
			cl.StartReader()
		} else {
			for _, p := range w.Gate.Parked() {
				if p.Point == point {
					p.Release()
				}
			}
		}
		time.Sleep(10 * time.Millisecond)
		rig.Wait()
		if n := len(cl.Messages()); n != 2 {
			r.Inconclusive(fmt.Sprintf("close-vs-drain: expected both messages on the wire before Close continues, client has %d", n))
		}
		t0 := w.Tap.Now()
		closer.Release()
		time.Sleep(2 * time.Second)
		rig.Wait()
		bound := time.Second
		if transport == "polling" && len(w.Tap.Of(sid, "close")) == 0 {
			// polling hands the orderly close to the next poll through a test-then-store pair; when
			// the poll arrives in between, the close leaves with the close timeout (the stated bound)
			time.Sleep(31 * time.Second)
			rig.Wait()
			bound = 34 * time.Second
		}
		ev := w.Tap.Of(sid, "close")
		if len(ev) == 0 {
			key, msg = "c12-graceful-close-stalled", fmt.Sprintf("%s: Close(false) saw 2 buffered packets, they drained before it subscribed to 'drain': 2 s later the session is still %s (it will only end with the heartbeat)", transport, sock.ReadyState())
			return
		}
		if len(ev) != 1 || ev[0].Str != "forced close" || ev[0].At-t0 > bound {
			key, msg = "c12-close-reason", fmt.Sprintf("%s: close events %v", transport, ev)
			return
		}
		var got []string
		for _, m := range cl.Messages() {
			got = append(got, string(m.P.Data))
		}
		if strings.Join(got, ",") != "m0,m1" {
			key, msg = "c12-packets-lost-on-graceful-close:"+transport, fmt.Sprintf("client received %v", got)
		}
		cl.Stop()
	})
	return
}

// runC12CloseVsFlush holds a flush after it has taken its batch from the write buffer and before
// it hands it to the transport (hook socket.doFlush.batchTaken); Close(false) runs meanwhile.
func runC12CloseVsFlush(transport string, r *rep.Report) (key, msg string, held bool) {
	rig.Bubble(r.T(), func() {
		so := &config.ServerOptions{}
		so.SetTransports(types.NewSet("polling", "websocket", "webtransport"))
		so.SetPingInterval(25 * time.Second)
		so.SetPingTimeout(20 * time.Second)
		w := rig.NewWorld(rig.Options{Server: so})
		defer w.Finish()
		cl, err := w.Connect(rig.ClientCfg{Rev: 4, Transport: transport})
		rig.Wait()
		sock := w.Socket(0)
		if err != nil || sock == nil {
			key, msg = "c12-handshake-failed", fmt.Sprint(err)
			return
		}
		sid := sock.Id()
		cl.StartReader()
		time.Sleep(time.Millisecond)
		rig.Wait()
		w.Gate.Arm("socket.doFlush.batchTaken", 1)
		go sock.Send(types.NewStringBufferString("m0"), nil, nil)
		rig.Settle()
		if len(w.Gate.Parked()) != 1 {
			r.Inconclusive("close-vs-flush: the flush was not held with its batch")
			w.Gate.ReleaseAll()
			return
		}
		held = true
		// the held goroutine owns the session's flush lock: settle on real time
		closed := make(chan struct{})
		go func() { sock.Close(false); close(closed) }()
		rig.Settle()
		rig.Settle()
		w.Gate.ReleaseAll()
		<-closed
		time.Sleep(2 * time.Second)
		rig.Wait()
		late := false
		if transport == "polling" && cl.Ended() == "" {
			// (see the graceful lane: the close packet may have to wait for the close timeout)
			late = true
			time.Sleep(31 * time.Second)
			rig.Wait()
		}
		var got []string
		sawClose := false
		for _, rv := range cl.Received() {
			if rv.P.Type == refcodec.Message {
				if sawClose {
					key, msg = "c12-message-after-close-packet", fmt.Sprintf("message %q arrived after the close packet", rv.P.Data)
					return
				}
				got = append(got, string(rv.P.Data))
			}
			if rv.P.Type == refcodec.Close {
				sawClose = true
			}
		}
		if strings.Join(got, ",") != "m0" {
			key, msg = "c12-packets-lost-on-graceful-close:"+transport, fmt.Sprintf("Close(false) while a flush holds the batch [m0] between the write buffer and the transport: the client received %v before the teardown (client loop: %s)%s", got, cl.Ended(), w.Tap.Dump(40))
			return
		}
		if transport == "polling" && !sawClose && (!late || cl.Ended() == "") {
			key, msg = "c12-no-close-packet", fmt.Sprintf("Close(false) while a flush holds the batch [m0]: the polling client received m0 but never a close packet, also not by the close timeout (client loop: %q)", cl.Ended())
			return
		}
		ev := w.Tap.Of(sid, "close")
		if len(ev) != 1 || ev[0].Str != "forced close" {
			key, msg = "c12-close-reason", fmt.Sprintf("%s: close events %v", transport, ev)
		}
		cl.Stop()
	})
	return
}

// runC12CloseDuringUpgrade: Close(false) with a packet buffered on a polling session whose client
// has stopped polling because an upgrade is in progress (probe answered); the client then sends the
// upgrade packet.  The buffered packet must reach the client - over the new transport - before the
// teardown, and the session must close with 'forced close'.
func runC12CloseDuringUpgrade(target string, nBuf int, r *rep.Report) (key, msg string) {
	rig.Bubble(r.T(), func() {
		so := &config.ServerOptions{}
		so.SetTransports(types.NewSet("polling", "websocket", "webtransport"))
		so.SetPingInterval(25 * time.Second)
		so.SetPingTimeout(20 * time.Second)
		w := rig.NewWorld(rig.Options{Server: so})
		defer w.Finish()
		cl, err := w.Connect(rig.ClientCfg{Rev: 4, Transport: "polling"})
		rig.Wait()
		sock := w.Socket(0)
		if err != nil || sock == nil {
			key, msg = "c12-handshake-failed", fmt.Sprint(err)
			return
		}
		sid := sock.Id()
		// the client is not polling (a conformant client pauses polling once the probe succeeded)
		cand := w.Candidate(sid, 4)
		var write func(bool, []byte) error
		var read func() (refcodec.Packet, error)
		if target == "websocket" {
			if e := cand.DialCandidateWS(); e != nil {
				key, msg = "c12-handshake-failed", e.Error()
				return
			}
			write = cand.WSWriteRaw
			read = func() (refcodec.Packet, error) {
				mt, d, e := cand.WS.ReadMessage()
				if e != nil {
					return refcodec.Packet{}, e
				}
				return refcodec.DecodeFrame(4, mt == 2, d)
			}
		} else {
			if e := cand.OpenCandidateWT(); e != nil {
				key, msg = "c12-handshake-failed", e.Error()
				return
			}
			write = cand.WTWriteRaw
			read = func() (refcodec.Packet, error) {
				mt, d, e := cand.WT.ReadMessage()
				if e != nil {
					return refcodec.Packet{}, e
				}
				return refcodec.DecodeFrame(4, mt == 2, d)
			}
		}
		time.Sleep(time.Millisecond)
		write(false, []byte("2probe"))
		p, e := read()
		if e != nil || p.Type != refcodec.Pong {
			r.Inconclusive(fmt.Sprintf("close-during-upgrade: no probe pong (%v %v)", p, e))
			return
		}
		var sent []string
		for i := 0; i < nBuf; i++ {
			m := fmt.Sprintf("m%d", i)
			sent = append(sent, m)
			sock.Send(types.NewStringBufferString(m), nil, nil)
		}
		sock.Close(false)
		rig.Wait()
		if sock.ReadyState() != "closing" {
			r.Inconclusive("close-during-upgrade: session is " + sock.ReadyState() + " after Close(false) with buffered packets and no poll")
			return
		}
		write(false, []byte("5"))
		var got []string
		done := make(chan struct{})
		go func() {
			defer close(done)
			for {
				p, e := read()
				if e != nil || p.Type == refcodec.Close {
					return
				}
				if p.Type == refcodec.Message {
					got = append(got, string(p.Data))
				}
			}
		}()
		time.Sleep(2 * time.Second)
		rig.Wait()
		select {
		case <-done:
		default:
			key, msg = "c12-silent-client-never-closed", fmt.Sprintf("Close(false) with %d buffered packets, then the upgrade to %s completes: two seconds later the new transport is still open (session %s)", nBuf, target, sock.ReadyState())
			return
		}
		if strings.Join(got, ",") != strings.Join(sent, ",") {
			key, msg = "c12-packets-lost-on-graceful-close:upgrade-"+target, fmt.Sprintf("Close(false) with %v buffered while an upgrade to %s is in progress; the client completed the upgrade and received %v before the teardown (session %s, close events %v)", sent, target, got, sock.ReadyState(), w.Tap.Of(sid, "close"))
			return
		}
		ev := w.Tap.Of(sid, "close")
		if len(ev) != 1 || ev[0].Str != "forced close" {
			key, msg = "c12-close-reason", fmt.Sprintf("graceful close during an upgrade to %s: close events %v", target, ev)
		}
		cl.Stop()
	})
	return
}

// runC12ListeningHttpServer: the engine is attached to a types.HttpServer that listens itself
// (HttpServer.Listen, real TCP on loopback, real time); N polling sessions have their poll
// outstanding when HttpServer.Close is called.  Every pending poll must be released with a close
// or noop packet, every session closes exactly once, the table ends empty.
func runC12ListeningHttpServer(n int, r *rep.Report) (key, msg string, ok bool) {
	l, err := net.Listen("tcp", "127.0.0.1:0")
	if err != nil {
		return "", "loopback TCP unavailable: " + err.Error(), false
	}
	addr := l.Addr().String()
	l.Close()
	hs := types.NewWebServer(nil)
	so := &config.ServerOptions{}
	so.SetPingInterval(time.Hour)
	eng := engine.NewServer(so)
	eng.Attach(hs, nil)
	var mu sync.Mutex
	closes := map[string][]string{}
	eng.On("connection", func(a ...any) {
		s := a[0].(engine.Socket)
		s.On("close", func(b ...any) {
			mu.Lock()
			closes[s.Id()] = append(closes[s.Id()], fmt.Sprint(b[0]))
			mu.Unlock()
		})
	})
	hs.Listen(addr, nil)
	base := "http://" + addr + "/engine.io/?EIO=4&transport=polling"
	hc := &http.Client{Transport: &http.Transport{MaxIdleConnsPerHost: 64}, Timeout: 20 * time.Second}
	defer hc.CloseIdleConnections()
	var sids []string
	for i := 0; i < n; i++ {
		var body []byte
		for try := 0; try < 100; try++ {
			resp, err := hc.Get(base)
			if err != nil {
				time.Sleep(5 * time.Millisecond) // the listener is coming up
				continue
			}
			body, _ = io.ReadAll(resp.Body)
			resp.Body.Close()
			break
		}
		k := strings.Index(string(body), `"sid":"`)
		if k < 0 {
			hs.Close(nil)
			return "", fmt.Sprintf("handshake over loopback TCP failed (%q)", body), false
		}
		sid := string(body)[k+7:]
		sids = append(sids, sid[:strings.Index(sid, `"`)])
	}
	type pr struct {
		body string
		code int
		err  error
	}
	res := make(chan pr, n)
	for _, sid := range sids {
		go func(sid string) {
			resp, err := hc.Get(base + "&sid=" + sid)
			if err != nil {
				res <- pr{err: err}
				return
			}
			b, err := io.ReadAll(resp.Body)
			resp.Body.Close()
			res <- pr{body: string(b), code: resp.StatusCode, err: err}
		}(sid)
	}
	// all polls pending: the server has a request per session
	pending := 0
	for try := 0; try < 2000 && pending != n; try++ {
		pending = 0
		for _, sid := range sids {
			if s, ok := eng.Clients().Load(sid); ok && s.Transport().Writable() {
				pending++
			}
		}
		if pending != n {
			time.Sleep(5 * time.Millisecond)
		}
	}
	if pending != n {
		hs.Close(nil)
		return "", fmt.Sprintf("only %d of %d polls reached the server within 10 s", pending, n), false
	}
	done := make(chan struct{})
	go func() { hs.Close(nil); close(done) }()
	bad := ""
	for i := 0; i < n; i++ {
		select {
		case p := <-res:
			if p.err != nil || p.code != 200 || (p.body != "1" && p.body != "6") {
				bad = fmt.Sprintf("status %d body %q err %v", p.code, p.body, p.err)
			}
		case <-time.After(15 * time.Second):
			return "", "a pending poll neither completed nor failed within 15 s of HttpServer.Close", false
		}
	}
	select {
	case <-done:
	case <-time.After(15 * time.Second):
		return "", "HttpServer.Close did not return within 15 s", false
	}
	if bad != "" {
		return "c12-pending-poll-not-released", fmt.Sprintf("HttpServer.Close with %d polling sessions whose poll was outstanding (server listening itself on loopback TCP): a pending poll was not released with a close or noop packet: %s", n, bad), true
	}
	time.Sleep(20 * time.Millisecond)
	mu.Lock()
	defer mu.Unlock()
	for _, sid := range sids {
		if len(closes[sid]) != 1 {
			return "c12-shutdown-close-events", fmt.Sprintf("HttpServer.Close: session %s has close events %v", sid, closes[sid]), true
		}
	}
	if eng.Clients().Len() != 0 || eng.ClientsCount() != 0 {
		return "c12-shutdown-table-not-empty", fmt.Sprintf("after HttpServer.Close the table has %d entries, count %d", eng.Clients().Len(), eng.ClientsCount()), true
	}
	return "", "", true
}

func TestC12(t *testing.T) {
	r := rep.New(t, "C12")
	defer r.Flush()
	if r.Lane == 1%r.Lanes {
		// peers that have stopped reading, then the session ends (real time, judged at rest)
		stalledEndings(r, r.N(4, 64))
	}
	// journalled cases that have not ended after a minute of real time are examined (rep.Guard)
	r.Guard(60 * time.Second)
	if r.Lane == 3%r.Lanes {
		// the engine behind a types.HttpServer listening itself: HTTP/1.1, HTTP/2 (TLS) and HTTP/3 (QUIC) on loopback
		netLanes(r, r.N(4, 64))
	}
	if r.Lane == 2%r.Lanes {
		for k := 0; k < r.N(8, 160); k++ {
			for _, tr := range []string{"polling", "websocket"} {
				discard := k%2 == 1
				key, msg, decided := runC12CloseFromCallback(tr, discard)
				r.Case(fmt.Sprintf("close-from-send-callback/%s/%v", tr, discard), decided)
				if decided {
					r.Obs("closes_from_a_send_callback_real_time", 1)
				} else {
					r.Obs("closes_from_a_send_callback_undecided", 1)
				}
				if key != "" {
					r.Violation(key, msg, map[string]any{"lane": "send callback closes the session (real time)", "transport": tr, "discard": discard})
				}
			}
		}
	}
	r.Rule("PRNG cases: graceful Close(false) with 0-4 accepted-but-unsent packets on polling (poll pending or absent), WebSocket and WebTransport, optionally with the transport's writer goroutine held at *.send.start while Close runs; silent client (bounded close time on virtual time); a pending poll while the session closes by each cause (incl. the client's own close packet); a send callback that closes its own session (real time, standstill proof rule); Server.Close and HttpServer.Close with 1-20 mixed sessions (also with the HttpServer listening itself on loopback TCP and every session's poll outstanding), buffered packets, sessions already waiting in a graceful close, and an upgrade in progress; oracle: all accepted messages before the close packet/teardown, reason 'forced close', close within max(30 s, PI+PT)+PT, pending poll answered 200 with close/noop, exactly one close event per session and an empty table after shutdown; distinct = case signature")
	if r.Lane == 1%r.Lanes {
		quicClose(r, 12, r.N(8, 320), true)
	}
	if r.Lane == 2%r.Lanes {
		for k := 0; k < r.N(12, 240); k++ {
			n := []int{1, 4, 12}[k%3]
			key, msg, ok := runC12ListeningHttpServer(n, r)
			if !ok {
				r.Obs("listening_http_server_rounds_skipped", 1)
				r.Assume("listening-HttpServer lane skipped or cut short: " + msg)
				continue
			}
			r.Case(fmt.Sprintf("listening-http-server-close/%d", n), true)
			r.Obs("http_server_close_with_pending_polls_over_tcp", 1)
			if key != "" {
				r.Violation(key, msg, map[string]any{"lane": "HttpServer.Listen on loopback TCP, polls outstanding, HttpServer.Close", "sessions": n})
			}
		}
	}
	if r.Lane == 3%r.Lanes {
		for k := 0; k < r.N(8, 400); k++ {
			for _, target := range []string{"websocket", "webtransport"} {
				nb := 1 + k%3
				key, msg := runC12CloseDuringUpgrade(target, nb, r)
				r.Case(fmt.Sprintf("close-during-upgrade/%s/%d", target, nb), true)
				r.Obs("graceful_closes_during_upgrade", 1)
				if key != "" {
					r.Violation(key, msg, map[string]any{"lane": "close-during-upgrade", "target": target, "buffered": nb})
				}
			}
		}
	}
	if r.Lane == 2%r.Lanes {
		for k := 0; k < r.N(8, 400); k++ {
			for _, tr := range []string{"polling", "websocket", "webtransport"} {
				k2, m2, h2 := runC12CloseVsFlush(tr, r)
				r.Case("close-vs-flush/"+tr, true)
				if h2 {
					r.Obs("gate:flush_held_with_batch_while_close_runs", 1)
				}
				if k2 != "" {
					r.Violation(k2, m2, map[string]string{"lane": "close-vs-flush", "transport": tr})
				}
				key, msg, held := runC12CloseVsDrain(tr, r)
				r.Case("close-vs-drain/"+tr, true)
				if held {
					r.Obs("gate:close_held_between_buffer_test_and_drain_subscription", 1)
				}
				if key != "" {
					r.Violation(key, msg, map[string]string{"lane": "close-vs-drain", "transport": tr})
				}
			}
		}
	}
	n := r.N(3000, 250000)
	for i := 0; i < n; i++ {
		if !r.Only(i) {
			continue
		}
		rng := r.CaseRand(12, i)
		c := genC12(rng)
		c.Seed = fmt.Sprintf("seed=%d lane=%d case=%d", r.Seed, r.Lane, i)
		r.Begin(fmt.Sprint(i), c)
		key, msg, stats := runC12(c, r)
		r.End(fmt.Sprint(i))
		sig := fmt.Sprintf("%s/%s/v%d/%d/%v/%v", c.Mode, c.Transport, c.Rev, c.Buffered, c.PollPending, c.GateSend)
		if c.Mode == "pending-poll" {
			sig += "/" + c.Cause
		}
		if strings.HasSuffix(c.Mode, "shutdown") {
			sig += fmt.Sprintf("/%d/%v", c.Sessions, c.Upgrading)
		}
		r.Case(sig, true)
		for k, v := range stats {
			r.Obs(k, v)
		}
		if i < 2 {
			r.Sample(c)
		}
		if key != "" {
			r.Violation(key, msg, c)
		}
	}
}

// runC12CloseFromCallback: 'send the last message, close once it is out' - a send callback that
// calls Close(false) - on REAL time (the callback runs on the transport's writer goroutine; a close
// that waits there for something the writer holds cannot be judged on virtual time, where it
// freezes the clock).  The message must reach the client before the close packet or teardown, and
// the session must close exactly once with 'forced close'.  A session still not closed 5 s later
// is judged by the standstill rule (rig.Standstill: the callback's goroutine blocked at the very
// same place inside the library 35 s on, process idle), otherwise undecided.
func runC12CloseFromCallback(transport string, discard bool) (key, msg string, decided bool) {
	so := &config.ServerOptions{}
	so.SetPingInterval(time.Hour)
	so.SetPingTimeout(time.Hour)
	w := rig.NewWorld(rig.Options{Server: so})
	defer w.FinishReal()
	cl, err := w.Connect(rig.ClientCfg{Rev: 4, Transport: transport})
	if err != nil {
		return "", "handshake failed: " + err.Error(), false
	}
	var sock engine.Socket
	for try := 0; try < 3000 && sock == nil; try++ {
		sock = w.Socket(0)
		time.Sleep(time.Millisecond)
	}
	if sock == nil {
		return "", "no connection event", false
	}
	cl.StartReader()
	time.Sleep(20 * time.Millisecond) // the poll is pending / the reader is up
	sock.Send(types.NewStringBufferString("last-words"), nil, func(transports.Transport) {
		sock.Close(discard)
	})
	closed := func() []rig.Event { return w.Tap.Of(sock.Id(), "close") }
	for try := 0; try < 2500 && len(closed()) == 0; try++ {
		time.Sleep(2 * time.Millisecond)
	}
	if len(closed()) == 0 {
		st := rig.Standstill("runC12CloseFromCallback.func1", 35*time.Second)
		cl.Stop()
		if st != "" && len(closed()) == 0 {
			return "c12-close-from-send-callback-stuck", fmt.Sprintf("%s session: Send(last-words, callback: Close(%v)): 40 s later the session has not closed (state %s) and the callback's goroutine is blocked at the very same place inside the library while the process sits idle: %s", transport, discard, sock.ReadyState(), st), true
		}
		return "", "the session did not close within 5 s and no standstill could be proved (" + rig.StandstillWhyNot + ")", false
	}
	time.Sleep(30 * time.Millisecond)
	cl.Stop()
	evs := closed()
	if len(evs) != 1 || evs[0].Str != "forced close" {
		var rs []string
		for _, e := range evs {
			rs = append(rs, e.Str)
		}
		return "c12-close-reason", fmt.Sprintf("%s session closed from a send callback (Close(%v)): close events %v, want exactly one 'forced close'", transport, discard, rs), true
	}
	got := false
	for _, m := range cl.Messages() {
		if string(m.P.Data) == "last-words" {
			got = true
		}
	}
	if !got {
		return "c12-packets-lost-on-graceful-close:" + transport, fmt.Sprintf("%s session: the message whose send callback closed the session (Close(%v)) never reached the client", transport, discard), true
	}
	return "", "", true
}
