package checks

// Sessions whose peer has stopped reading (the transport's writer goroutine is blocked on a full
// connection, holding whatever locks a writer holds) and that then end for some cause - on REAL
// time.  A teardown that waits for something the blocked writer holds cannot be judged on virtual
// time (a goroutine waiting for a mutex freezes the synctest clock); here it shows as what it is:
// a session that reports the state closed and whose close was never announced / which is still
// registered.  One scenario serves C03, C04, C07 and C12; each check judges its own clauses.
// No verdict depends on how long anything took: the lane waits (bounded; undecided on expiry) for
// the session to report the state closed, lets the process come to rest, and evaluates.

import (
	"fmt"
	"strings"
	"time"

	"github.com/zishang520/engine.io/v2/config"
	"github.com/zishang520/engine.io/v2/engine"
	"github.com/zishang520/engine.io/v2/types"

	"verifh/fakenet"
	"verifh/rep"
	"verifh/rig"
)

type stalledRes struct {
	decided     bool
	why         string // when undecided
	blocked     bool   // the writer was really blocked when the cause fired
	closeEvents []string
	inTable     bool
	tableLen    int
	count       uint64
	state       string
}

func runStalledEnding(transport, cause string, rev int) (res stalledRes) {
	so := &config.ServerOptions{}
	so.SetAllowEIO3(true)
	so.SetTransports(types.NewSet("polling", "websocket", "webtransport"))
	if cause == "ping-timeout" {
		so.SetPingInterval(120 * time.Millisecond)
		so.SetPingTimeout(80 * time.Millisecond)
	} else {
		so.SetPingInterval(time.Hour)
		so.SetPingTimeout(time.Hour)
	}
	w := rig.NewWorld(rig.Options{Server: so})
	defer w.FinishReal()
	cl, err := w.Connect(rig.ClientCfg{Rev: rev, Transport: transport, NoAutoPong: true})
	if err != nil {
		res.why = "handshake failed: " + err.Error()
		return
	}
	var sock engine.Socket
	for try := 0; try < 3000 && sock == nil; try++ {
		sock = w.Socket(0)
		time.Sleep(time.Millisecond)
	}
	if sock == nil {
		res.why = "no connection event"
		return
	}
	sid := sock.Id()
	var nc *fakenet.Conn
	switch transport {
	case "websocket":
		if cl.WS != nil {
			nc, _ = cl.WS.UnderlyingConn().(*fakenet.Conn)
		}
	case "webtransport":
		if cl.WTStream != nil {
			nc = cl.WTStream.Conn
		}
	case "polling":
		// the poll whose response will not be read
		x := cl.PollStart()
		nc = x.Conn
		for try := 0; try < 2000 && !sock.Transport().Writable(); try++ {
			time.Sleep(time.Millisecond)
		}
	}
	if nc == nil {
		res.why = "no in-memory connection to stall"
		return
	}
	nc.LimitReceiveBuffer(1)
	nc.StallReads(true)
	big := strings.Repeat("x", 300000)
	for i := 0; i < 3; i++ {
		sock.Send(types.NewStringBufferString(big), nil, nil)
	}
	time.Sleep(20 * time.Millisecond)
	// the writer is blocked when bytes are waiting in the full connection and the transport is busy
	res.blocked = nc.Unread() > 0 && !sock.Transport().Writable()
	switch cause {
	case "close-true":
		go sock.Close(true)
	case "server-close":
		go w.Eng.Close()
	case "transport-error":
		if transport == "websocket" && cl.WS != nil {
			cl.WS.UnderlyingConn().Write([]byte{0xff, 0xff, 0xff, 0xff})
		} else if transport == "webtransport" {
			cl.WTStream.Conn.Write([]byte{0x7f, 0xff, 0xff, 0xff, 0xff, 0xff, 0xff, 0xff, 0xff})
		} else {
			go sock.Close(true)
		}
	}
	closed := false
	for try := 0; try < 4000 && !closed; try++ {
		closed = sock.ReadyState() == "closed"
		if !closed {
			time.Sleep(5 * time.Millisecond)
		}
	}
	res.state = sock.ReadyState()
	if !closed {
		res.why = "the session did not report the state closed within 20 s (state " + res.state + ")"
		return
	}
	if !rig.AtRest(20 * time.Second) {
		res.why = "the process did not come to rest within 20 s"
		return
	}
	res.decided = true
	for _, e := range w.Tap.Of(sid, "close") {
		res.closeEvents = append(res.closeEvents, e.Str)
	}
	_, res.inTable = w.Eng.Clients().Load(sid)
	res.tableLen = w.Eng.Clients().Len()
	res.count = w.Eng.ClientsCount()
	nc.StallReads(false)
	nc.LimitReceiveBuffer(0)
	return
}

// stalledEndings runs the scenario matrix and reports what the calling check's property demands.
func stalledEndings(r *rep.Report, k int) {
	for i := 0; i < k; i++ {
		for _, tr := range []string{"websocket", "webtransport", "polling"} {
			for _, cause := range []string{"ping-timeout", "close-true", "server-close", "transport-error"} {
				if tr == "polling" && cause == "transport-error" {
					continue
				}
				rev := 4
				if tr != "webtransport" && (i+len(cause))%3 == 0 {
					rev = 3
				}
				res := runStalledEnding(tr, cause, rev)
				r.Case(fmt.Sprintf("stalled-ending/%s/%s/v%d", tr, cause, rev), res.decided && res.blocked)
				if !res.decided {
					r.Obs("stalled_endings_undecided", 1)
					continue
				}
				r.Obs("stalled_endings_judged", 1)
				if res.blocked {
					r.Obs("stalled_endings_with_the_writer_blocked", 1)
				}
				desc := map[string]any{"lane": "peer stopped reading (server writer blocked on a full connection), then the session ends; real time, judged at rest", "transport": tr, "cause": cause, "rev": rev, "writer_blocked": res.blocked}
				what := fmt.Sprintf("%s session (v%d) whose peer has stopped reading (writer blocked on a full connection: %v), cause %s: the session reports the state closed and the process has come to rest", tr, rev, res.blocked, cause)
				switch r.Property {
				case "C03":
					if len(res.closeEvents) != 1 {
						r.Violation("c03-close-events-stalled-peer", fmt.Sprintf("%s; close events %v, want exactly one", what, res.closeEvents), desc)
					}
				case "C04":
					if res.inTable || res.tableLen != 0 || res.count != 0 {
						r.Violation("c04-closed-session-registered", fmt.Sprintf("%s; still in the client table: %v (table %d entries, count %d)", what, res.inTable, res.tableLen, res.count), desc)
					}
				case "C07":
					if cause == "ping-timeout" && (len(res.closeEvents) != 1 || res.closeEvents[0] != "ping timeout") {
						r.Violation("c07-no-timeout-at-deadline", fmt.Sprintf("%s; close events %v, want one 'ping timeout'", what, res.closeEvents), desc)
					}
				case "C12":
					if cause == "server-close" && (len(res.closeEvents) != 1 || res.inTable) {
						r.Violation("c12-shutdown-close-events", fmt.Sprintf("%s; close events %v, still registered %v", what, res.closeEvents, res.inTable), desc)
					}
				}
			}
		}
	}
}
