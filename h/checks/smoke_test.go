package checks

import (
	"strings"
	"testing"
	"time"

	"github.com/zishang520/engine.io/v2/config"
	"github.com/zishang520/engine.io/v2/engine"
	"github.com/zishang520/engine.io/v2/types"

	"verifh/refcodec"
	"verifh/rig"
)

func TestSmoke(t *testing.T) {
	for _, tr := range []string{"polling", "websocket", "webtransport"} {
		rig.Bubble(t, func() {
			so := &config.ServerOptions{}
			so.SetPingInterval(300 * time.Millisecond)
			so.SetPingTimeout(200 * time.Millisecond)
			so.SetAllowEIO3(true)
			so.SetTransports(types.NewSet("polling", "websocket", "webtransport"))
			w := rig.NewWorld(rig.Options{Server: so, OnConnection: func(s engine.Socket) {
				s.Send(strings.NewReader("hello"), nil, nil)
				s.On("message", func(a ...any) {
					s.Send(types.NewBytesBuffer([]byte{1, 2, 3}), nil, nil)
				})
			}})
			c, err := w.Connect(rig.ClientCfg{Rev: 4, Transport: tr})
			if err != nil {
				t.Fatalf("%s connect: %v", tr, err)
			}
			c.StartReader()
			rig.Wait()
			if err := c.Send(refcodec.Text(refcodec.Message, "hi")); err != nil {
				t.Fatalf("%s send: %v", tr, err)
			}
			time.Sleep(700 * time.Millisecond)
			rig.Wait()
			if tr == "polling" {
				if err := c.UpgradeTo("websocket", nil); err != nil {
					t.Errorf("upgrade: %v", err)
				}
				rig.Wait()
				c.Send(refcodec.Text(refcodec.Message, "after upgrade"))
				time.Sleep(50 * time.Millisecond)
				rig.Wait()
			}
			for _, r := range c.Received() {
				t.Logf("%s recv %v at %v via %s", tr, r.P, r.At, r.Carrier)
			}
			s := w.Socket(0)
			t.Logf("%s state=%s transport=%s ended=%q errs=%v", tr, s.ReadyState(), s.Transport().Name(), c.Ended(), c.Errors())
			c.Stop()
			time.Sleep(2 * time.Second)
			rig.Wait()
			t.Logf("%s after stop: state=%s clients=%d", tr, s.ReadyState(), w.Eng.ClientsCount())
			for _, e := range w.Tap.Of(s.Id(), "close", "state") {
				t.Logf("   %v", e)
			}
			w.Shutdown()
			time.Sleep(40 * time.Second)
			rig.Wait()
			for _, l := range rig.Leftovers() {
				t.Logf("LEFTOVER %s", rig.TopFrames(l, 4))
			}
			if s := w.ErrorLog(); s != "" {
				t.Logf("errlog: %s", s)
			}
		})
	}
}
