package checks

import (
	"bytes"
	"errors"
	"fmt"
	"github.com/zishang520/engine.io-go-parser/packet"
	"github.com/zishang520/engine.io/v2/config"
	"github.com/zishang520/engine.io/v2/types"
	"io"
	"math/rand/v2"
	"reflect"
	"strings"
	"sync"
	"testing"
	"time"
	"verifh/rig"

	webtrans "github.com/zishang520/engine.io/v2/webtransport"

	"verifh/fakenet"
	"verifh/refcodec"
	"verifh/rep"
)

// ---------- shared generator for C13/C14 ----------

type wtMsg struct {
	Binary bool   `json:"binary"`
	Len    int    `json:"len"`
	API    string `json:"api"`    // message | writer | string | readfrom | prepared
	Chunks []int  `json:"chunks"` // write sizes for writer/readfrom
	// LeaveOpen: the streaming writer of this message is not closed by the application; the next
	// message's write call (whatever its API) has to finish it first
	LeaveOpen bool `json:"writer_left_open"`
	data      []byte
}

type wtCase struct {
	Server bool    `json:"writer_is_server"`
	WBuf   int     `json:"write_buf"`
	RBuf   int     `json:"read_buf"`
	Pool   bool    `json:"pool"`
	Frag   int     `json:"read_fragment"` // 0 whole, n>0 max n bytes per read
	Msgs   []wtMsg `json:"msgs"`
	// ReadLimit (0 = none) is set on the reading connection, as the engine does on every
	// connection; it is never below the longest message of the case, so nothing may be refused
	ReadLimit int64  `json:"read_limit"`
	SeedInfo  string `json:"seed"`
}

var wtAPIs = []string{"message", "writer", "string", "readfrom", "readfrom-eof", "prepared"}

func wtLengths(rng *rand.Rand, wbuf int, big bool) int {
	b := wbuf + 9 // internal buffer = requested + max header
	classes := [][2]int{
		{0, 130}, {0, 130},
		{b - 9 - 16, b - 9 + 16},
		{b - 16, b + 16},
		{2*b - 16, 2*b + 16 + 9},
		{2*(b-9) - 16, 2*(b-9) + 16},
		{65530, 65540},
		{3 * b, 4 * b},
	}
	c := classes[rng.IntN(len(classes))]
	if big && rng.IntN(40) == 0 {
		c = [2]int{70000, 300000}
	}
	lo, hi := c[0], c[1]
	if lo < 0 {
		lo = 0
	}
	if hi > 1<<20 {
		hi = 1 << 20
	}
	if hi < lo {
		hi = lo
	}
	return lo + rng.IntN(hi-lo+1)
}

func fillPayload(rng *rand.Rand, n int, text bool) []byte {
	p := make([]byte, n)
	if text {
		const al = "abcdefghijklmnopqrstuvwxyz0123456789 \n\"\\"
		for i := range p {
			p[i] = al[rng.IntN(len(al))]
		}
	} else {
		for i := range p {
			p[i] = byte(rng.UintN(256))
		}
	}
	return p
}

func chunking(rng *rand.Rand, n int) []int {
	if n == 0 {
		if rng.IntN(2) == 0 {
			return nil
		}
		return []int{0}
	}
	var out []int
	mode := rng.IntN(4)
	for n > 0 {
		var c int
		switch mode {
		case 0:
			c = n
		case 1:
			c = 1 + rng.IntN(7)
		case 2:
			c = 1 + rng.IntN(n)
		default:
			c = 1 + rng.IntN(5000)
		}
		if c > n {
			c = n
		}
		out = append(out, c)
		n -= c
		if len(out) > 400 {
			out = append(out, n)
			n = 0
		}
	}
	return out
}

func genWTCase(rng *rand.Rand, big bool) wtCase {
	bufs := []int{16, 125, 4096, 4096, 65536}
	c := wtCase{
		Server: rng.IntN(2) == 0,
		WBuf:   bufs[rng.IntN(len(bufs))],
		RBuf:   []int{16, 125, 4096, 65536}[rng.IntN(4)],
		Pool:   rng.IntN(3) == 0,
		Frag:   []int{0, 1, 3, 1 + rng.IntN(5000)}[rng.IntN(4)],
	}
	n := 1 + rng.IntN(8)
	if rng.IntN(8) == 0 {
		n = 1 + rng.IntN(20)
	}
	budget := 330_000
	for i := 0; i < n; i++ {
		m := wtMsg{Binary: rng.IntN(2) == 0, API: wtAPIs[rng.IntN(len(wtAPIs))]}
		m.Len = wtLengths(rng, c.WBuf, big)
		if m.Len > budget {
			m.Len = rng.IntN(200)
		}
		budget -= m.Len
		if c.Frag > 0 && c.Frag < 8 && m.Len > 20000 {
			m.Len = rng.IntN(300)
		}
		m.data = fillPayload(rng, m.Len, !m.Binary)
		if m.API == "writer" || m.API == "readfrom" || m.API == "readfrom-eof" {
			m.Chunks = chunking(rng, m.Len)
		}
		c.Msgs = append(c.Msgs, m)
	}
	if rng.IntN(3) == 0 {
		for _, m := range c.Msgs {
			c.ReadLimit = max(c.ReadLimit, int64(m.Len))
		}
		c.ReadLimit += int64([]int{0, 1, 100}[rng.IntN(3)])
		if c.ReadLimit == 0 {
			c.ReadLimit = 1
		}
	}
	for i := range c.Msgs[:len(c.Msgs)-1] {
		// NextWriter (and WriteMessage, its helper) finish a writer the application left open;
		// a prepared message is written past an open writer, as in the library this layer derives
		// from, so that sequence is the application's mistake and is not generated
		if c.Msgs[i+1].API == "prepared" {
			continue
		}
		switch c.Msgs[i].API {
		case "writer", "string", "readfrom", "readfrom-eof":
			c.Msgs[i].LeaveOpen = rng.IntN(5) == 0
		}
	}
	return c
}

func lenClass(n, wbuf int) string {
	b := wbuf + 9
	switch {
	case n == 0:
		return "0"
	case n < 126:
		return "<126"
	case n <= b-9:
		return "<=buf"
	case n <= 2*b:
		return "<=2buf"
	case n < 65536:
		return "<64k"
	default:
		return ">=64k"
	}
}

type chunkReader struct {
	data   []byte
	chunks []int
	// eofWithData: the last chunk is returned together with io.EOF (as io.Reader allows)
	eofWithData bool
}

func (r *chunkReader) Read(p []byte) (n int, err error) {
	if r.eofWithData {
		defer func() {
			if err == nil && len(r.data) == 0 {
				err = io.EOF
			}
		}()
	}
	if len(r.data) == 0 {
		return 0, io.EOF
	}
	n = len(r.data)
	if len(r.chunks) > 0 {
		n = r.chunks[0]
		r.chunks = r.chunks[1:]
	}
	if n > len(p) {
		n = len(p)
	}
	if n > len(r.data) {
		n = len(r.data)
	}
	copy(p, r.data[:n])
	r.data = r.data[n:]
	return n, nil
}

func mt(binary bool) int {
	if binary {
		return webtrans.BinaryMessage
	}
	return webtrans.TextMessage
}

func scribble(b []byte) {
	for i := range b {
		b[i] = 0xA5
	}
}

// writeWT writes one message through the chosen API.
func writeWT(c *webtrans.Conn, m wtMsg) error {
	switch m.API {
	case "message":
		// the caller's buffer is the caller's again once the call has returned
		buf := append([]byte(nil), m.data...)
		err := c.WriteMessage(mt(m.Binary), buf)
		scribble(buf)
		return err
	case "prepared":
		pm, err := webtrans.NewPreparedMessage(mt(m.Binary), m.data)
		if err != nil {
			return err
		}
		return c.WritePreparedMessage(pm)
	}
	w, err := c.NextWriter(mt(m.Binary))
	if err != nil {
		return err
	}
	switch m.API {
	case "writer":
		// every chunk goes through one scratch buffer that is overwritten as soon as Write has
		// returned (an io.Writer must not keep p): a copy loop with a reused buffer
		d := m.data
		var scratch []byte
		put := func(chunk []byte) error {
			if cap(scratch) < len(chunk) {
				scratch = make([]byte, len(chunk))
			}
			b := scratch[:len(chunk)]
			copy(b, chunk)
			_, err := w.Write(b)
			scribble(b)
			return err
		}
		for _, n := range m.Chunks {
			if err := put(d[:n]); err != nil {
				return err
			}
			d = d[n:]
		}
		if len(d) > 0 {
			if err := put(d); err != nil {
				return err
			}
		}
	case "string":
		if _, err := io.WriteString(w, string(m.data)); err != nil {
			return err
		}
	case "readfrom", "readfrom-eof":
		if _, err := io.Copy(w, &chunkReader{data: m.data, chunks: append([]int(nil), m.Chunks...), eofWithData: m.API == "readfrom-eof"}); err != nil {
			return err
		}
	}
	if m.LeaveOpen {
		return nil
	}
	return w.Close()
}

// runWTCase writes all messages on A, closes A's sending side, and reads B to the end.
func runWTCase(c wtCase) (wire []byte, got []refcodec.WTMsg, readErr error, writeErr error) {
	sa, sb := fakenet.StreamPipe()
	var pool webtrans.BufferPool
	if c.Pool {
		// a pool shared with a busy neighbour: whatever is put back is overwritten at once
		pool = &scribblePool{}
	}
	a := webtrans.NewConn(nil, sa, c.Server, c.RBuf, c.WBuf, pool, nil, nil)
	b := webtrans.NewConn(nil, sb, !c.Server, c.RBuf, c.WBuf, nil, nil, nil)
	if c.Frag > 0 {
		sb.Conn.FragmentReads(c.Frag)
	}
	if c.ReadLimit > 0 {
		// the connections of this rig have no session: a limit violation (none is due) reaches the
		// harness's stand-in through the wt.nilSession hook instead of a nil dereference
		g := rig.NewGate()
		g.Watch(sb)
		defer g.Unwatch(sb)
		b.SetReadLimit(c.ReadLimit)
	}
	for _, m := range c.Msgs {
		if err := writeWT(a, m); err != nil {
			writeErr = fmt.Errorf("write %s len %d: %w", m.API, m.Len, err)
			break
		}
	}
	sa.Close()
	for {
		typ, r, err := b.NextReader()
		if err != nil {
			readErr = err
			break
		}
		p, err := io.ReadAll(r)
		if err != nil {
			readErr = err
			break
		}
		got = append(got, refcodec.WTMsg{Binary: typ == webtrans.BinaryMessage, Payload: p})
		if len(got) > len(c.Msgs)*64+64 {
			readErr = errors.New("harness: reader produced far more messages than were written")
			break
		}
	}
	return sa.Wire(), got, readErr, writeErr
}

// scribblePool is a BufferPool whose Put overwrites the buffer it is given, as another
// connection sharing the pool would when it picks the buffer up immediately: a connection that
// still reads a buffer after handing it back sees garbage.
type scribblePool struct {
	mu    sync.Mutex
	items []interface{}
}

func (p *scribblePool) Get() interface{} {
	p.mu.Lock()
	defer p.mu.Unlock()
	if n := len(p.items); n > 0 {
		x := p.items[n-1]
		p.items = p.items[:n-1]
		return x
	}
	return nil
}

func (p *scribblePool) Put(x interface{}) {
	// the pooled value is a struct wrapping one []byte
	if v := reflect.ValueOf(x); v.Kind() == reflect.Struct && v.NumField() == 1 && v.Field(0).Kind() == reflect.Slice {
		b := v.Field(0).Bytes()
		b = b[:cap(b)]
		for i := range b {
			b[i] = 0xEE
		}
	}
	p.mu.Lock()
	p.items = append(p.items, x)
	p.mu.Unlock()
}

func isCleanEOF(err error) bool {
	// the stream was closed by the peer between frames: the reader reports an abnormal closure (unexpected EOF)
	return err != nil && strings.Contains(err.Error(), "unexpected EOF")
}

func caseForReport(c wtCase) any {
	return c
}

// ---------- C13 ----------

// runWTWriteFault: one write call of the stream delivers half of its bytes and fails (a write
// deadline that expired against a slow peer), the stream stays usable, and the application goes on
// writing through every API.  Whatever the connection does then, the messages whose write returned
// nil - and only those - must be what the peer reads, intact and in order.
func runWTWriteFault(rng *rand.Rand) (key, msg string, okAfterFault int) {
	sa, sb := fakenet.StreamPipe()
	a := webtrans.NewConn(nil, sa, rng.IntN(2) == 0, 0, []int{16, 125, 4096}[rng.IntN(3)], nil, nil, nil)
	b := webtrans.NewConn(nil, sb, true, 0, 0, nil, nil, nil)
	apis := []string{"message", "prepared", "writer", "string", "readfrom"}
	var accepted []wtMsg
	write := func(i int) error {
		m := wtMsg{API: apis[rng.IntN(len(apis))], Binary: rng.IntN(2) == 0, Len: []int{0, 5, 200, 5000, 70000}[rng.IntN(5)]}
		m.data = fillPayload(rng, m.Len, !m.Binary)
		copy(m.data, fmt.Sprintf("#%d#", i))
		err := writeWT(a, m)
		if err == nil {
			accepted = append(accepted, m)
		}
		return err
	}
	nBefore := rng.IntN(3)
	for i := 0; i < nBefore; i++ {
		if err := write(i); err != nil {
			return "wt-write-error", err.Error(), 0
		}
	}
	sa.TearWrite(rng.IntN(2))
	failedAt := -1
	for i := nBefore; i < nBefore+8; i++ {
		err := write(i)
		if err != nil && failedAt < 0 {
			failedAt = i
		}
		if err == nil && failedAt >= 0 {
			okAfterFault++
		}
	}
	sa.Close()
	var got []refcodec.WTMsg
	for len(got) <= len(accepted)+64 {
		typ, rd, err := b.NextReader()
		if err != nil {
			break
		}
		p, err := io.ReadAll(rd)
		if err != nil {
			break
		}
		got = append(got, refcodec.WTMsg{Binary: typ == webtrans.BinaryMessage, Payload: p})
	}
	if len(got) != len(accepted) {
		return "wt-roundtrip-mismatch:after-write-fault", fmt.Sprintf("one stream write failed half-way (message %d); %d writes returned nil in all (%d of them after the failure), the peer read %d complete messages", failedAt, len(accepted), okAfterFault, len(got)), okAfterFault
	}
	for i := range accepted {
		if got[i].Binary != accepted[i].Binary || !bytes.Equal(got[i].Payload, accepted[i].data) {
			return "wt-roundtrip-mismatch:after-write-fault", fmt.Sprintf("one stream write failed half-way (message %d); message %d (api %s, %d bytes), whose write returned nil, was read as %d bytes binary=%v", failedAt, i, accepted[i].API, accepted[i].Len, len(got[i].Payload), got[i].Binary), okAfterFault
		}
	}
	return "", "", okAfterFault
}

func TestC13(t *testing.T) {
	r := rep.New(t, "C13")
	defer r.Flush()
	r.Rule("PRNG cases = (writer role, write/read buffer size, pool, read fragmentation, 1-20 messages each with kind, length class around 0/125/126/buffer/2*buffer/65535/65536/large, write API incl. a reader that returns its last chunk together with io.EOF, chunking); plus a write-fault lane (one stream write delivers half of its bytes and fails, the application keeps writing through every API: exactly the messages whose write returned nil must be read); non-trivial and distinct = distinct (api, kind, length class, buffer size, role, fragmentation class) tuples actually round-tripped")
	frng := r.Rand(131)
	for i := 0; i < r.N(2000, 200000); i++ {
		key, msg, _ := runWTWriteFault(frng)
		r.Obs("write_fault_cases", 1)
		if i%50 == 0 {
			r.Case("write-fault", true)
		}
		if key != "" {
			r.Violationf(key, map[string]any{"lane": "a stream write fails half-way, the application keeps writing", "case": i, "seed": r.Seed, "lane_no": r.Lane}, "%s", msg)
			break
		}
	}
	n := r.N(2500, 300000)
	rng := r.Rand(13)
	for i := 0; i < n; i++ {
		c := genWTCase(rng, true)
		c.SeedInfo = fmt.Sprintf("seed=%d lane=%d case=%d", r.Seed, r.Lane, i)
		_, got, rerr, werr := runWTCase(c)
		for _, m := range c.Msgs {
			fc := "whole"
			if c.Frag == 1 {
				fc = "1"
			} else if c.Frag > 0 {
				fc = "n"
			}
			r.Case(fmt.Sprintf("%s/%v/%s/w%d/srv%v/f%s", m.API, m.Binary, lenClass(m.Len, c.WBuf), c.WBuf, c.Server, fc), true)
			r.Obs("messages_written", 1)
			r.Obs("api:"+m.API, 1)
			r.Obs("payload_bytes", int64(m.Len))
		}
		r.Obs("messages_read", int64(len(got)))
		if i < 3 {
			r.Sample(map[string]any{"case": c, "read": len(got)})
		}
		if werr != nil {
			r.Violationf("wt-write-error", c, "%v", werr)
			continue
		}
		if !isCleanEOF(rerr) {
			r.Violationf("wt-read-error", c, "reader ended with %v after %d messages", rerr, len(got))
			continue
		}
		checkWTRoundTrip(r, c, got)
	}
}

func checkWTRoundTrip(r *rep.Report, c wtCase, got []refcodec.WTMsg) {
	ok := len(got) == len(c.Msgs)
	if ok {
		for i, m := range c.Msgs {
			if got[i].Binary != m.Binary || !bytes.Equal(got[i].Payload, m.data) {
				ok = false
				break
			}
		}
	}
	if ok {
		return
	}
	// classify: walk the received list against the sent list
	gi := 0
	for _, m := range c.Msgs {
		if gi >= len(got) {
			r.Violationf("wt-message-missing:"+m.API, c, "message of %d bytes (%s) not received; got %d of %d", m.Len, m.API, len(got), len(c.Msgs))
			return
		}
		if got[gi].Binary == m.Binary && bytes.Equal(got[gi].Payload, m.data) {
			gi++
			continue
		}
		// does a run of received messages concatenate to this one?
		var cat []byte
		k := gi
		for k < len(got) && len(cat) < len(m.data) {
			cat = append(cat, got[k].Payload...)
			k++
		}
		if bytes.Equal(cat, m.data) && k-gi > 1 {
			kinds := ""
			for j := gi; j < k; j++ {
				if got[j].Binary {
					kinds += "b"
				} else {
					kinds += "t"
				}
			}
			r.Violationf("wt-message-split:"+m.API, c, "one %s message of %d bytes (binary=%v, write buffer %d, server=%v) arrived as %d messages of kinds %s", m.API, m.Len, m.Binary, c.WBuf, c.Server, k-gi, kinds)
			return
		}
		r.Violationf("wt-roundtrip-mismatch:"+m.API, c, "message %s len %d binary=%v: received binary=%v len %d", m.API, m.Len, m.Binary, got[gi].Binary, len(got[gi].Payload))
		return
	}
	if gi < len(got) {
		r.Violationf("wt-extra-message", c, "%d extra messages after the %d written (first extra: binary=%v len %d)", len(got)-gi, len(c.Msgs), got[gi].Binary, len(got[gi].Payload))
	}
}

// ---------- C14 ----------

// runC14TransportWire: the bytes the engine's WebTransport transport puts on the stream (not just
// the framing layer used directly): sessions over the in-memory stream, messages sent plainly and
// as a broadcast with one shared options object carrying a pre-encoded frame; everything after
// the open packet must be exactly one reference frame per message.
func runC14TransportWire(rng *rand.Rand, r *rep.Report) (key, msg string, frames int) {
	rig.Bubble(r.T(), func() {
		so := &config.ServerOptions{}
		so.SetTransports(types.NewSet("polling", "websocket", "webtransport"))
		so.SetPingInterval(25 * time.Second)
		w := rig.NewWorld(rig.Options{Server: so})
		defer w.Finish()
		nSess := 2 + rng.IntN(2)
		var cls []*rig.Client
		for k := 0; k < nSess; k++ {
			cl, err := w.Connect(rig.ClientCfg{Rev: 4, Transport: "webtransport"})
			if err != nil {
				key, msg = "wt-handshake-failed", err.Error()
				return
			}
			cl.StartReader()
			cls = append(cls, cl)
		}
		time.Sleep(time.Millisecond)
		rig.Wait()
		var want []byte
		nMsg := 2 + rng.IntN(6)
		type bm struct {
			bin  bool
			data []byte
			opts *packet.Options
		}
		var sent []bm
		bursts := rng.IntN(2) == 0
		for n := 0; n < nMsg; n++ {
			m := bm{bin: rng.IntN(2) == 0}
			size := []int{1, 5, 125, 126, 127, 300, 65535, 65536, 70000}[rng.IntN(9)]
			m.data = fillPayload(rng, size, !m.bin)
			if rng.IntN(3) > 0 {
				// pre-encoded once, shared by every session (and by a later re-send)
				fb, fd := refcodec.EncodeFrame(4, refcodec.Packet{Type: refcodec.Message, Data: m.data, Binary: m.bin}, false)
				var f types.BufferInterface
				if fb {
					f = types.NewBytesBuffer(fd)
				} else {
					f = types.NewStringBuffer(fd)
				}
				m.opts = &packet.Options{WsPreEncodedFrame: f}
			}
			sent = append(sent, m)
			if m.opts != nil && rng.IntN(3) == 0 {
				sent = append(sent, m)
			}
		}
		held := false
		for mi, m := range sent {
			fb, fd := refcodec.EncodeFrame(4, refcodec.Packet{Type: refcodec.Message, Data: m.data, Binary: m.bin}, false)
			want = append(want, refcodec.WTFrame(fb, fd)...)
			if bursts && mi == 1 && nSess == 2 {
				// the writer goroutines of the first message are held before they start (hook
				// wt.send.start, no lock is held there): everything sent meanwhile is buffered and
				// leaves as ONE batch of several packets, text and binary mixed
				w.Gate.Arm("wt.send.start", nSess)
				held = true
			}
			for _, sid := range w.SocketIDs() {
				var rd io.Reader
				if m.bin {
					rd = types.NewBytesBuffer(append([]byte(nil), m.data...))
				} else {
					rd = types.NewStringBufferString(string(m.data))
				}
				w.SocketByID(sid).Send(rd, m.opts, nil)
			}
			// in bursts: what is sent while the transport is still writing the previous message
			// leaves as one batch of several packets (text and binary mixed)
			if held {
				rig.Settle()
				continue
			}
			if !bursts || rng.IntN(4) == 0 {
				time.Sleep(time.Millisecond)
			}
		}
		if held {
			if n := len(w.Gate.Parked()); n > 0 {
				r.Obs("gate:wt_writers_held_while_a_mixed_batch_builds_up", int64(n))
			}
			w.Gate.ReleaseAll()
		}
		time.Sleep(100 * time.Millisecond)
		rig.Wait()
		for k, cl := range cls {
			wire := cl.WTServerStream.Wire()
			first, _ := refcodec.WTDecode(wire)
			if len(first) == 0 {
				key, msg = "wt-wire-format:transport", fmt.Sprintf("session %d: nothing decodable on the wire", k)
				return
			}
			open := refcodec.WTFrame(first[0].Binary, first[0].Payload)
			rest := wire[len(open):]
			frames += len(sent)
			if !bytes.Equal(rest, want) {
				off := 0
				for off < len(rest) && off < len(want) && rest[off] == want[off] {
					off++
				}
				key, msg = "wt-wire-format:transport", fmt.Sprintf("session %d of %d: the bytes after the open packet differ from one reference frame per message at offset %d (%d bytes on the wire, %d expected; %d messages, some sent with one shared pre-encoded frame): want % x, got % x", k, nSess, off, len(rest), len(want), len(sent), want[off:min(len(want), off+10)], rest[off:min(len(rest), off+10)])
				return
			}
		}
		for _, cl := range cls {
			cl.Stop()
		}
	})
	return
}

func TestC14(t *testing.T) {
	r := rep.New(t, "C14")
	defer r.Flush()
	r.Rule("encoder: the engine's own WebTransport transport (sessions over the in-memory stream, plain sends and broadcasts sharing one pre-encoded frame: every byte after the open packet compared with one reference frame per message); same generator as C13, captured wire bytes compared byte-for-byte with the reference encoder (one minimal frame per message); decoder: reference-encoded streams of 1-50 frames with PRNG length forms (minimal, 16-bit, 64-bit non-minimal, zero length) must yield the same messages; distinct = (direction, api or length form, kind, length class) tuples")
	for i := 0; i < r.N(80, 4000); i++ {
		key, msg, frames := runC14TransportWire(r.CaseRand(141, i), r)
		r.Case(fmt.Sprintf("transport-wire/%d", frames), frames > 0)
		r.Obs("transport_frames_compared", int64(frames))
		if key != "" {
			r.Violationf(key, map[string]any{"lane": "engine transport wire bytes", "case": i, "seed": r.Seed, "lane_no": r.Lane}, "%s", msg)
		}
	}
	n := r.N(2000, 180000)
	rng := r.Rand(14)
	for i := 0; i < n; i++ {
		c := genWTCase(rng, true)
		c.Frag = 0
		c.SeedInfo = fmt.Sprintf("seed=%d lane=%d case=%d enc", r.Seed, r.Lane, i)
		wire, _, _, werr := runWTCase(c)
		if werr != nil {
			r.Violationf("wt-write-error", c, "%v", werr)
			continue
		}
		var want []byte
		for _, m := range c.Msgs {
			want = append(want, refcodec.WTFrame(m.Binary, m.data)...)
			r.Case(fmt.Sprintf("enc/%s/%v/%s/w%d/srv%v", m.API, m.Binary, lenClass(m.Len, c.WBuf), c.WBuf, c.Server), true)
			r.Obs("frames_compared", 1)
		}
		r.Obs("wire_bytes_compared", int64(len(want)))
		if i < 2 {
			r.Sample(map[string]any{"dir": "encode", "case": c, "wire_len": len(wire)})
		}
		if !bytes.Equal(wire, want) {
			// locate first differing message
			off := 0
			desc := "wire differs"
			for _, m := range c.Msgs {
				f := refcodec.WTFrame(m.Binary, m.data)
				if off+len(f) > len(wire) || !bytes.Equal(wire[off:off+len(f)], f) {
					hdr := wire[off:min(off+10, len(wire))]
					desc = fmt.Sprintf("message api=%s binary=%v len=%d at wire offset %d: want header % x, got % x", m.API, m.Binary, m.Len, off, f[:min(10, len(f))], hdr)
					r.Violationf("wt-wire-format:"+m.API, c, "%s", desc)
					break
				}
				off += len(f)
			}
			if off == len(want) && len(wire) > len(want) {
				r.Violationf("wt-wire-trailing-bytes", c, "%d bytes after the last frame", len(wire)-len(want))
			}
		}
	}
	// decoder direction
	nd := r.N(3000, 360000)
	for i := 0; i < nd; i++ {
		nf := 1 + rng.IntN(12)
		if rng.IntN(10) == 0 {
			nf = 1 + rng.IntN(50)
		}
		type fr struct {
			Binary bool `json:"binary"`
			Len    int  `json:"len"`
			Form   int  `json:"form"`
		}
		var frames []fr
		var msgs []refcodec.WTMsg
		var stream []byte
		for k := 0; k < nf; k++ {
			ln := []int{0, 1, rng.IntN(126), 125, 126, 127, 200 + rng.IntN(3000), 128 + rng.IntN(300)}[rng.IntN(8)]
			if rng.IntN(25) == 0 {
				ln = []int{65535, 65536, 65537 + rng.IntN(2000)}[rng.IntN(3)]
			}
			form := 0
			switch rng.IntN(4) {
			case 1:
				if ln < 65536 {
					form = 16
				}
			case 2:
				form = 64
			}
			bin := rng.IntN(2) == 0
			p := fillPayload(rng, ln, !bin)
			frames = append(frames, fr{bin, ln, form})
			msgs = append(msgs, refcodec.WTMsg{Binary: bin, Payload: p})
			stream = append(stream, refcodec.WTFrameForm(bin, p, form)...)
			r.Case(fmt.Sprintf("dec/form%d/%v/%s", form, bin, lenClass(ln, 4096)), true)
			r.Obs("frames_decoded", 1)
			if form != 0 {
				r.Obs("nonminimal_frames", 1)
			}
		}
		frag := []int{0, 1, 1 + rng.IntN(200)}[rng.IntN(3)]
		if frag == 1 && len(stream) > 6000 {
			frag = 7
		}
		rbuf := []int{16, 125, 4096}[rng.IntN(3)]
		desc := map[string]any{"dir": "decode", "frames": frames, "read_fragment": frag, "read_buf": rbuf, "seed": fmt.Sprintf("seed=%d lane=%d case=%d dec", r.Seed, r.Lane, i)}
		if i < 2 {
			r.Sample(desc)
		}
		sa, sb := fakenet.StreamPipe()
		sa.Conn.Write(stream)
		sa.Close()
		if frag > 0 {
			sb.Conn.FragmentReads(frag)
		}
		b := webtrans.NewConn(nil, sb, rng.IntN(2) == 0, rbuf, 0, nil, nil, nil)
		unwatch := func() {}
		if rng.IntN(3) == 0 {
			// a read limit as the engine sets on every connection: never below the longest frame
			// of the stream, so a conformant stream is accepted whatever its total length
			lim := int64(1)
			for _, f := range frames {
				lim = max(lim, int64(f.Len))
			}
			g := rig.NewGate()
			g.Watch(sb)
			b.SetReadLimit(lim + int64(rng.IntN(2)))
			desc["read_limit"] = lim
			unwatch = func() { g.Unwatch(sb) }
		}
		var got []refcodec.WTMsg
		var rerr error
		for {
			typ, rd, err := b.NextReader()
			if err != nil {
				rerr = err
				break
			}
			p, err := io.ReadAll(rd)
			if err != nil {
				rerr = err
				break
			}
			got = append(got, refcodec.WTMsg{Binary: typ == webtrans.BinaryMessage, Payload: p})
		}
		unwatch()
		if !isCleanEOF(rerr) {
			r.Violationf("wt-decoder-error", desc, "reader ended with %v after %d of %d messages", rerr, len(got), len(msgs))
			continue
		}
		if len(got) != len(msgs) {
			r.Violationf("wt-decoder-count", desc, "decoded %d messages, stream has %d", len(got), len(msgs))
			continue
		}
		for k := range msgs {
			if got[k].Binary != msgs[k].Binary || !bytes.Equal(got[k].Payload, msgs[k].Payload) {
				r.Violationf("wt-decoder-mismatch", desc, "frame %d (form %d, len %d): decoded binary=%v len=%d", k, frames[k].Form, frames[k].Len, got[k].Binary, len(got[k].Payload))
				break
			}
		}
	}
}
