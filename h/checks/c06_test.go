package checks

import (
	"bytes"
	"encoding/json"
	"fmt"
	"github.com/zishang520/engine.io/v2/engine"
	"io"
	"math/rand/v2"
	"net/http"
	"net/http/httptest"
	"sort"
	"strings"
	"sync"
	"testing"
	"time"

	"github.com/zishang520/engine.io/v2/config"
	"github.com/zishang520/engine.io/v2/types"

	"verifh/refcodec"
	"verifh/rep"
	"verifh/rig"
)

type c06Case struct {
	PIms       int       `json:"ping_interval_ms"`
	PTms       int       `json:"ping_timeout_ms"`
	MaxPayload int64     `json:"max_payload"`
	Transports []string  `json:"transports"`
	AllowUpg   bool      `json:"allow_upgrades"`
	AllowEIO3  bool      `json:"allow_eio3"`
	Initial    string    `json:"initial_packet"` // "" | strbuf | strreader | bytesbuf | bytesreader (*bytes.Reader) | bytesbuffer (*bytes.Buffer)
	Cookie     bool      `json:"cookie"`
	Sessions   []c06Sess `json:"sessions"`
	Seed       string    `json:"seed"`
}

type c06Sess struct {
	Transport string `json:"transport"`
	EIO       string `json:"eio"` // "4" | "3" | "" (absent)
	B64       bool   `json:"b64"`
	JSONP     bool   `json:"jsonp"`
}

func genC06(rng *rand.Rand) c06Case {
	c := c06Case{
		PIms:       []int{1, 7, 50, 300, 25000, 1234}[rng.IntN(6)],
		PTms:       []int{1, 9, 50, 200, 20000, 4321}[rng.IntN(6)],
		MaxPayload: []int64{1, 100, 4096, 65536, 1000000, 123456789}[rng.IntN(6)],
		AllowUpg:   rng.IntN(4) != 0,
		AllowEIO3:  rng.IntN(3) != 0,
		Initial:    []string{"", "", "strbuf", "strreader", "bytesbuf", "bytesreader", "bytesbuffer"}[rng.IntN(7)],
		Cookie:     rng.IntN(4) == 0,
	}
	sets := [][]string{{"polling", "websocket"}, {"polling"}, {"websocket"}, {"polling", "websocket", "webtransport"}, {"polling", "webtransport"}, {"websocket", "webtransport"}}
	c.Transports = sets[rng.IntN(len(sets))]
	n := 3 + rng.IntN(3)
	for i := 0; i < n; i++ {
		s := c06Sess{Transport: c.Transports[rng.IntN(len(c.Transports))]}
		s.EIO = []string{"4", "4", "3", "", "4,3", "3,4"}[rng.IntN(6)]
		if s.Transport == "webtransport" {
			s.EIO = "4"
		}
		if s.Transport == "polling" {
			s.JSONP = rng.IntN(4) == 0
		}
		s.B64 = rng.IntN(3) == 0 || (s.JSONP && s.EIO != "4")
		c.Sessions = append(c.Sessions, s)
	}
	return c
}

const initText = "initial-packet-€-payload"

func runC06(c c06Case, r *rep.Report) (key, msg string, stats map[string]int64) {
	stats = map[string]int64{}
	var pan any
	func() {
		defer func() { pan = recover() }()
		rig.Bubble(r.T(), func() {
			so := &config.ServerOptions{}
			so.SetPingInterval(time.Duration(c.PIms) * time.Millisecond)
			so.SetPingTimeout(time.Duration(c.PTms) * time.Millisecond)
			so.SetMaxHttpBufferSize(c.MaxPayload)
			so.SetTransports(types.NewSet(c.Transports...))
			so.SetAllowUpgrades(c.AllowUpg)
			so.SetAllowEIO3(c.AllowEIO3)
			var initBin bool
			switch c.Initial {
			case "strbuf":
				so.SetInitialPacket(types.NewStringBufferString(initText))
			case "strreader":
				so.SetInitialPacket(strings.NewReader(initText))
			case "bytesbuf":
				so.SetInitialPacket(types.NewBytesBufferString(initText))
				initBin = true
			case "bytesreader":
				so.SetInitialPacket(bytes.NewReader([]byte(initText)))
				initBin = true
			case "bytesbuffer":
				so.SetInitialPacket(bytes.NewBufferString(initText))
				initBin = true
			}
			if c.Cookie {
				so.SetCookie(&http.Cookie{Name: "io", Path: "/"})
			}
			w := rig.NewWorld(rig.Options{Server: so})
			defer w.Finish()
			// the caller goes on using its options object (to build another server, say): the
			// effective configuration of THIS server was fixed when it was constructed
			so.SetPingInterval(time.Duration(c.PIms)*time.Millisecond + 777*time.Millisecond)
			so.SetPingTimeout(time.Duration(c.PTms)*time.Millisecond + 555*time.Millisecond)
			so.SetMaxHttpBufferSize(c.MaxPayload + 4242)
			so.SetAllowUpgrades(!c.AllowUpg)
			so.SetAllowEIO3(!c.AllowEIO3)
			so.SetTransports(types.NewSet("polling"))
			so.SetInitialPacket(nil)
			stats["servers_whose_options_object_was_changed_after_construction"]++
			enabled := map[string]bool{}
			for _, t := range c.Transports {
				enabled[t] = true
			}
			for si, s := range c.Sessions {
				before := w.Eng.ClientsCount()
				connBefore := len(eventsOfKind(w, "connection"))
				rev := 3
				if s.EIO == "4" {
					rev = 4
				}
				// every other b64 session declares the flag on its handshake request only: the payload
				// format of a session is fixed when it is created
				cfg := rig.ClientCfg{Rev: rev, Transport: s.Transport, B64: s.B64, B64OnlyAtHandshake: s.B64 && si%2 == 1, JSONP: s.JSONP, J: "1", NoAutoPong: true}
				if s.EIO == "" {
					cfg.OmitEIO = true
				}
				var cl *rig.Client
				var err error
				if strings.Contains(s.EIO, ",") {
					// the parameter is given twice with different values: the statement does not say
					// which one counts, but the session must be consistently ONE revision (admission,
					// Protocol(), payload format).  Raw handshake, decoded under both formats.
					vals := strings.Split(s.EIO, ",")
					res := w.Do(rig.ReqSpec{Method: "GET", Target: "/engine.io/?EIO=" + vals[0] + "&transport=polling&EIO=" + vals[1]})
					rig.Wait()
					stats["handshakes_with_repeated_eio"]++
					ids := w.SocketIDs()
					if res.Status != 200 {
						if w.Eng.ClientsCount() != before {
							key, msg = "c06-rejected-handshake-created-session", fmt.Sprintf("EIO=%s&EIO=%s answered %d but created a session", vals[0], vals[1], res.Status)
							return
						}
						continue
					}
					if w.Eng.ClientsCount() != before+1 || len(ids) == 0 {
						key, msg = "c06-registry-entries", fmt.Sprintf("EIO=%s&EIO=%s admitted: count %d -> %d", vals[0], vals[1], before, w.Eng.ClientsCount())
						return
					}
					sock := w.SocketByID(ids[len(ids)-1])
					wire := 0
					if ps, e := refcodec.DecodePayload("v4", res.Body); e == nil && len(ps) > 0 && ps[0].Type == refcodec.Open {
						wire = 4
					} else if ps, e := refcodec.DecodePayload("v3s", res.Body); e == nil && len(ps) > 0 && ps[0].Type == refcodec.Open {
						wire = 3
					}
					if wire == 0 || wire != sock.Protocol() {
						key, msg = "c06-repeated-eio-inconsistent", fmt.Sprintf("EIO=%s&EIO=%s: Protocol() = %d but the handshake response %.40q is in revision-%d format", vals[0], vals[1], sock.Protocol(), res.Body, wire)
						return
					}
					if wire == 3 && !c.AllowEIO3 {
						key, msg = "c06-eio3-admitted-although-disallowed", fmt.Sprintf("EIO=%s&EIO=%s admitted as revision 3 with allowEIO3=false", vals[0], vals[1])
						return
					}
					sock.Close(true)
					rig.Wait()
					continue
				} else {
					cl, err = w.Connect(cfg)
					rig.Wait()
				}
				admitted := rev == 4 || c.AllowEIO3
				stats["handshakes"]++
				if !admitted {
					if err == nil {
						key, msg = "c06-eio3-admitted-although-disallowed", fmt.Sprintf("session %d: revision-3 handshake (EIO=%q) admitted with allowEIO3=false", si, s.EIO)
						return
					}
					if n := w.Eng.ClientsCount(); n != before {
						key, msg = "c06-rejected-handshake-created-session", fmt.Sprintf("client count %d -> %d", before, n)
						return
					}
					stats["handshakes_rejected"]++
					continue
				}
				if err != nil {
					key, msg = "c06-handshake-failed", fmt.Sprintf("session %d (%+v): %v", si, s, err)
					return
				}
				conns := eventsOfKind(w, "connection")
				if len(conns) != connBefore+1 {
					key, msg = "c06-connection-events", fmt.Sprintf("session %d: %d connection events for one handshake", si, len(conns)-connBefore)
					return
				}
				if n := w.Eng.ClientsCount(); n != before+1 || uint64(w.Eng.Clients().Len()) != n {
					key, msg = "c06-registry-entries", fmt.Sprintf("session %d: client count %d -> %d, table size %d", si, before, n, w.Eng.Clients().Len())
					return
				}
				sock := w.SocketByID(cl.Sid)
				if sock == nil {
					key, msg = "c06-open-sid-unknown", fmt.Sprintf("open packet announces sid %q which no connection event carried", cl.Sid)
					return
				}
				if _, ok := w.Eng.Clients().Load(cl.Sid); !ok {
					key, msg = "c06-open-sid-unknown", fmt.Sprintf("sid %q of the open packet is not in the client table", cl.Sid)
					return
				}
				o := cl.Open
				if o.PingInterval != int64(c.PIms) || o.PingTimeout != int64(c.PTms) || o.MaxPayload != c.MaxPayload {
					key, msg = "c06-open-packet-config", fmt.Sprintf("open packet %s, configured pingInterval=%d pingTimeout=%d maxPayload=%d", o.Raw, c.PIms, c.PTms, c.MaxPayload)
					return
				}
				var want []string
				if c.AllowUpg && s.Transport == "polling" {
					for _, t := range []string{"websocket", "webtransport"} {
						if enabled[t] {
							want = append(want, t)
						}
					}
				}
				got := append([]string(nil), o.Upgrades...)
				sort.Strings(got)
				sort.Strings(want)
				if strings.Join(got, ",") != strings.Join(want, ",") || o.Upgrades == nil {
					key, msg = "c06-open-packet-upgrades", fmt.Sprintf("session %d on %s (allowUpgrades=%v, enabled %v): upgrades %v (raw %s), want %v", si, s.Transport, c.AllowUpg, c.Transports, o.Upgrades, o.Raw, want)
					return
				}
				if sock.Protocol() != rev {
					key, msg = "c06-protocol-revision", fmt.Sprintf("EIO=%q -> Protocol() %d, want %d", s.EIO, sock.Protocol(), rev)
					return
				}
				if sock.Transport().Name() != s.Transport {
					key, msg = "c06-transport-name", fmt.Sprintf("handshake on %s, session transport %s", s.Transport, sock.Transport().Name())
					return
				}
				// initial packet: first message of every session, right after the open packet
				rcv := cl.Received()
				if c.Initial != "" {
					var first *refcodec.Packet
					if len(rcv) >= 2 {
						first = &rcv[1].P
					} else if s.Transport == "polling" {
						ps, _, perr := cl.PollOnce()
						if perr == nil && len(ps) > 0 {
							first = &ps[0]
						}
					} else {
						cl.StartReader()
						time.Sleep(time.Microsecond)
						rig.Wait()
						if rr := cl.Received(); len(rr) >= 2 {
							first = &rr[1].P
						}
					}
					stats["initial_packets_checked"]++
					if first == nil || first.Type != refcodec.Message || !bytes.Equal(first.Data, []byte(initText)) || first.Binary != initBin {
						key, msg = "c06-initial-packet", fmt.Sprintf("session %d (#%d on this server, %s): first packet after open is %v, want message %q binary=%v", si, si+1, s.Transport, first, initText, initBin)
						return
					}
				}
				// heartbeat mode follows the revision
				if c.PIms <= 300 && s.Transport != "polling" {
					if c.Initial == "" {
						cl.StartReader()
					}
					time.Sleep(time.Duration(c.PIms)*time.Millisecond + time.Microsecond)
					rig.Wait()
					pings := 0
					for _, x := range cl.Received() {
						if x.P.Type == refcodec.Ping {
							pings++
						}
					}
					stats["heartbeat_mode_checked"]++
					if rev == 4 && pings == 0 {
						key, msg = "c06-heartbeat-mode", fmt.Sprintf("revision 4 session got no ping within pingInterval %d ms", c.PIms)
						return
					}
					if rev == 3 && pings > 0 {
						key, msg = "c06-heartbeat-mode", "revision 3 session was pinged by the server"
						return
					}
				}
				cl.Stop()
				rig.Wait()
			}
			// overlapping sessions: several handshakes complete before any of the sessions fetches
			// its first messages; every one of them must still get the initial packet
			if c.Initial != "" && enabled["polling"] {
				var cls []*rig.Client
				for k := 0; k < 3; k++ {
					cl, err := w.Connect(rig.ClientCfg{Rev: 4, Transport: "polling", NoAutoPong: true})
					if err != nil {
						key, msg = "c06-handshake-failed", fmt.Sprintf("overlapping session %d: %v", k, err)
						return
					}
					cls = append(cls, cl)
				}
				rig.Wait()
				// fetched in another order than opened
				for _, k := range []int{1, 0, 2} {
					cl := cls[k]
					var first *refcodec.Packet
					if rcv := cl.Received(); len(rcv) >= 2 {
						first = &rcv[1].P
					} else if ps, _, perr := cl.PollOnce(); perr == nil && len(ps) > 0 {
						first = &ps[0]
					}
					stats["initial_packets_checked_overlapping_sessions"]++
					if first == nil || first.Type != refcodec.Message || !bytes.Equal(first.Data, []byte(initText)) || first.Binary != initBin {
						key, msg = "c06-initial-packet", fmt.Sprintf("three polling sessions opened before any of them polled (initial packet given as %s): session %d received %v as its first packet after open, want message %q binary=%v", c.Initial, k, first, initText, initBin)
						return
					}
				}
				for _, cl := range cls {
					cl.Stop()
				}
				rig.Wait()
			}
		})
	}()
	if pan != nil {
		return "c06-panic", fmt.Sprint(pan), stats
	}
	return
}

func eventsOfKind(w *rig.World, kind string) []rig.Event {
	var out []rig.Event
	for _, e := range w.Tap.Events() {
		if e.Kind == kind {
			out = append(out, e)
		}
	}
	return out
}

var _ = io.EOF

func TestC06(t *testing.T) {
	r := rep.New(t, "C06")
	defer r.Flush()
	if r.Lane == 2%r.Lanes {
		handshakeStorm(r, r.N(40, 1600))
	}
	if r.Lane == 3%r.Lanes {
		// the engine behind a types.HttpServer listening itself: HTTP/1.1, HTTP/2 (TLS) and HTTP/3 (QUIC) on loopback
		netLanes(r, r.N(4, 64))
	}
	r.Rule("PRNG server option combinations (ping interval/timeout, max payload, transport set, allowUpgrades, allowEIO3, initial packet text/binary/absent, cookie) x 3-5 handshakes per server over polling/JSONP/WebSocket/WebTransport with EIO=4, 3, absent or given twice with different values (must resolve to ONE revision for admission, Protocol() and payload format) and b64; oracle: one connection event and one registry entry per admitted handshake, open packet JSON == configuration (upgrades as a set), initial packet first message of EVERY session with its kind, Protocol() and heartbeat mode per revision, revision 3 refused when disallowed; distinct = option/session signature")
	// a case that has not ended after a minute of real time (normal: milliseconds) is examined for a
	// goroutine spinning in library code (rep.Guard)
	r.Guard(60 * time.Second)
	n := r.N(2400, 400000)
	for i := 0; i < n; i++ {
		if !r.Only(i) {
			continue
		}
		rng := r.CaseRand(6, i)
		c := genC06(rng)
		c.Seed = fmt.Sprintf("seed=%d lane=%d case=%d", r.Seed, r.Lane, i)
		r.Begin(fmt.Sprint(i), c)
		key, msg, stats := runC06(c, r)
		r.End(fmt.Sprint(i))
		sig := fmt.Sprintf("%d/%d/%d/%v/%v/%v/%s/%v", c.PIms, c.PTms, c.MaxPayload, c.Transports, c.AllowUpg, c.AllowEIO3, c.Initial, c.Cookie)
		for _, s := range c.Sessions {
			sig += fmt.Sprintf("|%s%s%v%v", s.Transport[:2], s.EIO, s.B64, s.JSONP)
		}
		r.Case(sig, stats["handshakes"] > 0)
		for k, v := range stats {
			r.Obs(k, v)
		}
		if i < 2 {
			r.Sample(c)
		}
		if key != "" {
			r.Violation(key, msg, c)
		}
	}
}

// handshakeStorm: bursts of concurrent handshakes on one server (real time, real goroutines, the
// handler called directly with recording response writers).  Every response must start with an
// open packet whose sid is that of exactly one announced session, no sid may be handed out twice,
// and the configuration fields must be the configured ones in every single response.
func handshakeStorm(r *rep.Report, rounds int) {
	so := &config.ServerOptions{}
	so.SetAllowEIO3(true)
	so.SetPingInterval(7 * time.Second)
	so.SetPingTimeout(3 * time.Second)
	so.SetMaxHttpBufferSize(12345)
	so.SetCookie(&http.Cookie{Name: "sticky"})
	eng := engine.NewServer(so)
	defer eng.Close()
	var mu sync.Mutex
	announced := map[string]bool{}
	eng.On("connection", func(a ...any) {
		mu.Lock()
		announced[a[0].(engine.Socket).Id()] = true
		mu.Unlock()
	})
	for round := 0; round < rounds; round++ {
		const G = 48
		type out struct {
			sid, cookie, body string
			pi, pt, mp        float64
		}
		res := make([]out, G)
		var wg sync.WaitGroup
		start := make(chan struct{})
		for g := 0; g < G; g++ {
			wg.Add(1)
			go func(g int) {
				defer wg.Done()
				<-start
				rev := 4 - g%2
				rec := httptest.NewRecorder()
				eng.ServeHTTP(rec, httptest.NewRequest("GET", fmt.Sprintf("http://h/engine.io/?EIO=%d&transport=polling", rev), nil))
				body := rec.Body.String()
				o := out{body: body}
				var first string
				if rev == 4 {
					first = strings.SplitN(body, "\x1e", 2)[0]
				} else if i := strings.Index(body, ":"); i > 0 {
					n := 0
					fmt.Sscanf(body[:i], "%d", &n)
					if i+1+n <= len(body) {
						first = body[i+1 : i+1+n]
					}
				}
				var open struct {
					Sid          string  `json:"sid"`
					PingInterval float64 `json:"pingInterval"`
					PingTimeout  float64 `json:"pingTimeout"`
					MaxPayload   float64 `json:"maxPayload"`
				}
				if len(first) > 1 && first[0] == '0' && json.Unmarshal([]byte(first[1:]), &open) == nil {
					o.sid, o.pi, o.pt, o.mp = open.Sid, open.PingInterval, open.PingTimeout, open.MaxPayload
				}
				for _, ck := range (&http.Response{Header: rec.Header()}).Cookies() {
					o.cookie = ck.Value
				}
				res[g] = o
			}(g)
		}
		close(start)
		wg.Wait()
		time.Sleep(5 * time.Millisecond)
		seen := map[string]int{}
		mu.Lock()
		for g, o := range res {
			bad := ""
			switch {
			case o.sid == "":
				bad = "does not start with a decodable open packet"
			case !announced[o.sid]:
				bad = fmt.Sprintf("carries sid %q, which no connection event announced", o.sid)
			case o.cookie != o.sid:
				bad = fmt.Sprintf("carries sid %q in the open packet and %q in the handshake cookie", o.sid, o.cookie)
			case o.pi != 7000 || o.pt != 3000 || o.mp != 12345:
				bad = fmt.Sprintf("advertises pingInterval %v pingTimeout %v maxPayload %v (configured 7000/3000/12345)", o.pi, o.pt, o.mp)
			}
			if bad == "" {
				seen[o.sid]++
				if seen[o.sid] > 1 {
					bad = fmt.Sprintf("carries sid %q, already handed to another client of the same burst", o.sid)
				}
			}
			if bad != "" {
				mu.Unlock()
				r.Violationf("c06-open-packet-concurrent-handshakes", map[string]any{"lane": "bursts of 48 concurrent handshakes", "round": round}, "handshake response %d of a burst of %d concurrent handshakes %s (body %.80q)", g, G, bad, o.body)
				return
			}
		}
		mu.Unlock()
		r.Case("handshake-storm", true)
		r.Obs("concurrent_handshakes_checked", G)
		// make room: close what the burst opened
		eng.Clients().Range(func(_ string, s engine.Socket) bool { s.Close(true); return true })
	}
}
