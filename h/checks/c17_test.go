package checks

import (
	"fmt"
	"math/rand/v2"
	"net/http"
	"net/http/httptest"
	"regexp"
	"strings"
	"sync"
	"testing"
	"time"

	"github.com/zishang520/engine.io/v2/config"
	"github.com/zishang520/engine.io/v2/engine"
	"github.com/zishang520/engine.io/v2/types"

	"verifh/refcodec"
	"verifh/rep"
	"verifh/rig"
)

type c17Case struct {
	Cookie   string   `json:"cookie"` // "" | default | named | attrs
	Cors     string   `json:"cors"`   // "" | star | fixed | list | regexp | true | false | listmixed
	Creds    bool     `json:"credentials"`
	PreCont  bool     `json:"preflight_continue"`
	OptStat  int      `json:"options_success_status"`
	Methods  string   `json:"methods"`         // default | string | list
	Headers  string   `json:"allowed_headers"` // none | string | list
	Sessions int      `json:"sessions"`
	Steps    []string `json:"steps"` // per session after handshake: poll | bigpoll (compressible, Accept-Encoding) | post | preflight
	Origins  []string `json:"origins"`
	JSONP    bool     `json:"jsonp"`
	// End: how each session's history ends: "" | client-close (close packet in a data request) |
	// server-close-pending-poll | upgrade-pending-poll: responses written while or after the
	// session leaves its polling transport
	End string `json:"end"`
	// OuterVary: an outer handler has already put "Vary: Accept-Encoding" on every response
	// before the engine is entered
	OuterVary bool `json:"outer_handler_sets_vary"`
	// CK: the configured cookie when Cookie == "lattice"
	CK   *ckCfg `json:"cookie_configured,omitempty"`
	Seed string `json:"seed"`
}

// ckCfg is a configured handshake cookie (one point of the attribute lattice).
type ckCfg struct {
	Name     string `json:"name"`
	Path     string `json:"path"`
	MaxAge   int    `json:"max_age"`
	Secure   bool   `json:"secure"`
	HttpOnly bool   `json:"http_only"`
	SameSite int    `json:"same_site"` // http.SameSite value
	Domain   string `json:"domain"`
}

// expectedCookie is the reference model of the documented normalisation: name defaults to "io",
// path to "/", SameSite to Lax, HttpOnly is on by default; every other attribute is the
// configured one.
func expectedCookie(k ckCfg) (name, path string, maxAge int, secure bool, httpOnly *bool, sameSite http.SameSite, domain string) {
	name, path = k.Name, k.Path
	if name == "" {
		name = "io"
	}
	if path == "" {
		path = "/"
	}
	sameSite = http.SameSite(k.SameSite)
	if sameSite == http.SameSiteDefaultMode {
		sameSite = http.SameSiteLaxMode
	}
	if k.HttpOnly {
		t := true
		httpOnly = &t // configured on: must be on; configured off (Go's zero value): the default applies, not judged
	}
	return name, path, k.MaxAge, k.Secure, httpOnly, sameSite, k.Domain
}

var c17Origins = []string{"", "https://a.example", "https://b.example", "https://evil.example", "https://a.example.evil.test", "null", "https://sub.a.example"}

func genC17(rng *rand.Rand) c17Case {
	c := c17Case{
		Cookie:   []string{"", "default", "named", "attrs", "lattice", "lattice"}[rng.IntN(6)],
		Cors:     []string{"", "star", "fixed", "list", "regexp", "true", "false", "listmixed"}[rng.IntN(8)],
		Creds:    rng.IntN(2) == 0,
		PreCont:  rng.IntN(4) == 0,
		OptStat:  []int{0, 200, 204}[rng.IntN(3)],
		Methods:  []string{"default", "string", "list"}[rng.IntN(3)],
		Headers:  []string{"none", "string", "list", "none", "string", "list", "empty-list", "empty-string", "legacy-empty-list"}[rng.IntN(9)],
		Sessions: 1 + rng.IntN(3),
		JSONP:    rng.IntN(5) == 0,
	}
	n := 2 + rng.IntN(6)
	for i := 0; i < n; i++ {
		c.Steps = append(c.Steps, []string{"poll", "poll", "post", "post", "preflight", "bigpoll"}[rng.IntN(6)])
		c.Origins = append(c.Origins, c17Origins[rng.IntN(len(c17Origins))])
	}
	c.End = []string{"", "client-close", "server-close-pending-poll", "upgrade-pending-poll"}[rng.IntN(4)]
	c.OuterVary = rng.IntN(4) == 0
	if c.Cookie == "lattice" {
		c.CK = &ckCfg{
			Name:     []string{"", "sticky"}[rng.IntN(2)],
			Path:     []string{"", "/x"}[rng.IntN(2)],
			MaxAge:   []int{0, 3600}[rng.IntN(2)],
			Secure:   rng.IntN(2) == 0,
			HttpOnly: rng.IntN(2) == 0,
			SameSite: int([]http.SameSite{http.SameSiteDefaultMode, http.SameSiteLaxMode, http.SameSiteStrictMode, http.SameSiteNoneMode}[rng.IntN(4)]),
			Domain:   []string{"", "example.com"}[rng.IntN(2)],
		}
	}
	return c
}

func (c c17Case) corsOptions() *types.Cors {
	if c.Cors == "" {
		return nil
	}
	o := &types.Cors{Credentials: c.Creds, PreflightContinue: c.PreCont, OptionsSuccessStatus: c.OptStat}
	switch c.Cors {
	case "star":
		o.Origin = "*"
	case "fixed":
		o.Origin = "https://a.example"
	case "list":
		o.Origin = []any{"https://a.example", "https://b.example"}
	case "listmixed":
		o.Origin = []any{"https://b.example", regexp.MustCompile(`^https://([a-z]+\.)?a\.example$`)}
	case "regexp":
		o.Origin = regexp.MustCompile(`^https://([a-z]+\.)?a\.example$`)
	case "true":
		o.Origin = true
	case "false":
		o.Origin = false
	}
	switch c.Methods {
	case "string":
		o.Methods = "GET,POST"
	case "list":
		o.Methods = []string{"GET", "POST", "OPTIONS"}
	}
	switch c.Headers {
	case "string":
		o.AllowedHeaders = "X-One,X-Two"
	case "list":
		o.AllowedHeaders = []string{"X-One", "X-Two"}
	case "empty-list":
		o.AllowedHeaders = []string{}
	case "empty-string":
		o.AllowedHeaders = ""
	case "legacy-empty-list":
		o.Headers = []string{}
	}
	return o
}

// wantAllowHeaders is the documented policy for Access-Control-Allow-Headers on a preflight: the
// request's own list is reflected only when the option is NOT configured; a configured value is
// sent as it is, and a configured empty value allows no request header (the field is absent).
func (c c17Case) wantAllowHeaders(requested string) string {
	switch c.Headers {
	case "string", "list":
		return "X-One,X-Two"
	case "empty-list", "empty-string", "legacy-empty-list":
		return ""
	}
	return requested
}

// reference CORS policy: is this origin allowed?
func (c c17Case) originAllowed(origin string) bool {
	a := regexp.MustCompile(`^https://([a-z]+\.)?a\.example$`)
	switch c.Cors {
	case "star", "true":
		return true
	case "fixed":
		return origin == "https://a.example"
	case "list":
		return origin == "https://a.example" || origin == "https://b.example"
	case "listmixed":
		return origin == "https://b.example" || a.MatchString(origin)
	case "regexp":
		return a.MatchString(origin)
	}
	return false
}

func varyHas(h http.Header, tok string) bool {
	for _, v := range h.Values("Vary") {
		for _, t := range strings.Split(v, ",") {
			if strings.EqualFold(strings.TrimSpace(t), tok) || strings.TrimSpace(t) == "*" {
				return true
			}
		}
	}
	return false
}

func checkCORS(c c17Case, origin string, h http.Header, what string) (string, string) {
	acao := h.Values("Access-Control-Allow-Origin")
	if c.Cors == "" {
		if len(acao) > 0 {
			return "c17-cors-header-without-policy", fmt.Sprintf("%s: Access-Control-Allow-Origin %q although no CORS policy is configured", what, acao)
		}
		return "", ""
	}
	if len(acao) > 1 {
		return "c17-cors-multiple-acao", fmt.Sprintf("%s: %d Access-Control-Allow-Origin headers", what, len(acao))
	}
	v := ""
	if len(acao) == 1 {
		v = acao[0]
	}
	if v == "*" && !(c.Cors == "star") && !c.originAllowed(origin) {
		return "c17-cors-origin-not-allowed", fmt.Sprintf("%s: request Origin %q is not allowed by the policy (%s) yet the response says *", what, origin, c.Cors)
	}
	if origin != "" && v == origin && !c.originAllowed(origin) {
		return "c17-cors-origin-not-allowed", fmt.Sprintf("%s: request Origin %q is not allowed by the policy (%s) yet Access-Control-Allow-Origin names it", what, origin, c.Cors)
	}
	if c.Cors == "fixed" && v != "https://a.example" {
		return "c17-cors-fixed-origin", fmt.Sprintf("%s: fixed origin policy, header %q", what, v)
	}
	if c.Cors == "star" && v != "*" {
		return "c17-cors-star", fmt.Sprintf("%s: '*' policy, header %q", what, v)
	}
	if origin != "" && c.originAllowed(origin) && c.Cors != "star" && c.Cors != "fixed" && v != origin {
		return "c17-cors-allowed-origin-not-reflected", fmt.Sprintf("%s: Origin %q is allowed by the policy (%s) but the header is %q", what, origin, c.Cors, v)
	}
	dependsOnRequest := c.Cors != "star" && c.Cors != "fixed"
	if dependsOnRequest && !varyHas(h, "Origin") {
		return "c17-cors-vary-missing", fmt.Sprintf("%s: Access-Control-Allow-Origin depends on the request (policy %s) but Vary is %q", what, c.Cors, h.Values("Vary"))
	}
	cred := h.Get("Access-Control-Allow-Credentials")
	if cred != "" && !c.Creds {
		return "c17-cors-credentials-unconfigured", fmt.Sprintf("%s: Access-Control-Allow-Credentials %q without the option", what, cred)
	}
	if c.Creds && cred != "true" {
		return "c17-cors-credentials-missing", fmt.Sprintf("%s: credentials configured, header %q", what, cred)
	}
	return "", ""
}

func runC17(c c17Case, r *rep.Report) (key, msg string, stats map[string]int64) {
	stats = map[string]int64{}
	var pan any
	func() {
		defer func() { pan = recover() }()
		rig.Bubble(r.T(), func() {
			so := &config.ServerOptions{}
			so.SetAllowEIO3(true)
			so.SetPingInterval(20 * time.Second)
			switch c.Cookie {
			case "default":
				so.SetCookie(&http.Cookie{})
			case "named":
				so.SetCookie(&http.Cookie{Name: "sticky", Path: "/x"})
			case "attrs":
				so.SetCookie(&http.Cookie{Name: "io", Path: "/", MaxAge: 3600, Secure: true, SameSite: http.SameSiteStrictMode, Domain: "example.com"})
			case "lattice":
				so.SetCookie(&http.Cookie{Name: c.CK.Name, Path: c.CK.Path, MaxAge: c.CK.MaxAge, Secure: c.CK.Secure, HttpOnly: c.CK.HttpOnly, SameSite: http.SameSite(c.CK.SameSite), Domain: c.CK.Domain})
			}
			if co := c.corsOptions(); co != nil {
				so.SetCors(co)
			}
			wo := rig.Options{Server: so}
			if c.OuterVary {
				wo.PreHeaders = http.Header{"Vary": {"Accept-Encoding"}}
			}
			w := rig.NewWorld(wo)
			defer w.Finish()
			eff := w.Eng.Opts().Cookie()
			if c.Cookie != "" {
				// overlapping handshakes: each response must carry ITS session's id
				const K = 6
				type hs struct {
					cl  *rig.Client
					err error
				}
				ch := make(chan hs, K)
				for k := 0; k < K; k++ {
					go func() {
						cl, err := w.Connect(rig.ClientCfg{Rev: 4, Transport: "polling"})
						ch <- hs{cl, err}
					}()
				}
				for k := 0; k < K; k++ {
					h := <-ch
					if h.err != nil {
						continue
					}
					stats["concurrent_handshakes"]++
					cookies := (&http.Response{Header: h.cl.Polls()[0].Header}).Cookies()
					if len(cookies) != 1 || cookies[0].Value != h.cl.Sid {
						key, msg = "c17-cookie-value", fmt.Sprintf("concurrent handshakes: Set-Cookie %q on the response that opened session %q", h.cl.Polls()[0].Header.Values("Set-Cookie"), h.cl.Sid)
						return
					}
					h.cl.Stop()
				}
				rig.Wait()
				// these sessions are not part of the per-session event accounting below
				for _, sid := range w.SocketIDs() {
					w.SocketByID(sid).Close(true)
				}
				time.Sleep(time.Millisecond)
				rig.Wait()
			}
			base := len(w.SocketIDs())
			for s := 0; s < c.Sessions; s++ {
				origin := c.Origins[s%len(c.Origins)]
				hdr := http.Header{}
				if origin != "" {
					hdr.Set("Origin", origin)
				}
				cl, err := w.Connect(rig.ClientCfg{Rev: 4, Transport: "polling", JSONP: c.JSONP, J: "2", Header: hdr})
				rig.Wait()
				if err != nil {
					key, msg = "c17-handshake-failed", err.Error()
					return
				}
				sid := cl.Sid
				stats["sessions"]++
				hs := cl.Polls()[0]
				// cookie on the handshake response
				cookies := (&http.Response{Header: hs.Header}).Cookies()
				if c.Cookie == "" {
					if len(cookies) > 0 {
						key, msg = "c17-cookie-unconfigured", fmt.Sprintf("Set-Cookie %q without a cookie option", hs.Header.Values("Set-Cookie"))
						return
					}
				} else {
					stats["cookies_checked"]++
					if len(cookies) != 1 {
						key, msg = "c17-cookie-missing", fmt.Sprintf("handshake response has %d cookies (Set-Cookie: %q)", len(cookies), hs.Header.Values("Set-Cookie"))
						return
					}
					ck := cookies[0]
					if ck.Value != sid {
						key, msg = "c17-cookie-value", fmt.Sprintf("Set-Cookie %q: value %q, session id %q", hs.Header.Get("Set-Cookie"), ck.Value, sid)
						return
					}
					if ck.Name != eff.Name || ck.Path != eff.Path || ck.HttpOnly != eff.HttpOnly || ck.SameSite != eff.SameSite || ck.MaxAge != eff.MaxAge || ck.Secure != eff.Secure || ck.Domain != eff.Domain {
						key, msg = "c17-cookie-attributes", fmt.Sprintf("Set-Cookie %q does not carry the configured attributes %+v", hs.Header.Get("Set-Cookie"), *eff)
						return
					}
					if c.CK != nil {
						// against the configuration itself (reference model of the documented defaults),
						// not against what the server made of it
						name, path, maxAge, secure, httpOnly, sameSite, domain := expectedCookie(*c.CK)
						if ck.Name != name || ck.Path != path || ck.MaxAge != maxAge || ck.Secure != secure || ck.SameSite != sameSite || ck.Domain != domain || (httpOnly != nil && ck.HttpOnly != *httpOnly) {
							key, msg = "c17-cookie-attributes", fmt.Sprintf("Set-Cookie %q; configured %+v (defaults: name io, path /, SameSite Lax, HttpOnly on)", hs.Header.Get("Set-Cookie"), *c.CK)
							return
						}
						stats["cookies_checked_against_the_configuration"]++
					}
				}
				if k, m := checkCORS(c, origin, hs.Header, "handshake"); k != "" {
					key, msg = k, m
					return
				}
				responses := 1
				for i, step := range c.Steps {
					o := c.Origins[i]
					h := http.Header{}
					if o != "" {
						h.Set("Origin", o)
					}
					cl.Cfg.Header = h
					switch step {
					case "poll", "bigpoll":
						cl.Cfg.AcceptEnc = ""
						if step == "bigpoll" {
							// a response large enough to be compressed, fetched by a client that accepts a coding
							w.SocketByID(sid).Send(types.NewStringBufferString(strings.Repeat("compress me ", 200)), nil, nil)
							cl.Cfg.AcceptEnc = []string{"gzip", "deflate", "br", "zstd"}[i%4]
							stats["polls_with_accept_encoding"]++
						} else {
							w.SocketByID(sid).Send(types.NewStringBufferString("x"), nil, nil)
						}
						_, res, err := cl.PollOnce()
						if step == "bigpoll" && res.Header.Get("Content-Encoding") != "" {
							stats["compressed_poll_responses_checked"]++
						}
						if err != nil {
							key, msg = "c17-poll-failed", err.Error()
							return
						}
						responses++
						if len(res.Header.Values("Set-Cookie")) > 0 {
							key, msg = "c17-cookie-on-later-response", fmt.Sprintf("poll response of an established session carries Set-Cookie %q", res.Header.Values("Set-Cookie"))
							return
						}
						if k, m := checkCORS(c, o, res.Header, "poll"); k != "" {
							key, msg = k, m
							return
						}
					case "post":
						res := cl.Post(refcodec.Text(refcodec.Message, "y"))
						if res.Status != 200 {
							key, msg = "c17-post-failed", fmt.Sprint(res.Status)
							return
						}
						responses++
						if len(res.Header.Values("Set-Cookie")) > 0 {
							key, msg = "c17-cookie-on-later-response", fmt.Sprintf("data response of an established session carries Set-Cookie %q", res.Header.Values("Set-Cookie"))
							return
						}
						if k, m := checkCORS(c, o, res.Header, "post"); k != "" {
							key, msg = k, m
							return
						}
					case "preflight":
						before := w.Eng.ClientsCount()
						conns := len(eventsOfKind(w, "connection"))
						h.Set("Access-Control-Request-Method", "POST")
						h.Set("Access-Control-Request-Headers", "content-type")
						res := w.Do(rig.ReqSpec{Method: "OPTIONS", Target: "/engine.io/?EIO=4&transport=polling", Header: h})
						rig.Wait()
						stats["preflights"]++
						if w.Eng.ClientsCount() != before || len(eventsOfKind(w, "connection")) != conns {
							key, msg = "c17-preflight-created-session", "an OPTIONS request created a session"
							return
						}
						if c.Cors != "" && !c.PreCont {
							want := c.OptStat
							if want == 0 {
								want = 204
							}
							if res.Status != want {
								key, msg = "c17-preflight-status", fmt.Sprintf("preflight answered %d, configured success status %d", res.Status, want)
								return
							}
							if len(res.Body) != 0 {
								key, msg = "c17-preflight-body", fmt.Sprintf("preflight body %q", res.Body)
								return
							}
							if k, m := checkCORS(c, o, res.Header, "preflight"); k != "" {
								key, msg = k, m
								return
							}
							if got, want := res.Header.Get("Access-Control-Allow-Headers"), c.wantAllowHeaders("content-type"); got != want {
								key, msg = "c17-cors-allow-headers", fmt.Sprintf("preflight asking for 'content-type' with allowed headers configured as %q: Access-Control-Allow-Headers %q, documented policy %q", c.Headers, got, want)
								return
							}
						} else {
							// passed on to the engine (or no CORS at all): a handshake must be GET
							if res.Status != 400 || !strings.Contains(string(res.Body), `"code":2`) {
								key, msg = "c17-preflight-passed-on", fmt.Sprintf("OPTIONS passed on to the engine answered %d %q", res.Status, res.Body)
								return
							}
						}
					}
				}
				rig.Wait()
				switch c.End {
				case "client-close":
					// the acknowledgement of this data request is written after the session closed
					if res := cl.Post(refcodec.Packet{Type: refcodec.Close}); res.Err == nil && res.Status == 200 {
						responses++
						stats["responses_written_after_the_session_closed"]++
					}
				case "server-close-pending-poll":
					x := cl.PollStart()
					time.Sleep(time.Millisecond)
					rig.Wait()
					if !x.Done() {
						w.SocketByID(sid).Close(true)
						rig.Wait()
						if res, ok := x.WaitFor(time.Second); ok && res.Status == 200 {
							responses++
							stats["responses_written_after_the_session_closed"]++
						}
					} else {
						responses++
					}
				case "upgrade-pending-poll":
					if !c.JSONP {
						x := cl.PollStart()
						time.Sleep(time.Millisecond)
						rig.Wait()
						cand := w.Candidate(sid, 4)
						if x.Done() {
							responses++
						} else if cand.DialCandidateWS() == nil {
							time.Sleep(time.Millisecond)
							cand.WSWriteRaw(false, []byte("2probe"))
							// the fast-poll noop releases the pending poll within 100 ms
							if res, ok := x.WaitFor(time.Second); ok && res.Status == 200 {
								responses++
								stats["responses_written_during_an_upgrade"]++
							}
							cand.WSWriteRaw(false, []byte("5"))
							time.Sleep(time.Millisecond)
						}
					}
				}
				rig.Wait()
				// events of this session
				ih := 0
				hd := 0
				emptyIdx := map[string]int{}
				for _, e := range w.Tap.Events() {
					if e.Kind != "initial_headers" && e.Kind != "headers" {
						continue
					}
					ctx := e.Args[1].(*types.HttpContext)
					esid := ctx.Query().Peek("sid")
					mine := esid == sid
					if esid == "" {
						// handshake responses carry no sid: the k-th one belongs to the k-th session
						mine = emptyIdx[e.Kind] == s+base
						emptyIdx[e.Kind]++
					}
					if !mine {
						continue
					}
					if e.Kind == "initial_headers" {
						ih++
					} else {
						hd++
					}
				}
				stats["responses_checked"] += int64(responses)
				if ih != 1 {
					key, msg = "c17-initial-headers-count", fmt.Sprintf("initial_headers fired %d times for one session (%d responses)", ih, responses)
					return
				}
				if hd != responses {
					key, msg = "c17-headers-count", fmt.Sprintf("headers fired %d times for %d responses of the session", hd, responses)
					return
				}
				cl.Stop()
				rig.Wait()
			}
		})
	}()
	if pan != nil {
		return "c17-panic", fmt.Sprint(pan), stats
	}
	return
}

// corsStorm: many goroutines send preflights from different origins at once; every response
// must be judged by ITS request's origin.
func corsStorm(r *rep.Report, kind string, perG int) {
	c := c17Case{Cors: kind, Creds: true}
	so := &config.ServerOptions{}
	so.SetCors(c.corsOptions())
	eng := engine.NewServer(so)
	defer eng.Close()
	origins := []string{"https://a.example", "https://b.example", "https://evil.example", "https://sub.a.example", "https://a.example.evil.test"}
	var wg sync.WaitGroup
	var mu sync.Mutex
	bad := 0
	first := ""
	for g := 0; g < 16; g++ {
		wg.Add(1)
		go func(g int) {
			defer wg.Done()
			o := origins[g%len(origins)]
			for i := 0; i < perG; i++ {
				req := httptest.NewRequest("OPTIONS", "http://h/engine.io/?EIO=4&transport=polling", nil)
				req.Header.Set("Origin", o)
				req.Header.Set("Access-Control-Request-Method", "POST")
				rec := httptest.NewRecorder()
				eng.ServeHTTP(rec, req)
				if k, m := checkCORS(c, o, rec.Header(), "concurrent preflight"); k != "" {
					mu.Lock()
					bad++
					if first == "" {
						first = k + ": " + m
					}
					mu.Unlock()
				}
			}
		}(g)
	}
	wg.Wait()
	r.Case("cors-storm/"+kind, true)
	r.Obs("concurrent_cors_responses_checked", int64(16*perG))
	if bad > 0 {
		r.Violationf("c17-cors-concurrent-requests", map[string]any{"policy": kind, "goroutines": 16, "per_goroutine": perG}, "%d of %d concurrent responses carry CORS headers that do not fit their own request's origin; first: %s", bad, 16*perG, first)
	}
}

func TestC17(t *testing.T) {
	r := rep.New(t, "C17")
	defer r.Flush()
	r.Rule("PRNG servers: cookie option {none, default, named+path, all attributes, a PRNG point of the attribute lattice name x path x Max-Age x Secure x HttpOnly x SameSite{default,Lax,Strict,None} x Domain judged against the configuration itself} x CORS policy {none, '*', fixed string, list, list with regexp, regexp, true, false} x credentials x preflightContinue x success status x methods/headers as string or list (allowed headers also as an explicitly empty list or string: nothing may be reflected then); 1-3 sessions each with a PRNG history of polls, posts and preflights from allowed, disallowed, look-alike and absent origins (JSONP in a fifth), six overlapping handshakes per cookie-configured server, and a real-time storm of concurrent preflights from different origins per reflecting policy; oracle: Set-Cookie exactly on the handshake response with value == session id and the configured attributes, initial_headers once per session, headers once per response, CORS headers against a reference policy model, preflight status/no session; distinct = option/history signature")
	r.Assume("'responses of the session' are the responses produced by the session's transport (handshake, poll, data); protocol-error replies and preflight answers are written without the transport's header path")
	r.Assume("for a fixed-string origin policy Vary: Origin is accepted either way (the value does not depend on the request)")
	if r.Lane == 0 {
		for _, kind := range []string{"list", "listmixed", "regexp", "true", "fixed"} {
			corsStorm(r, kind, r.N(4*1500, 16*20000)/r.Lanes)
		}
	}
	// a case that has not ended after a minute of real time (normal: milliseconds) is examined for a
	// goroutine spinning in library code (rep.Guard)
	r.Guard(60 * time.Second)
	n := r.N(3000, 300000)
	for i := 0; i < n; i++ {
		if !r.Only(i) {
			continue
		}
		rng := r.CaseRand(17, i)
		c := genC17(rng)
		c.Seed = fmt.Sprintf("seed=%d lane=%d case=%d", r.Seed, r.Lane, i)
		r.Begin(fmt.Sprint(i), c)
		key, msg, stats := runC17(c, r)
		r.End(fmt.Sprint(i))
		r.Case(fmt.Sprintf("%s/%s/%v/%v/%d/%s/%s/%d/%v/%v/%v", c.Cookie, c.Cors, c.Creds, c.PreCont, c.OptStat, c.Methods, c.Headers, c.Sessions, c.Steps, c.Origins, c.JSONP), stats["sessions"] > 0)
		for k, v := range stats {
			r.Obs(k, v)
		}
		if i < 2 {
			r.Sample(c)
		}
		if key != "" {
			r.Violation(key, msg, c)
		}
	}
}
