package checks

import (
	"bytes"
	"fmt"
	"io"
	"math/rand/v2"
	"os"
	"runtime"
	"strings"
	"sync"
	"sync/atomic"
	"testing"
	"time"
	"unicode/utf8"

	"github.com/zishang520/engine.io-go-parser/packet"
	"github.com/zishang520/engine.io/v2/config"
	"github.com/zishang520/engine.io/v2/engine"
	"github.com/zishang520/engine.io/v2/types"

	"verifh/refcodec"
	"verifh/rep"
	"verifh/rig"
)

type outMsg struct {
	Binary   bool   `json:"binary"`
	Size     int    `json:"size"`
	Opt      string `json:"opt"`    // nil | nocompress | compress | pre
	Reader   string `json:"reader"` // strbuf | strreader | bytesbuf | bytesreader
	NonASCII bool   `json:"non_ascii"`
	GapMs    int    `json:"gap_ms"`
	payload  []byte
	sepOK    bool
}

type c01Case struct {
	Transport string     `json:"transport"`
	Rev       int        `json:"rev"`
	B64       bool       `json:"b64"`
	B64Once   bool       `json:"b64_flag_only_on_the_handshake_request"`
	JSONP     bool       `json:"jsonp"`
	AcceptEnc string     `json:"accept_encoding"`
	Threshold int        `json:"compress_threshold"`
	PMD       int        `json:"permessage_deflate_threshold"` // -1 off
	Upgrade   string     `json:"upgrade"`                      // "" | websocket | webtransport
	UpgradeAt int        `json:"upgrade_at_ms"`
	PingMs    int        `json:"ping_interval_ms"`
	Senders   [][]outMsg `json:"senders"`
	GateCheck bool       `json:"gate_check_vs_flush"`
	Seed      string     `json:"seed"`
}

var c01Sizes = []int{0, 1, 2, 5, 20, 125, 126, 127, 300, 1023, 1024, 1025, 4095, 4096, 4097, 4100, 4106, 8191, 8192, 8200}
var c01Big = []int{65534, 65535, 65536, 65537, 70000, 200000}

func genC01(rng *rand.Rand, allowNonASCIIv3bin bool) c01Case {
	c := c01Case{Rev: 4, PMD: -1, Threshold: []int{1, 100, 1024, 1 << 20}[rng.IntN(4)], PingMs: 25000}
	switch rng.IntN(8) {
	case 0, 1, 2:
		c.Transport = "polling"
	case 3:
		c.Transport = "polling"
		c.JSONP = true
	case 4, 5:
		c.Transport = "websocket"
	default:
		c.Transport = "webtransport"
	}
	if c.Transport != "webtransport" && rng.IntN(3) == 0 {
		c.Rev = 3
	}
	if rng.IntN(3) == 0 || (c.JSONP && c.Rev == 3) {
		c.B64 = true
	}
	c.AcceptEnc = []string{"", "gzip", "deflate", "br", "zstd", "gzip, deflate, br", "identity"}[rng.IntN(7)]
	if c.Transport == "websocket" && rng.IntN(3) == 0 {
		c.PMD = []int{0, 100, 2000}[rng.IntN(3)]
	}
	if c.Transport == "polling" && !c.JSONP && rng.IntN(3) == 0 {
		c.Upgrade = "websocket"
		if c.Rev == 4 && rng.IntN(2) == 0 {
			c.Upgrade = "webtransport"
		}
		c.UpgradeAt = rng.IntN(40)
	}
	if rng.IntN(4) == 0 {
		c.PingMs = 20 + rng.IntN(60)
	}
	ns := 1 + rng.IntN(3)
	tiny := ns == 1
	budget := 400000
	for g := 0; g < ns; g++ {
		n := 1 + rng.IntN(12)
		if rng.IntN(6) == 0 {
			n = 20 + rng.IntN(60)
		}
		var ms []outMsg
		for i := 0; i < n; i++ {
			m := outMsg{Binary: rng.IntN(2) == 0}
			m.Size = c01Sizes[rng.IntN(len(c01Sizes))]
			if rng.IntN(25) == 0 {
				m.Size = c01Big[rng.IntN(len(c01Big))]
			}
			if m.Size > budget {
				m.Size = 50
			}
			budget -= m.Size
			if !tiny && m.Size < 12 {
				m.Size = 12 + rng.IntN(20)
			}
			m.Opt = []string{"nil", "nil", "nocompress", "compress", "pre"}[rng.IntN(5)]
			if m.Binary {
				m.Reader = []string{"bytesbuf", "bytesreader"}[rng.IntN(2)]
			} else {
				m.Reader = []string{"strbuf", "strreader"}[rng.IntN(2)]
				m.NonASCII = rng.IntN(4) == 0
			}
			m.GapMs = []int{0, 0, 0, 1, 5, 30}[rng.IntN(6)]
			ms = append(ms, m)
		}
		c.Senders = append(c.Senders, ms)
	}
	// the v3 XHR2 binary payload cannot carry non-ASCII text in this parser module (known
	// dependency defect); keep it out of the ordinary lanes
	if c.Rev == 3 && !c.B64 && (c.Transport == "polling") && !allowNonASCIIv3bin {
		for g := range c.Senders {
			for i := range c.Senders[g] {
				c.Senders[g][i].NonASCII = false
			}
		}
	}
	// drawn last so that the cases generated before this field existed stay what they were
	c.B64Once = c.B64 && c.Transport == "polling" && rng.IntN(3) == 0
	return c
}

func buildPayload(g, n int, m outMsg, rng *rand.Rand) []byte {
	prefix := fmt.Sprintf("%d:%d|", g, n)
	if m.Size < len(prefix) {
		// tiny payloads (single-sender cases only)
		return []byte(strings.Repeat("x", m.Size))
	}
	out := []byte(prefix)
	if m.Binary {
		for len(out) < m.Size {
			out = append(out, byte(rng.UintN(256)))
		}
		return out
	}
	alphabet := []string{"a", "b", "c", " ", "\n", "\"", "\\", ":", "0", "9"}
	if m.sepOK {
		alphabet = append(alphabet, "\x1e")
	}
	if m.NonASCII {
		alphabet = append(alphabet, "é", "ß", "€", "😀", " ", "中")
	}
	for len(out) < m.Size {
		s := alphabet[rng.IntN(len(alphabet))]
		if len(out)+len(s) > m.Size {
			s = "z"
		}
		out = append(out, s...)
	}
	return out
}

func mkReader(m outMsg) io.Reader {
	switch m.Reader {
	case "strbuf":
		return types.NewStringBuffer(append([]byte(nil), m.payload...))
	case "strreader":
		return strings.NewReader(string(m.payload))
	case "bytesbuf":
		return types.NewBytesBuffer(append([]byte(nil), m.payload...))
	default:
		return bytes.NewReader(append([]byte(nil), m.payload...))
	}
}

func mkOptions(m outMsg, c c01Case) *packet.Options {
	switch m.Opt {
	case "nocompress":
		return &packet.Options{Compress: false}
	case "compress":
		return &packet.Options{Compress: true}
	case "pre":
		// the reference encoding of this packet as one WebSocket/WebTransport message
		rev := c.Rev
		bin, data := refcodec.EncodeFrame(rev, refcodec.Packet{Type: refcodec.Message, Data: m.payload, Binary: m.Binary}, c.B64)
		var f types.BufferInterface
		if bin {
			f = types.NewBytesBuffer(data)
		} else {
			f = types.NewStringBuffer(data)
		}
		return &packet.Options{Compress: true, WsPreEncodedFrame: f}
	}
	return nil
}

type sentRec struct {
	g, n    int
	binary  bool
	payload []byte
}

func runC01(c c01Case, rng *rand.Rand, r *rep.Report) (key, msg string, stats map[string]int64) {
	stats = map[string]int64{}
	// build payloads
	for g := range c.Senders {
		for i := range c.Senders[g] {
			// a revision-4 polling payload has no way to carry its own record separator
			c.Senders[g][i].sepOK = !(c.Rev == 4 && c.Transport == "polling")
			c.Senders[g][i].payload = buildPayload(g, i, c.Senders[g][i], rng)
		}
	}
	var pan any
	func() {
		defer func() {
			if p := recover(); p != nil {
				pan = p
			}
		}()
		rig.Bubble(r.T(), func() {
			so := &config.ServerOptions{}
			so.SetAllowEIO3(true)
			so.SetTransports(types.NewSet("polling", "websocket", "webtransport"))
			so.SetPingInterval(time.Duration(c.PingMs) * time.Millisecond)
			so.SetPingTimeout(time.Duration(c.PingMs) * time.Millisecond)
			so.SetHttpCompression(&types.HttpCompression{Threshold: c.Threshold})
			if c.PMD >= 0 {
				so.SetPerMessageDeflate(&types.PerMessageDeflate{Threshold: c.PMD})
			}
			w := rig.NewWorld(rig.Options{Server: so})
			defer w.Finish()
			cl, err := w.Connect(rig.ClientCfg{Rev: c.Rev, Transport: c.Transport, B64: c.B64, B64OnlyAtHandshake: c.B64Once, JSONP: c.JSONP, J: "7", AcceptEnc: c.AcceptEnc, WSCompress: c.PMD >= 0})
			rig.Wait()
			var sock engine.Socket = w.Socket(0)
			if err != nil || sock == nil {
				key, msg = "c01-handshake-failed", fmt.Sprint(err)
				return
			}
			cl.StartReader()
			var mu sync.Mutex
			var sent []sentRec
			var wg sync.WaitGroup
			startSend := make(chan struct{})
			if !c.GateCheck {
				close(startSend)
			}
			for g := range c.Senders {
				wg.Add(1)
				go func(g int) {
					defer wg.Done()
					<-startSend
					for n, m := range c.Senders[g] {
						if m.GapMs > 0 {
							time.Sleep(time.Duration(m.GapMs) * time.Millisecond)
						}
						mu.Lock()
						sent = append(sent, sentRec{g, n, m.Binary, m.payload})
						mu.Unlock()
						sock.Send(mkReader(m), mkOptions(m, c), nil)
					}
				}(g)
			}
			if c.GateCheck {
				w.Gate.Arm("socket.upgrade.check.window", 1)
			}
			upErr := make(chan error, 1)
			if c.Upgrade != "" {
				go func() {
					time.Sleep(time.Duration(c.UpgradeAt) * time.Millisecond)
					upErr <- cl.UpgradeTo(c.Upgrade, nil)
				}()
			}
			if c.GateCheck {
				// hold the upgrade's noop "check" after it has seen a writable transport, let
				// the application flush meanwhile, then release it
				for i := 0; i < 400 && len(w.Gate.Parked()) == 0; i++ {
					time.Sleep(time.Millisecond)
					rig.Wait()
				}
				if ps := w.Gate.Parked(); len(ps) > 0 {
					stats["gate:check_parked_after_writable_test"]++
					mu.Lock()
					sent = append(sent, sentRec{-1, 0, false, []byte("gate-extra")})
					mu.Unlock()
					// the application sends while the check is held after its Writable() test.  The
					// held goroutine may own the session's flush mutex, so this goroutine must not
					// wait on virtual time: spin on the real scheduler instead.
					var done atomic.Bool
					go func() {
						sock.Send(types.NewStringBufferString("gate-extra"), nil, nil)
						done.Store(true)
					}()
					for i := 0; i < 3000 && !done.Load(); i++ {
						runtime.Gosched()
					}
					if done.Load() {
						stats["gate:send_completed_while_check_held"]++
					} else {
						stats["gate:send_blocked_while_check_held"]++
					}
					w.Gate.ReleaseAll()
				}
				close(startSend)
			}
			wg.Wait()
			if c.Upgrade != "" {
				if e := <-upErr; e != nil {
					key, msg = "c01-upgrade-failed", e.Error()
				}
			}
			// bounded "eventually": quiescence plus three further poll cycles / heartbeats
			for i := 0; i < 6; i++ {
				time.Sleep(100 * time.Millisecond)
				rig.Wait()
			}
			got := cl.Messages()
			stats["messages_sent"] = int64(len(sent))
			stats["messages_received"] = int64(len(got))
			stats["polls"] = int64(len(cl.Polls()))
			for _, e := range w.Tap.Of(sock.Id(), "flush") {
				n := len(e.Args[0].([]*packet.Packet))
				if n > 1 {
					stats["batches_multi_packet"]++
				}
				stats["batches"]++
			}
			if key == "" {
				key, msg = compareC01(c, sent, got)
			}
			if key == "" {
				if st := sock.ReadyState(); st != "open" {
					reason := ""
					if ev := w.Tap.Of(sock.Id(), "close"); len(ev) > 0 {
						reason = ev[0].Str
					}
					key, msg = "c01-session-closed-without-cause:"+reason, fmt.Sprintf("session is %s (%s) although no close cause was injected; client loop ended: %q", st, reason, cl.Ended())
				}
			} else if st := sock.ReadyState(); st != "open" {
				if ev := w.Tap.Of(sock.Id(), "close"); len(ev) > 0 {
					msg += fmt.Sprintf(" [session closed: %s; client: %s]", ev[0].Str, cl.Ended())
				}
			}
			if e := cl.Ended(); e != "" && key == "" {
				key, msg = "c01-client-stream-ended", e
			}
			if os.Getenv("VERIF_DEBUG") != "" {
				for _, e := range w.Tap.Events() {
					fmt.Println("  ", e)
				}
				fmt.Println("errlog:", w.ErrorLog())
			}
			cl.Stop()
			w.Shutdown()
			time.Sleep(2 * time.Duration(c.PingMs+100) * time.Millisecond)
			time.Sleep(31 * time.Second)
			rig.Wait()
			if lo := rig.Leftovers(); len(lo) > 0 && key == "" {
				stats["leftover_goroutines"] += int64(len(lo))
			}
		})
	}()
	if pan != nil {
		return "c01-panic", fmt.Sprint(pan), stats
	}
	return
}

func compareC01(c c01Case, sent []sentRec, got []rig.Recv) (string, string) {
	// per sender: received subsequence must equal the sent sequence
	bySender := map[int][]sentRec{}
	order := []int{}
	for _, s := range sent {
		if _, ok := bySender[s.g]; !ok {
			order = append(order, s.g)
		}
		bySender[s.g] = append(bySender[s.g], s)
	}
	single := len(c.Senders) == 1
	idx := map[int]int{}
	for k, rv := range got {
		g := 0
		if !single || bytes.HasPrefix(rv.P.Data, []byte("gate-extra")) {
			if bytes.HasPrefix(rv.P.Data, []byte("gate-extra")) {
				g = -1
			} else if _, err := fmt.Sscanf(string(rv.P.Data[:min(len(rv.P.Data), 12)]), "%d:", &g); err != nil {
				return classifyC01(c, "c01-unattributable-message", fmt.Sprintf("received message #%d %v matches no sender prefix", k, rv.P), nil)
			}
		}
		exp := bySender[g]
		i := idx[g]
		if i >= len(exp) {
			return classifyC01(c, "c01-duplicate-or-extra-message", fmt.Sprintf("sender %d: received more messages than were sent (extra: %v)", g, rv.P), nil)
		}
		e := exp[i]
		if !bytes.Equal(e.payload, rv.P.Data) {
			// is it a later one (gap) or an earlier one (duplicate)?
			for j, o := range exp {
				if bytes.Equal(o.payload, rv.P.Data) && o.binary == rv.P.Binary {
					if j > i {
						return classifyC01(c, "c01-message-lost", fmt.Sprintf("sender %d: message %d (%d bytes, binary=%v) skipped; received message %d next", g, i, len(e.payload), e.binary, j), &e)
					}
					return classifyC01(c, "c01-message-duplicated-or-reordered", fmt.Sprintf("sender %d: received message %d again/out of order at position %d", g, j, i), &e)
				}
			}
			return classifyC01(c, "c01-payload-corrupted", fmt.Sprintf("sender %d message %d: sent %d bytes %.60q, received %d bytes %.60q", g, i, len(e.payload), e.payload, len(rv.P.Data), rv.P.Data), &e)
		}
		if e.binary != rv.P.Binary {
			return classifyC01(c, "c01-kind-changed", fmt.Sprintf("sender %d message %d (%d bytes): sent binary=%v, received binary=%v", g, i, len(e.payload), e.binary, rv.P.Binary), &e)
		}
		idx[g] = i + 1
	}
	for _, g := range order {
		if idx[g] != len(bySender[g]) {
			e := bySender[g][idx[g]]
			return classifyC01(c, "c01-message-never-received", fmt.Sprintf("sender %d: %d of %d messages received after quiescence + 600 ms of polling; first missing: #%d (%d bytes, binary=%v)", g, idx[g], len(bySender[g]), idx[g], len(e.payload), e.binary), &e)
		}
	}
	return "", ""
}

// classifyC01 refines a key with the input features the known findings are keyed on.
func classifyC01(c c01Case, key, msg string, e *sentRec) (string, string) {
	if c.Rev == 3 && !c.B64 && c.Transport == "polling" && !c.JSONP {
		hasBin, hasNonASCII := false, false
		for _, s := range c.Senders {
			for _, m := range s {
				if m.Binary {
					hasBin = true
				}
				if !m.Binary && !isASCII(m.payload) {
					hasNonASCII = true
				}
			}
		}
		if hasBin && hasNonASCII && (key == "c01-payload-corrupted" || key == "c01-unattributable-message" || key == "c01-message-never-received") {
			return "v3-binary-payload-non-ascii-text", key + ": " + msg
		}
	}
	return key, msg
}

func isASCII(b []byte) bool {
	for _, c := range b {
		if c >= utf8.RuneSelf {
			return false
		}
	}
	return true
}

func c01Sig(c c01Case) string {
	opts := map[string]bool{}
	big := false
	n := 0
	for _, s := range c.Senders {
		for _, m := range s {
			opts[m.Opt] = true
			n++
			if m.Size > 60000 {
				big = true
			}
		}
	}
	var os []string
	for _, k := range []string{"nil", "nocompress", "compress", "pre"} {
		if opts[k] {
			os = append(os, k)
		}
	}
	return fmt.Sprintf("%s/v%d/b64=%v/jsonp=%v/ae=%s/thr=%d/pmd=%d/up=%s/senders=%d/msgs=%d/big=%v/opts=%s/hb=%v/gate=%v",
		c.Transport, c.Rev, c.B64, c.JSONP, c.AcceptEnc, c.Threshold, c.PMD, c.Upgrade, len(c.Senders), min(n, 20)/5, big, strings.Join(os, "+"), c.PingMs < 1000, c.GateCheck)
}

// runC01Broadcast: the application encodes each message once and hands the same *packet.Options
// (carrying the pre-encoded frame) to Send on every session, the way a broadcaster does; some
// messages are broadcast a second time with the very same options object.
func runC01Broadcast(rng *rand.Rand, r *rep.Report) (key, msg string, stats map[string]int64) {
	stats = map[string]int64{}
	rig.Bubble(r.T(), func() {
		so := &config.ServerOptions{}
		so.SetTransports(types.NewSet("polling", "websocket", "webtransport"))
		so.SetPingInterval(25 * time.Second)
		w := rig.NewWorld(rig.Options{Server: so})
		defer w.Finish()
		nSess := 2 + rng.IntN(4)
		var cls []*rig.Client
		for k := 0; k < nSess; k++ {
			tr := []string{"websocket", "websocket", "webtransport", "polling"}[rng.IntN(4)]
			cl, err := w.Connect(rig.ClientCfg{Rev: 4, Transport: tr})
			if err != nil {
				key, msg = "c01-handshake-failed", err.Error()
				return
			}
			cl.StartReader()
			cls = append(cls, cl)
		}
		time.Sleep(time.Millisecond)
		rig.Wait()
		type bm struct {
			binary  bool
			payload []byte
			opts    *packet.Options
		}
		var sent []bm
		nMsg := 2 + rng.IntN(8)
		for n := 0; n < nMsg; n++ {
			m := bm{binary: rng.IntN(2) == 0}
			size := []int{0, 1, 20, 125, 126, 127, 300, 4096, 4097, 70000}[rng.IntN(10)]
			m.payload = buildPayload(9, n, outMsg{Binary: m.binary, Size: max(size, 8), NonASCII: rng.IntN(3) == 0}, rng)
			bin, data := refcodec.EncodeFrame(4, refcodec.Packet{Type: refcodec.Message, Data: m.payload, Binary: m.binary}, false)
			var f types.BufferInterface
			if bin {
				f = types.NewBytesBuffer(data)
			} else {
				f = types.NewStringBuffer(data)
			}
			m.opts = &packet.Options{Compress: rng.IntN(2) == 0, WsPreEncodedFrame: f}
			sent = append(sent, m)
			if rng.IntN(3) == 0 && n > 0 {
				// the same message (same options object) once more
				sent = append(sent, sent[rng.IntN(len(sent))])
			}
		}
		for _, m := range sent {
			for _, sid := range w.SocketIDs() {
				var rd io.Reader
				if m.binary {
					rd = types.NewBytesBuffer(append([]byte(nil), m.payload...))
				} else {
					rd = types.NewStringBufferString(string(m.payload))
				}
				w.SocketByID(sid).Send(rd, m.opts, nil)
			}
			if rng.IntN(2) == 0 {
				time.Sleep(time.Duration(rng.IntN(3)) * time.Millisecond)
			}
		}
		time.Sleep(600 * time.Millisecond)
		rig.Wait()
		stats["broadcast_sessions"] += int64(nSess)
		stats["broadcast_messages"] += int64(len(sent))
		for k, cl := range cls {
			got := cl.Messages()
			if len(got) != len(sent) {
				key, msg = "c01-message-lost", fmt.Sprintf("broadcast of %d messages (shared options with a pre-encoded frame): session %d (%s) received %d", len(sent), k, cl.Cfg.Transport, len(got))
				return
			}
			for i := range sent {
				if got[i].P.Binary != sent[i].binary {
					key, msg = "c01-kind-changed", fmt.Sprintf("broadcast message %d: sent binary=%v, session %d (%s) received binary=%v", i, sent[i].binary, k, cl.Cfg.Transport, got[i].P.Binary)
					return
				}
				if !bytes.Equal(got[i].P.Data, sent[i].payload) {
					key, msg = "c01-bytes-changed", fmt.Sprintf("broadcast message %d (%d bytes, options object shared by all sessions): session %d (%s) received %d bytes %q", i, len(sent[i].payload), k, cl.Cfg.Transport, len(got[i].P.Data), trunc(got[i].P.Data))
					return
				}
				stats["broadcast_messages_checked"]++
			}
			if s := w.SocketByID(cl.Sid); s == nil || s.ReadyState() != "open" {
				key, msg = "c01-session-closed", fmt.Sprintf("session %d closed during a broadcast", k)
				return
			}
		}
		for _, cl := range cls {
			cl.Stop()
		}
	})
	return
}

func TestC01(t *testing.T) {
	r := rep.New(t, "C01")
	defer r.Flush()
	if r.Lane == 3%r.Lanes {
		// the engine behind a types.HttpServer listening itself: HTTP/1.1, HTTP/2 (TLS) and HTTP/3 (QUIC) on loopback
		netLanes(r, r.N(4, 64))
	}
	r.Rule("PRNG sessions on the real server (virtual time): transport {polling, JSONP, WebSocket, WebTransport(in-memory stream)} x revision x b64 x Accept-Encoding x compression threshold x permessage-deflate x optional upgrade mid-stream x heartbeats, 1-3 sender goroutines each sending 1-80 messages (sizes 0..200000 around 125/126/1024/4096/8192/65535 boundaries, text/binary, four reader types, per-packet options incl. pre-encoded frames, bursts and gaps); every message carries (sender, n); the client decodes with the reference codec; oracle: per sender received == sent (order, bytes, kind, exactly once) after quiescence + 600 ms; distinct = configuration/shape signature")
	r.Assume("text sent on a revision-4 polling session never contains U+001E: the v4 payload format separates packets with it and defines no escaping")
	r.Assume("the upgrade probe reaches the server after it has finished accepting the candidate connection (1 ms of virtual latency); the opposite order is C08's subject")
	r.Assume("a conformant JSONP client of revision 3 requests base64 (b64=1), as the reference client does")
	r.Assume("bounded restatement of 'eventually': all messages must have arrived 600 ms (virtual) after the last Send returned, with the client polling continuously")
	if r.Lane == 1%r.Lanes {
		// whole sessions over real QUIC (OnWebTransportSession, real session object)
		quicMessages(r, 1, r.N(24, 960))
	}
	for i := 0; i < r.N(120, 6000); i++ {
		key, msg, stats := runC01Broadcast(r.CaseRand(101, i), r)
		r.Case(fmt.Sprintf("broadcast/%d/%d", stats["broadcast_sessions"], stats["broadcast_messages"]), stats["broadcast_messages_checked"] > 0)
		for k, v := range stats {
			r.Obs(k, v)
		}
		if key != "" {
			r.Violation(key, msg, map[string]any{"lane": "broadcast with shared pre-encoded options", "case": i, "seed": r.Seed, "lane_no": r.Lane})
		}
	}
	// a case that has not ended after a minute of real time (normal: milliseconds) is examined for a
	// goroutine spinning in library code (rep.Guard)
	r.Guard(60 * time.Second)
	n := r.N(700, 40000)
	for i := 0; i < n; i++ {
		if !r.Only(i) {
			continue
		}
		rng := r.CaseRand(1, i)
		c := genC01(rng, false)
		if i%10 == 9 {
			// gate lane: upgrade's noop check vs application flush
			c.Transport, c.JSONP, c.Upgrade, c.GateCheck = "polling", false, "websocket", true
			c.UpgradeAt = 0
			if c.Rev == 3 && !c.B64 {
				c.B64 = true
			}
		}
		c.Seed = fmt.Sprintf("seed=%d lane=%d case=%d", r.Seed, r.Lane, i)
		r.Begin(fmt.Sprint(i), c)
		key, msg, stats := runC01(c, rng, r)
		r.End(fmt.Sprint(i))
		r.Case(c01Sig(c), stats["messages_received"] > 0)
		for k, v := range stats {
			r.Obs(k, v)
		}
		r.Obs("sessions", 1)
		r.Obs("transport:"+c.Transport, 1)
		if c.Upgrade != "" {
			r.Obs("sessions_with_upgrade", 1)
		}
		if i < 2 {
			r.Sample(c)
		}
		if key != "" {
			r.Violation(key, msg, c)
		}
	}
	// dedicated lane for the known dependency defect (v3 XHR2 binary payload + non-ASCII text)
	nk := r.N(24, 400)
	for i := 0; i < nk; i++ {
		if !r.Only(100000 + i) {
			continue
		}
		rng := r.CaseRand(2, i)
		c := genC01(rng, true)
		c.Transport, c.Rev, c.B64, c.JSONP, c.Upgrade, c.GateCheck = "polling", 3, false, false, "", false
		c.Senders = [][]outMsg{{
			{Binary: true, Size: 20, Opt: "nil", Reader: "bytesbuf"},
			{Binary: false, Size: 30, Opt: "nil", Reader: "strbuf", NonASCII: true},
			{Binary: false, Size: 25, Opt: "nil", Reader: "strreader", NonASCII: true},
		}}
		c.Seed = fmt.Sprintf("seed=%d lane=%d known-lane case=%d", r.Seed, r.Lane, i)
		key, msg, stats := runC01(c, rng, r)
		r.Case("known-lane:"+c01Sig(c), stats["messages_received"] > 0)
		r.Obs("sessions_known_finding_lane", 1)
		if key != "" {
			r.Violation(key, msg, c)
		}
	}
	for k, v := range rig.HookHits() {
		r.Obs("hook:"+k, v)
	}
}
