package checks

import (
	"errors"
	"fmt"
	"io"
	"net/http"
	"net/http/httptest"
	"strings"
	"sync"
	"time"

	"github.com/zishang520/engine.io/v2/config"
	"github.com/zishang520/engine.io/v2/engine"
	"github.com/zishang520/engine.io/v2/types"
	webtrans "github.com/zishang520/engine.io/v2/webtransport"

	"verifh/rep"
	"verifh/rig"
)

// quicLanes drives engine.Server.OnWebTransportSession over real QUIC on 127.0.0.1 (real
// time).  which: "hostile" (C09), "gating" (C08), "admission" (C05).  Verdicts never depend
// on how long something took, only on bounded waits that are far above normal durations.
func quicLanes(r *rep.Report, which string) {
	so := &config.ServerOptions{}
	so.SetTransports(types.NewSet("polling", "websocket", "webtransport"))
	so.SetUpgradeTimeout(400 * time.Millisecond)
	so.SetPingInterval(time.Hour)
	so.SetPingTimeout(time.Hour)
	so.SetMaxHttpBufferSize(5000)
	deny := false
	var dmu sync.Mutex
	so.SetAllowRequest(func(*types.HttpContext) error {
		dmu.Lock()
		defer dmu.Unlock()
		if deny {
			return errors.New("not welcome")
		}
		return nil
	})
	eng := engine.NewServer(so)
	var mu sync.Mutex
	var conns []engine.Socket
	msgs := map[string][]string{}
	connErrs := 0
	eng.On("connection", func(a ...any) {
		s := a[0].(engine.Socket)
		mu.Lock()
		conns = append(conns, s)
		mu.Unlock()
		s.On("message", func(m ...any) {
			d, _ := rig.DataString(m[0].(io.Reader))
			mu.Lock()
			msgs[s.Id()] = append(msgs[s.Id()], d)
			mu.Unlock()
			s.Send(types.NewStringBufferString("echo:"+d), nil, nil)
		})
	})
	eng.On("connection_error", func(...any) { mu.Lock(); connErrs++; mu.Unlock() })
	q, err := rig.NewQuicWorld(eng)
	if err != nil {
		r.Obs("quic_lane_skipped_no_loopback_udp", 1)
		r.Assume("R-quic lanes skipped: loopback UDP could not be bound (" + err.Error() + ")")
		return
	}
	defer q.Close()
	defer eng.Close()
	waitFor := func(cond func() bool) bool {
		for i := 0; i < 300; i++ {
			if cond() {
				return true
			}
			time.Sleep(10 * time.Millisecond)
		}
		return cond()
	}
	pollingSession := func() (string, engine.Socket) {
		req := httptest.NewRequest("GET", "http://h/engine.io/?EIO=4&transport=polling", nil)
		rec := httptest.NewRecorder()
		mu.Lock()
		n := len(conns)
		mu.Unlock()
		eng.ServeHTTP(rec, req)
		mu.Lock()
		defer mu.Unlock()
		if len(conns) != n+1 {
			return "", nil
		}
		return conns[n].Id(), conns[n]
	}
	checkNoPanic := func(what string) bool {
		if l := q.Log(); strings.Contains(l, "panic serving") {
			i := strings.Index(l, "panic serving")
			r.Violationf("c09-handler-panic:OnWebTransportSession", map[string]string{"handshake": what}, "the WebTransport handshake %q made the handler panic (recovered by the HTTP/3 server): %s", what, l[i:min(len(l), i+900)])
			return false
		}
		return true
	}

	switch which {
	case "hostile":
		canarySid, canary := pollingSession()
		first := []struct {
			name   string
			binary bool
			data   string
		}{
			{"0null", false, "0null"}, {"0{}", false, "0{}"}, {"0[]", false, "0[]"}, {"0\"x\"", false, "0\"x\""}, {"0{\"sid\":5}", false, "0{\"sid\":5}"},
			{"0{\"sid\":\"unknown\"}", false, "0{\"sid\":\"unknown\"}"}, {"4hello", false, "4hello"}, {"empty text", false, ""}, {"binary 0", true, "0"},
			{"garbage", false, "\xff\xfe"}, {"oversize", false, "0" + strings.Repeat("x", 9000)}, {"0{broken", false, "0{\"sid\":"}, {"2probe", false, "2probe"},
		}
		for _, f := range first {
			c, err := q.DialWT(false)
			r.Case("quic/hostile/"+f.name, true)
			r.Obs("quic_hostile_handshakes", 1)
			if err != nil {
				r.Inconclusive("quic dial failed: " + err.Error())
				continue
			}
			mt := webtrans.TextMessage
			if f.binary {
				mt = webtrans.BinaryMessage
			}
			c.Conn.WriteMessage(mt, []byte(f.data))
			// the server must end this session (or answer); it must not crash or leak it
			_, _, rerr := c.ReadTimeout(3 * time.Second)
			if rerr != nil && strings.Contains(rerr.Error(), "timeout after") {
				r.Violationf("c09-webtransport-session-left-open", map[string]string{"handshake": f.name}, "after the hostile WebTransport handshake %q the server neither answered nor closed the session within 3 s", f.name)
			}
			c.Close()
			if !checkNoPanic(f.name) {
				break
			}
		}
		// no stream at all: the upgrade timeout must close the session
		c, err := q.DialWT(true)
		if err == nil {
			r.Case("quic/hostile/no-stream", true)
			select {
			case <-c.Session.Context().Done():
			case <-time.After(3 * time.Second):
				r.Violationf("c09-webtransport-session-left-open", map[string]string{"handshake": "no stream"}, "a WebTransport session that never opens a stream was not closed after the upgrade timeout")
			}
			c.Close()
		}
		if canary != nil {
			if canary.ReadyState() != "open" {
				r.Violationf("c09-other-session-disturbed", nil, "the polling canary is %s after the hostile WebTransport handshakes", canary.ReadyState())
			}
			mu.Lock()
			n := eng.ClientsCount()
			mu.Unlock()
			if n != 1 {
				r.Violationf("c09-hostile-handshake-created-session", nil, "client count %d after hostile handshakes (only the canary %s should exist)", n, canarySid)
			}
		}
	case "gating":
		// fresh WebTransport session
		c, err := q.DialWT(false)
		r.Case("quic/gating/fresh", true)
		if err != nil {
			r.Inconclusive("quic dial failed: " + err.Error())
			return
		}
		c.Conn.WriteMessage(webtrans.TextMessage, []byte("0"))
		_, data, rerr := c.ReadTimeout(3 * time.Second)
		if rerr != nil || !strings.HasPrefix(string(data), "0{") || !strings.Contains(string(data), `"upgrades":[]`) {
			r.Violationf("c06-webtransport-open-packet", nil, "fresh WebTransport handshake: first message %q err %v", data, rerr)
			c.Close()
			return
		}
		c.Conn.WriteMessage(webtrans.TextMessage, []byte("4ping-over-quic"))
		_, data, rerr = c.ReadTimeout(3 * time.Second)
		r.Obs("quic_fresh_sessions", 1)
		if rerr != nil || string(data) != "4echo:ping-over-quic" {
			r.Violationf("c01-webtransport-echo", nil, "echo over real WebTransport: %q err %v", data, rerr)
		}
		c.Close()
		if !waitFor(func() bool { return eng.ClientsCount() == 0 }) {
			r.Violationf("c04-webtransport-session-not-unregistered", nil, "client count %d after the WebTransport client closed its session", eng.ClientsCount())
		}
		// upgrade of a polling session
		sid, sock := pollingSession()
		if sock == nil {
			r.Inconclusive("no polling session")
			return
		}
		up, err := q.DialWT(false)
		r.Case("quic/gating/upgrade", true)
		if err != nil {
			r.Inconclusive("quic dial failed: " + err.Error())
			return
		}
		up.Conn.WriteMessage(webtrans.TextMessage, []byte(`0{"sid":"`+sid+`"}`))
		// a second candidate while the first is being entertained must be closed
		waitFor(func() bool { return sock.Upgrading() })
		second, err2 := q.DialWT(false)
		if err2 == nil {
			second.Conn.WriteMessage(webtrans.TextMessage, []byte(`0{"sid":"`+sid+`"}`))
			second.Conn.WriteMessage(webtrans.TextMessage, []byte("2probe"))
			_, d2, e2 := second.ReadTimeout(2 * time.Second)
			r.Case("quic/gating/second-candidate", true)
			if e2 == nil && string(d2) == "3probe" {
				r.Violationf("c08-two-candidates-entertained", nil, "a second WebTransport candidate for a session that is upgrading was answered with a probe pong")
			}
			second.Close()
		}
		up.Conn.WriteMessage(webtrans.TextMessage, []byte("2probe"))
		_, data, rerr = up.ReadTimeout(3 * time.Second)
		if rerr != nil || string(data) != "3probe" {
			r.Violationf("c08-conformant-upgrade-not-completed", nil, "WebTransport candidate probe: got %q err %v", data, rerr)
			up.Close()
			return
		}
		up.Conn.WriteMessage(webtrans.TextMessage, []byte("5"))
		if !waitFor(func() bool { return sock.Upgraded() && sock.Transport().Name() == "webtransport" }) {
			r.Violationf("c08-conformant-upgrade-not-completed", nil, "after probe/upgrade on a real WebTransport candidate: Upgraded()=%v transport %s", sock.Upgraded(), sock.Transport().Name())
		}
		r.Obs("quic_upgrades", 1)
		up.Conn.WriteMessage(webtrans.TextMessage, []byte("4after"))
		_, data, rerr = up.ReadTimeout(3 * time.Second)
		if rerr != nil || string(data) != "4echo:after" {
			r.Violationf("c08-upgraded-session-unusable", nil, "echo after the upgrade: %q err %v", data, rerr)
		}
		// a candidate for an already upgraded session, and one for an unknown session, are closed
		for _, target := range []string{sid, "nosuchsession"} {
			late, err3 := q.DialWT(false)
			if err3 != nil {
				continue
			}
			late.Conn.WriteMessage(webtrans.TextMessage, []byte(`0{"sid":"`+target+`"}`))
			late.Conn.WriteMessage(webtrans.TextMessage, []byte("2probe"))
			_, d3, e3 := late.ReadTimeout(2 * time.Second)
			r.Case("quic/gating/late-candidate/"+map[bool]string{true: "upgraded", false: "unknown"}[target == sid], true)
			if e3 == nil && string(d3) == "3probe" {
				r.Violationf("c08-late-candidate-entertained", nil, "a WebTransport candidate for sid %q (upgraded/unknown) was answered with a probe pong", target)
			}
			late.Close()
		}
		up.Close()
		checkNoPanic("gating")
	case "admission":
		dmu.Lock()
		deny = true
		dmu.Unlock()
		mu.Lock()
		ce0 := connErrs
		mu.Unlock()
		c, err := q.DialWT(false)
		r.Case("quic/admission/hook-denies", true)
		r.Obs("quic_admission_cases", 1)
		if err == nil {
			r.Violationf("c05-webtransport-hook-refusal", nil, "allowRequest refuses, yet the WebTransport session was established (status %d)", c.Status)
		} else if c.Status != http.StatusForbidden {
			r.Violationf("c05-webtransport-hook-refusal", nil, "allowRequest refuses: status %d (want 403), err %v", c.Status, err)
		}
		c.Close()
		mu.Lock()
		ce1 := connErrs
		mu.Unlock()
		if ce1-ce0 != 1 {
			r.Violationf("c05-connection-error-events", nil, "%d connection_error events for a refused WebTransport handshake", ce1-ce0)
		}
		if eng.ClientsCount() != 0 {
			r.Violationf("c05-rejected-request-created-session", nil, "client count %d", eng.ClientsCount())
		}
		checkNoPanic("admission")
	}
	_ = fmt.Sprint
}
