package checks

import (
	"fmt"
	"math/rand/v2"
	"runtime"
	"strings"
	"sync"
	"sync/atomic"
	"testing"
	"time"

	"github.com/zishang520/engine.io-go-parser/packet"
	"github.com/zishang520/engine.io/v2/config"
	"github.com/zishang520/engine.io/v2/engine"
	"github.com/zishang520/engine.io/v2/transports"
	"github.com/zishang520/engine.io/v2/types"

	"verifh/refcodec"
	"verifh/rep"
	"verifh/rig"
)

type c18Case struct {
	Transport string `json:"transport"`
	Sends     []int  `json:"sends"` // per send: gap ms (negative = with callback)
	Senders   int    `json:"senders"`
	Upgrade   bool   `json:"upgrade"`
	CloseAt   int    `json:"close_after_send"` // -1 none
	Discard   bool   `json:"close_discard"`
	Seed      string `json:"seed"`
}

func genC18(rng *rand.Rand) c18Case {
	c := c18Case{Transport: []string{"polling", "polling", "websocket", "webtransport"}[rng.IntN(4)], Senders: 1 + rng.IntN(2), CloseAt: -1}
	n := 2 + rng.IntN(14)
	for i := 0; i < n; i++ {
		g := []int{0, 0, 0, 1, 3, 40}[rng.IntN(6)]
		if rng.IntN(2) == 0 {
			g = -g - 1 // with callback
		}
		c.Sends = append(c.Sends, g)
	}
	c.Upgrade = c.Transport == "polling" && rng.IntN(3) == 0
	if rng.IntN(4) == 0 {
		c.CloseAt = rng.IntN(n)
		c.Discard = rng.IntN(2) == 0
	}
	return c
}

type cbRec struct {
	sender, n int
	seq       int64
	count     int
}

func runC18(c c18Case, r *rep.Report) (key, msg string, stats map[string]int64) {
	stats = map[string]int64{}
	var pan any
	func() {
		defer func() { pan = recover() }()
		rig.Bubble(r.T(), func() {
			so := &config.ServerOptions{}
			so.SetTransports(types.NewSet("polling", "websocket", "webtransport"))
			so.SetPingInterval(20 * time.Second)
			w := rig.NewWorld(rig.Options{Server: so})
			defer w.Finish()
			cl, err := w.Connect(rig.ClientCfg{Rev: 4, Transport: c.Transport})
			rig.Wait()
			sock := w.Socket(0)
			if err != nil || sock == nil {
				key, msg = "c18-handshake-failed", fmt.Sprint(err)
				return
			}
			sid := sock.Id()
			cl.StartReader()
			time.Sleep(time.Millisecond)
			rig.Wait()
			var mu sync.Mutex
			cbs := map[string]*cbRec{}
			var cbOrder []string
			sentWithCb := map[string]int64{} // id -> tap seq just before Send
			accepted := 0
			var wg sync.WaitGroup
			for g := 0; g < c.Senders; g++ {
				wg.Add(1)
				go func(g int) {
					defer wg.Done()
					for i, gap := range c.Sends {
						if i%c.Senders != g {
							continue
						}
						withCb := gap < 0
						if withCb {
							gap = -gap - 1
						}
						if gap > 0 {
							time.Sleep(time.Duration(gap) * time.Millisecond)
						}
						id := fmt.Sprintf("%d:%d", g, i)
						var cb engine.SendCallback
						if withCb {
							rec := &cbRec{sender: g, n: i}
							mu.Lock()
							cbs[id] = rec
							sentWithCb[id] = w.Tap.Add(rig.Event{Kind: "harness:send", Sid: sid, Str: id})
							mu.Unlock()
							cb = func(transports.Transport) {
								seq := w.Tap.Add(rig.Event{Kind: "harness:callback", Sid: sid, Str: id})
								mu.Lock()
								rec.count++
								rec.seq = seq
								cbOrder = append(cbOrder, id)
								mu.Unlock()
							}
						}
						if sock.ReadyState() == "open" {
							mu.Lock()
							accepted++
							mu.Unlock()
						}
						sock.Send(types.NewStringBufferString("m"+id), nil, cb)
						if c.CloseAt == i {
							sock.Close(c.Discard)
						}
					}
				}(g)
			}
			if c.Upgrade {
				go func() {
					time.Sleep(2 * time.Millisecond)
					cl.UpgradeTo("websocket", nil)
				}()
			}
			wg.Wait()
			for i := 0; i < 5; i++ {
				time.Sleep(100 * time.Millisecond)
				rig.Wait()
			}
			if c.CloseAt >= 0 {
				time.Sleep(31 * time.Second)
				rig.Wait()
			}
			// ---- the monitor over the tap log ----
			evs := w.Tap.Of(sid)
			idOf := map[*packet.Packet]string{}
			created := map[*packet.Packet]int{}
			flushed := map[*packet.Packet]int{}
			flushSeqOf := map[string]int64{} // message id -> seq of the flush event carrying it
			var pattern []string
			var closeSeq int64
			var closeAt time.Duration
			cbAt := map[string]time.Duration{}
			var lastFlushBatch []*packet.Packet
			for _, e := range evs {
				switch e.Kind {
				case "packetCreate":
					p := e.Args[0].(*packet.Packet)
					created[p]++
					stats["packets_created"]++
					if strings.HasPrefix(e.Str, "message:m") {
						idOf[p] = strings.TrimPrefix(e.Str, "message:m")
					}
					if flushed[p] > 0 {
						key, msg = "c18-packetcreate-after-flush", "a packet appeared in a flush event before its packetCreate event"
						return
					}
				case "flush":
					pattern = append(pattern, "F")
					b := e.Args[0].([]*packet.Packet)
					lastFlushBatch = b
					stats["handoffs"]++
					if len(b) == 0 {
						key, msg = "c18-empty-flush", "flush event with an empty batch"
						return
					}
					for _, p := range b {
						flushed[p]++
						if flushed[p] > 1 {
							key, msg = "c18-packet-flushed-twice", fmt.Sprintf("packet %s:%v handed over twice", p.Type, e.Str)
							return
						}
						if id, ok := idOf[p]; ok {
							flushSeqOf[id] = e.Seq
						}
					}
				case "srv:flush":
					pattern = append(pattern, "SF")
					b := e.Args[1].([]*packet.Packet)
					if len(pattern) >= 2 && pattern[len(pattern)-2] == "F" {
						same := len(b) == len(lastFlushBatch)
						for i := range b {
							if same && b[i] != lastFlushBatch[i] {
								same = false
							}
						}
						if !same {
							key, msg = "c18-server-flush-batch-differs", "the server's flush event carries other packets than the session's"
							return
						}
					}
				case "drain":
					pattern = append(pattern, "D")
				case "srv:drain":
					pattern = append(pattern, "SD")
				case "close":
					closeSeq = e.Seq
					closeAt = e.At
				case "harness:callback":
					cbAt[e.Str] = e.At
				}
			}
			// the open packet's hand-off happened before the session was announced: its
			// server-level events may lead the pattern
			ps := strings.Join(pattern, " ") + " "
			ps = strings.TrimPrefix(ps, "SF SD ")
			ps = strings.TrimPrefix(ps, "SD ")
			ps = strings.TrimSpace(ps)
			if strings.ReplaceAll(ps+" ", "F SF D SD ", "") != "" && ps != "" {
				key, msg = "c18-flush-drain-order", fmt.Sprintf("event order per hand-off must be flush, server flush, drain, server drain; observed: %s", ps)
				return
			}
			for p, n := range created {
				if n != 1 {
					key, msg = "c18-packetcreate-count", fmt.Sprintf("packetCreate fired %d times for one packet (%s)", n, p.Type)
					return
				}
			}
			for p := range flushed {
				if created[p] == 0 && p.Type != packet.OPEN {
					// created before the monitor was attached? only the open packet may be
					if d, _ := rig.DataString(p.Data); !strings.HasPrefix(d, "") {
						_ = d
					}
					key, msg = "c18-flushed-packet-never-created", fmt.Sprintf("a %s packet was handed over without a packetCreate event", p.Type)
					return
				}
			}
			nCreatedMsgs := 0
			for p := range created {
				if p.Type == packet.MESSAGE {
					nCreatedMsgs++
				}
			}
			if closeSeq == 0 {
				if nCreatedMsgs != accepted {
					key, msg = "c18-packetcreate-per-send", fmt.Sprintf("%d accepted Send calls, %d message packetCreate events", accepted, nCreatedMsgs)
					return
				}
				for p := range created {
					if flushed[p] == 0 {
						key, msg = "c18-conservation", fmt.Sprintf("a created %s packet was never handed to the transport although the session is open and the client kept reading", p.Type)
						return
					}
				}
			}
			// callbacks
			mu.Lock()
			defer mu.Unlock()
			lastPerSender := map[int]int{}
			for _, id := range cbOrder {
				rec := cbs[id]
				stats["callbacks_run"]++
				if rec.count > 1 {
					key, msg = "c18-callback-ran-twice", fmt.Sprintf("send callback of message %s ran %d times", id, rec.count)
					return
				}
				fs, ok := flushSeqOf[id]
				if !ok || rec.seq < fs {
					key, msg = "c18-callback-before-flush", fmt.Sprintf("send callback of message %s ran (seq %d) before the flush event of its batch (seq %d, found=%v)", id, rec.seq, fs, ok)
					return
				}
				if closeSeq != 0 && rec.seq > closeSeq && cbAt[id] > closeAt {
					// (a callback released by a drain that raced with the close may be logged a few
					// events after it at the same virtual instant; "late" means at a later instant)
					key, msg = "c18-callback-after-close", fmt.Sprintf("send callback of message %s ran at %v, after the close event at %v", id, cbAt[id], closeAt)
					return
				}
				if last, ok := lastPerSender[rec.sender]; ok && rec.n < last {
					key, msg = "c18-callback-order", fmt.Sprintf("sender %d: callback of send %d ran after the callback of send %d", rec.sender, rec.n, last)
					return
				}
				lastPerSender[rec.sender] = rec.n
			}
			if closeSeq == 0 {
				for id, rec := range cbs {
					if rec.count == 0 {
						// not demanded by the statement ("at most once"); recorded as an observation
						stats["callbacks_never_run_on_open_session"]++
						_ = id
					}
				}
			}
			cl.Stop()
		})
	}()
	if pan != nil {
		return "c18-panic", fmt.Sprint(pan), stats
	}
	return
}

// runC18DrainAcrossUpgrade holds the polling transport's writer goroutine inside onDrain, after
// it has taken the callback group of the last polling batch (hook socket.onDrain.afterShift),
// completes an upgrade to WebSocket and sends again: the callback of the later send must not
// run before the callback of the earlier one.
func runC18DrainAcrossUpgrade(r *rep.Report) (key, msg string, held bool) {
	rig.Bubble(r.T(), func() {
		so := &config.ServerOptions{}
		so.SetTransports(types.NewSet("polling", "websocket"))
		so.SetPingInterval(20 * time.Second)
		w := rig.NewWorld(rig.Options{Server: so})
		defer w.Finish()
		cl, err := w.Connect(rig.ClientCfg{Rev: 4, Transport: "polling"})
		rig.Wait()
		sock := w.Socket(0)
		if err != nil || sock == nil {
			key, msg = "c18-handshake-failed", fmt.Sprint(err)
			return
		}
		var mu sync.Mutex
		var order []string
		cb := func(id string) engine.SendCallback {
			return func(transports.Transport) { mu.Lock(); order = append(order, id); mu.Unlock() }
		}
		// one poll takes m0; the client does not poll again (it is about to upgrade)
		x := cl.PollStart()
		time.Sleep(time.Millisecond)
		rig.Wait()
		w.Gate.Arm("socket.onDrain.afterShift", 1)
		sock.Send(types.NewStringBufferString("m0"), nil, cb("m0"))
		rig.Settle()
		if !x.Done() || len(w.Gate.Parked()) != 1 {
			r.Inconclusive("drain-across-upgrade: the polling writer was not held in onDrain")
			w.Gate.ReleaseAll()
			return
		}
		held = true
		// the writer goroutine owns the polling transport's mutex from here on: settle on real time
		cand := w.Candidate(sock.Id(), 4)
		if e := cand.DialCandidateWS(); e != nil {
			key, msg = "c18-handshake-failed", e.Error()
			w.Gate.ReleaseAll()
			return
		}
		rig.Settle()
		cand.WSWriteRaw(false, []byte("2probe"))
		rig.Settle()
		cand.WSWriteRaw(false, []byte("5"))
		rig.Settle()
		if !sock.Upgraded() {
			r.Inconclusive("drain-across-upgrade: the upgrade did not complete while the polling writer was held")
			w.Gate.ReleaseAll()
			return
		}
		sock.Send(types.NewStringBufferString("m1"), nil, cb("m1"))
		rig.Settle()
		rig.Settle()
		w.Gate.ReleaseAll()
		time.Sleep(100 * time.Millisecond)
		rig.Wait()
		mu.Lock()
		got := strings.Join(order, ",")
		mu.Unlock()
		if got != "m0,m1" && got != "m0" {
			key, msg = "c18-callback-order", fmt.Sprintf("the polling writer is between taking m0's callback group and running it when the upgrade completes and m1 is sent over WebSocket: callbacks ran in the order [%s]", got)
		}
		cl.Stop()
	})
	return
}

// ---------- re-entrancy (real time, outside a bubble) ----------

var reEvents = []string{"packetCreate", "flush", "drain", "message", "heartbeat", "close", "srv:flush", "srv:drain", "srv:connection", "callback", "upgrade"}
var reActions = []string{"Send", "Close(false)", "Close(true)"}

// runReentrancy registers a listener on event that performs action on the session once,
// triggers the event, and waits (real time) for the goroutine that emitted it to come back.
func runReentrancy(event, action, transport string, late bool) (key, msg string, reached bool) {
	return runReentrancyVariant(event, action, transport, late, false)
}

// runReentrancyVariant: with probing, an upgrade candidate has sent its probe and been answered
// (the session's forced-poll interval is ticking every 100 ms) and the listener's action comes
// only after 350 ms, i.e. with several ticks of that interval due while the listener still runs.
func runReentrancyVariant(event, action, transport string, late, probing bool) (key, msg string, reached bool) {
	so := &config.ServerOptions{}
	so.SetPingInterval(time.Hour)
	so.SetPingTimeout(time.Hour)
	so.SetUpgradeTimeout(2 * time.Second)
	var once atomic.Bool
	var entered, returned atomic.Bool
	act := func(s engine.Socket) {
		if !once.CompareAndSwap(false, true) {
			return
		}
		entered.Store(true)
		if late {
			// not at once: by now the client has received what was sent and has polled again (or
			// written its next frame), so the transport is in its "request pending" state
			time.Sleep(30 * time.Millisecond)
		}
		if probing {
			time.Sleep(350 * time.Millisecond)
		}
		switch action {
		case "Send":
			s.Send(types.NewStringBufferString("re-entrant"), nil, nil)
		case "Close(false)":
			s.Close(false)
		case "Close(true)":
			s.Close(true)
		}
		returned.Store(true)
	}
	w := rig.NewWorld(rig.Options{Server: so, OnConnection: func(s engine.Socket) {
		switch event {
		case "srv:connection":
			act(s)
		case "packetCreate", "flush", "drain", "message", "heartbeat", "close", "upgrade":
			s.On(types.EventName(event), func(...any) { act(s) })
		}
	}})
	defer w.FinishReal()
	switch event {
	case "srv:flush":
		w.Eng.On("flush", func(a ...any) {
			if w.Socket(0) != nil { // not the open packet's hand-off
				act(a[0].(engine.Socket))
			}
		})
	case "srv:drain":
		w.Eng.On("drain", func(a ...any) {
			if w.Socket(0) != nil {
				act(a[0].(engine.Socket))
			}
		})
	}
	if transport != "polling" && event == "upgrade" {
		return "", "", false
	}
	cl, err := w.Connect(rig.ClientCfg{Rev: 4, Transport: transport})
	if err != nil {
		if event == "srv:connection" && action != "Send" {
			// the connection listener closed the session: whether the client still gets its open
			// packet is a race the statement does not decide; what is judged is that the listener's
			// own call came back
			dl := time.Now().Add(3 * time.Second)
			for time.Now().Before(dl) && !(entered.Load() && returned.Load()) {
				time.Sleep(2 * time.Millisecond)
			}
			if returned.Load() {
				return "", "", true
			}
			if proof := reentrancyProof(); proof != "" {
				return fmt.Sprintf("c18-listener-reentrancy-deadlock:%s:%s", event, action), fmt.Sprintf("a %s listener calling %s on a %s session never returned; three seconds later its goroutine is still waiting for a lock: %s", event, action, transport, proof), true
			}
			return "", "inconclusive: action did not return within 3 s but the dump shows no self-deadlock", true
		}
		return "c18-handshake-failed", err.Error(), false
	}
	deadline := time.Now().Add(3 * time.Second)
	var sock engine.Socket
	for sock == nil && time.Now().Before(deadline) {
		sock = w.Socket(0)
		time.Sleep(time.Millisecond)
	}
	if sock == nil {
		return "c18-handshake-failed", "no connection event", false
	}
	cl.StartReader()
	time.Sleep(5 * time.Millisecond)
	if probing {
		cand := w.Candidate(sock.Id(), 4)
		if e := cand.DialCandidateWS(); e != nil {
			return "", "", false
		}
		cand.WSWriteRaw(false, []byte("2probe"))
		cand.WS.SetReadDeadline(time.Now().Add(3 * time.Second))
		if _, d, e := cand.WS.ReadMessage(); e != nil || string(d) != "3probe" {
			return "", "", false
		}
		time.Sleep(10 * time.Millisecond)
	}
	trigger := func() {
		switch event {
		case "packetCreate", "flush", "drain", "srv:flush", "srv:drain":
			sock.Send(types.NewStringBufferString("trigger"), nil, nil)
		case "callback":
			sock.Send(types.NewStringBufferString("trigger"), nil, func(transports.Transport) { act(sock) })
		case "message":
			cl.Send(refcodec.Text(refcodec.Message, "trigger"))
		case "heartbeat":
			cl.Send(refcodec.Packet{Type: refcodec.Pong})
		case "close":
			sock.Close(true)
		case "upgrade":
			cl.UpgradeTo("websocket", nil)
		}
	}
	done := make(chan struct{})
	go func() { defer close(done); trigger() }()
	// wait for the action to have been entered and to come back
	for time.Now().Before(deadline) && !(entered.Load() && returned.Load()) {
		time.Sleep(2 * time.Millisecond)
	}
	if !entered.Load() {
		cl.Stop()
		return "", "", false
	}
	if !returned.Load() {
		proof := reentrancyProof()
		if proof == "" {
			// not waiting for a lock: is it at a standstill?  35 s is longer than every timer of the
			// scenario (upgrade timeout 2 s, the transports' 30 s close timeout; heartbeats are off)
			if st := rig.Standstill("runReentrancyVariant.func1", 35*time.Second); st != "" && !returned.Load() {
				cl.Stop()
				return fmt.Sprintf("c18-listener-reentrancy-deadlock:%s:%s", event, action), fmt.Sprintf("a %s listener calling %s on a %s session never returned: 38 s later its goroutine is blocked at the very same place inside the library while the process sits idle: %s", event, action, transport, st), true
			}
		}
		cl.Stop()
		if proof == "" {
			if returned.Load() {
				return "", "", true
			}
			return "", fmt.Sprintf("inconclusive: a %s listener calling %s on a %s session (late=%v) did not return within 38 s but neither a lock wait nor a standstill could be proved (%s)", event, action, transport, late, rig.StandstillWhyNot), true
		}
		return fmt.Sprintf("c18-listener-reentrancy-deadlock:%s:%s", event, action), fmt.Sprintf("a %s listener calling %s on a %s session never returned; three seconds later its goroutine is still waiting for a lock: %s", event, action, transport, proof), true
	}
	cl.Stop()
	return "", "", true
}

// reentrancyProof looks for the goroutine that is inside the listener's action
// (runReentrancy.func1 = act) and still waiting to acquire a lock of the code under test.
func reentrancyProof() string {
	buf := make([]byte, 1<<20)
	n := runtime.Stack(buf, true)
	for _, g := range strings.Split(string(buf[:n]), "\n\n") {
		if strings.Contains(g, "runReentrancyVariant.func1") && (strings.Contains(g, "sync.(*Mutex).Lock") || strings.Contains(g, "sync.(*RWMutex).Lock") || strings.Contains(g, "sync.(*RWMutex).RLock")) {
			return rig.TopFrames(g, 14)
		}
	}
	return ""
}

func TestC18(t *testing.T) {
	r := rep.New(t, "C18")
	defer r.Flush()
	r.Rule("virtual-time sessions (polling, WebSocket, WebTransport; 1-2 sender goroutines; 2-15 sends with and without callbacks, bursts and gaps; optional upgrade; optional Close at a chosen send) monitored through the tap log: per hand-off exactly flush, server flush (same batch), drain, server drain in order; packetCreate once per accepted Send and before the packet is flushed; no packet flushed twice; conservation on open sessions; callbacks at most once, after their batch's flush event, in send order, never after close; plus the re-entrancy matrix {packetCreate, flush, drain, message, heartbeat, close, upgrade, server flush/drain/connection, send callback} x {Send, Close(false), Close(true)} x {polling, WebSocket} on real time with a goroutine-dump proof rule, also while an upgrade candidate is being probed and the listener runs for 350 ms (several ticks of the forced-poll interval fall due meanwhile); distinct = case signature / matrix cell")
	r.Assume("a send callback that never runs on an open session is recorded, not judged: the statement bounds callbacks from above (at most once, not before, in order)")
	n := r.N(2500, 200000)
	for i := 0; i < n; i++ {
		if !r.Only(i) {
			continue
		}
		rng := r.CaseRand(18, i)
		c := genC18(rng)
		c.Seed = fmt.Sprintf("seed=%d lane=%d case=%d", r.Seed, r.Lane, i)
		key, msg, stats := runC18(c, r)
		r.Case(fmt.Sprintf("%s/%v/%d/%v/%d/%v", c.Transport, c.Sends, c.Senders, c.Upgrade, c.CloseAt, c.Discard), stats["handoffs"] > 0)
		for k, v := range stats {
			r.Obs(k, v)
		}
		if i < 2 {
			r.Sample(c)
		}
		if key != "" {
			r.Violation(key, msg, c)
		}
	}
	if r.Lane == 3%r.Lanes {
		for k := 0; k < r.N(8, 200); k++ {
			key, msg, held := runC18DrainAcrossUpgrade(r)
			r.Case("drain-across-upgrade", true)
			if held {
				r.Obs("gate:polling_writer_held_in_onDrain_across_upgrade", 1)
			}
			if key != "" {
				r.Violation(key, msg, map[string]string{"lane": "drain-across-upgrade"})
			}
		}
	}
	pc := 0
	for _, ev := range []string{"flush", "drain", "srv:flush", "srv:drain", "callback", "packetCreate"} {
		for _, ac := range reActions {
			idx := pc
			pc++
			if !r.Mine(idx) || !r.Thorough() && (idx+int(r.Seed))%3 != 0 {
				continue // quick: a third of these slow cells per run (each takes half a second)
			}
			id := fmt.Sprintf("reentrancy-probing-%s-%s", ev, ac)
			r.Begin(id, map[string]any{"event": ev, "action": ac, "transport": "polling", "probing": true})
			key, msg, reached := runReentrancyVariant(ev, ac, "polling", false, true)
			r.End(id)
			r.Case(fmt.Sprintf("re/polling+probe/%s/%s", ev, ac), reached)
			if reached {
				r.Obs("reentrancy_cells_exercised_while_an_upgrade_is_probed", 1)
			}
			if key != "" {
				r.Violation(key, msg, map[string]any{"event": ev, "action": ac, "transport": "polling", "upgrade_probe_in_progress": true, "listener_runs_for_ms": 350})
			} else if msg != "" {
				r.Inconclusive(msg)
			}
		}
	}
	cell := 0
	for _, tr := range []string{"polling", "websocket"} {
		for _, ev := range reEvents {
			for _, ac := range reActions {
				for _, late := range []bool{false, true} {
					idx := cell
					cell++
					if !r.Mine(idx) {
						continue
					}
					id := fmt.Sprintf("reentrancy-%s-%s-%s-late=%v", tr, ev, ac, late)
					r.Begin(id, map[string]any{"event": ev, "action": ac, "transport": tr, "late": late})
					key, msg, reached := runReentrancy(ev, ac, tr, late)
					r.End(id)
					r.Case(fmt.Sprintf("re/%s/%s/%s/late=%v", tr, ev, ac, late), reached)
					if reached {
						r.Obs("reentrancy_cells_exercised", 1)
					} else {
						r.Obs("reentrancy_cells_not_reached", 1)
					}
					if key != "" {
						r.Violation(key, msg, map[string]any{"event": ev, "action": ac, "transport": tr, "action_delayed_until_the_client_has_polled_again": late})
					} else if msg != "" {
						r.Inconclusive(msg)
					}
				}
			}
		}
	}
}
