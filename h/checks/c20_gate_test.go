package checks

import (
	"fmt"
	"time"

	"github.com/zishang520/engine.io/v2/types"

	"verifh/rep"
	"verifh/rig"
)

// mapSlowPathVsPromotion holds one operation of types.Map in its slow path, just before it takes
// the map's lock (hook map.slowPath), lets the dirty map be promoted to the read map meanwhile,
// and releases it.  Nothing else touches the key, so the result is determined: the operation must
// see the key that moved from the dirty map to the read map while it was waiting.
func mapSlowPathVsPromotion(r *rep.Report, op string) (key, msg string, held bool) {
	m := &types.Map[string, int]{}
	m.Store("a", 1)
	m.Load("a") // miss -> promotion: read = {a}
	m.Load("a")
	m.Store("k", 2) // k lives in the dirty map only
	g := rig.NewGate()
	g.Watch(m)
	defer g.Close()
	g.Arm("map.slowPath", 1)
	type res struct {
		v      int
		ok     bool
		doneAt time.Time
	}
	out := make(chan res, 1)
	go func() {
		var v int
		var ok bool
		switch op {
		case "Load":
			v, ok = m.Load("k")
		case "LoadOrStore":
			v, ok = m.LoadOrStore("k", 9)
		case "LoadAndDelete":
			v, ok = m.LoadAndDelete("k")
		case "Delete":
			m.Delete("k")
			v, ok = 2, true
		case "Swap":
			v, ok = m.Swap("k", 7)
		case "Store":
			m.Store("k", 7)
			v, ok = 2, true
		case "CompareAndSwap":
			ok = m.CompareAndSwap("k", 2, 5)
			v = 2
		case "CompareAndDelete":
			ok = m.CompareAndDelete("k", 2)
			v = 2
		}
		out <- res{v, ok, time.Now()}
	}()
	deadline := time.Now().Add(5 * time.Second)
	for len(g.Parked()) == 0 && time.Now().Before(deadline) {
		rig.Settle()
	}
	if len(g.Parked()) != 1 {
		g.ReleaseAll()
		<-out
		return "", "", false
	}
	held = true
	// promote: two more misses on k (these arrivals are not held, the point was armed for one)
	for i := 0; i < 4; i++ {
		m.Load("k")
	}
	g.ReleaseAll()
	got := <-out
	if !got.ok || got.v != 2 {
		return "map-slow-path-vs-promotion:" + op, fmt.Sprintf("%s(k) held before taking the lock while the dirty map (holding k=2) was promoted: returned (%d, %v), want the entry k=2", op, got.v, got.ok), true
	}
	after, present := m.Load("k")
	want, wantPresent := 2, true
	switch op {
	case "LoadAndDelete", "Delete", "CompareAndDelete":
		wantPresent = false
	case "Swap", "Store":
		want = 7
	case "CompareAndSwap":
		want = 5
	}
	if present != wantPresent || (present && after != want) {
		return "map-slow-path-vs-promotion:" + op, fmt.Sprintf("after %s(k) (held across a promotion): Load(k) = (%d, %v), want (%d, %v)", op, after, present, want, wantPresent), true
	}
	if n := m.Len(); (wantPresent && n != 2) || (!wantPresent && n != 1) {
		return "map-slow-path-vs-promotion:" + op, fmt.Sprintf("after %s(k) (held across a promotion): Len() = %d", op, n), true
	}
	return "", "", true
}

var mapSlowOps = []string{"Load", "LoadOrStore", "LoadAndDelete", "Delete", "Swap", "Store", "CompareAndSwap", "CompareAndDelete"}
