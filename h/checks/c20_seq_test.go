package checks

import (
	"encoding/json"
	"fmt"
	"math"
	"math/rand/v2"
	"reflect"
	"sort"
	"strings"
	"sync"

	"github.com/zishang520/engine.io/v2/events"
	"github.com/zishang520/engine.io/v2/types"

	"verifh/rep"
)

// ---------- Slice model ----------

// extreme returns v, or now and then an integer at the edge of the range: indices and counts
// such as math.MaxInt ("to the end") must be clamped or refused like any other, never overflow.
func extreme(rng *rand.Rand, v int) int {
	if rng.IntN(8) != 0 {
		return v
	}
	return []int{math.MaxInt, math.MaxInt - 1, math.MaxInt/2 + 1, math.MinInt, math.MinInt + 1, 1 << 40, -(1 << 40)}[rng.IntN(7)]
}

const sentinel = -777777

type callerSlice struct {
	arr []int // full-capacity view of an array handed to the Slice
	op  string
}

func tryOp(f func()) (panicked any) {
	defer func() { panicked = recover() }()
	f()
	return nil
}

func eqInts(a, b []int) bool {
	if len(a) != len(b) {
		return false
	}
	for i := range a {
		if a[i] != b[i] {
			return false
		}
	}
	return true
}

// seqSlice runs one model-based sequence on types.Slice[int].
func seqSlice(rng *rand.Rand, nops int) (key, msg string, trace []string) {
	var model []int
	initial := make([]int, rng.IntN(4))
	for i := range initial {
		initial[i] = 1000 + i
	}
	model = append(model, initial...)
	s := types.NewSlice(append([]int(nil), initial...)...)
	next := 1
	var handed []callerSlice
	fresh := func(n int) (view []int, full []int) {
		spare := rng.IntN(6)
		full = make([]int, n+spare)
		for i := 0; i < n; i++ {
			full[i] = next
			next++
		}
		for i := n; i < len(full); i++ {
			full[i] = sentinel
		}
		return full[:n:len(full)], full
	}
	check := func(op string) (string, string) {
		got := s.All()
		name := strings.SplitN(op, "(", 2)[0]
		if !eqInts(got, model) {
			for _, v := range got {
				if v == sentinel && len(handed) > 0 {
					return "slice-shares-caller-storage:" + handed[len(handed)-1].op, fmt.Sprintf("after %s: contents %v, reference %v: the container reads the caller's array (overwritten with a sentinel by its owner after the call)", op, got, model)
				}
			}
			return "slice-model-mismatch:" + name, fmt.Sprintf("after %s: contents %v, reference %v", op, got, model)
		}
		if l := s.Len(); l != len(model) {
			return "slice-len-mismatch:" + name, fmt.Sprintf("after %s: Len %d, reference %d", op, l, len(model))
		}
		return "", ""
	}
	for i := 0; i < nops; i++ {
		var op string
		var k, m string
		var pan any
		switch rng.IntN(22) {
		case 0, 1:
			n := rng.IntN(4)
			view, full := fresh(n)
			vals := append([]int(nil), view...)
			op = fmt.Sprintf("Push(%v cap+%d)", vals, cap(view)-len(view))
			var ret int
			pan = tryOp(func() { ret = s.Push(view...) })
			model = append(model, vals...)
			if pan == nil && ret != len(model) {
				k, m = "slice-return-mismatch:Push", fmt.Sprintf("%s returned %d, want %d", op, ret, len(model))
			}
			for j := range full {
				full[j] = sentinel
			}
			handed = append(handed, callerSlice{full, "Push"})
		case 2, 3:
			n := rng.IntN(4)
			view, full := fresh(n)
			vals := append([]int(nil), view...)
			op = fmt.Sprintf("Unshift(%v cap+%d)", vals, cap(view)-len(view))
			var ret int
			pan = tryOp(func() { ret = s.Unshift(view...) })
			model = append(append([]int(nil), vals...), model...)
			if pan == nil && ret != len(model) {
				k, m = "slice-return-mismatch:Unshift", fmt.Sprintf("%s returned %d, want %d", op, ret, len(model))
			}
			for j := range full {
				full[j] = sentinel
			}
			handed = append(handed, callerSlice{full, "Unshift"})
		case 4:
			op = "Pop()"
			var v int
			var err error
			pan = tryOp(func() { v, err = s.Pop() })
			if len(model) == 0 {
				if pan == nil && err == nil {
					k, m = "slice-missing-error:Pop", "Pop on empty slice returned no error"
				}
			} else {
				w := model[len(model)-1]
				model = model[:len(model)-1]
				if pan == nil && (err != nil || v != w) {
					k, m = "slice-return-mismatch:Pop", fmt.Sprintf("Pop returned (%d,%v), want %d", v, err, w)
				}
			}
		case 5:
			op = "Shift()"
			var v int
			var err error
			pan = tryOp(func() { v, err = s.Shift() })
			if len(model) == 0 {
				if pan == nil && err == nil {
					k, m = "slice-missing-error:Shift", "Shift on empty slice returned no error"
				}
			} else {
				w := model[0]
				model = model[1:]
				if pan == nil && (err != nil || v != w) {
					k, m = "slice-return-mismatch:Shift", fmt.Sprintf("Shift returned (%d,%v), want %d", v, err, w)
				}
			}
		case 6:
			idx := extreme(rng, rng.IntN(len(model)+4)-2)
			op = fmt.Sprintf("Get(%d)", idx)
			var v int
			var err error
			pan = tryOp(func() { v, err = s.Get(idx) })
			if idx < 0 || idx >= len(model) {
				if pan == nil && err == nil {
					k, m = "slice-missing-error:Get", op+" out of range returned no error"
				}
			} else if pan == nil && (err != nil || v != model[idx]) {
				k, m = "slice-return-mismatch:Get", fmt.Sprintf("%s returned (%d,%v), want %d", op, v, err, model[idx])
			}
		case 7:
			idx := extreme(rng, rng.IntN(len(model)+4)-2)
			val := next
			next++
			op = fmt.Sprintf("Set(%d,%d)", idx, val)
			var err error
			pan = tryOp(func() { err = s.Set(idx, val) })
			if idx < 0 || idx >= len(model) {
				if pan == nil && err == nil {
					k, m = "slice-missing-error:Set", op+" out of range returned no error"
				}
			} else {
				model = append([]int(nil), model...)
				model[idx] = val
				if pan == nil && err != nil {
					k, m = "slice-return-mismatch:Set", fmt.Sprintf("%s returned %v", op, err)
				}
			}
		case 8:
			a := extreme(rng, rng.IntN(len(model)+4)-2)
			b := extreme(rng, rng.IntN(len(model)+4)-2)
			op = fmt.Sprintf("Slice(%d,%d)", a, b)
			var v []int
			var err error
			pan = tryOp(func() { v, err = s.Slice(a, b) })
			if a < 0 || b > len(model) || a > b {
				if pan == nil && err == nil {
					k, m = "slice-missing-error:Slice", op+" invalid range returned no error"
				}
			} else if pan == nil {
				if err != nil || !eqInts(v, model[a:b]) {
					k, m = "slice-return-mismatch:Slice", fmt.Sprintf("%s returned (%v,%v), want %v", op, v, err, model[a:b])
				}
				for j := range v {
					v[j] = sentinel
				}
			}
		case 9, 10, 11:
			start := extreme(rng, rng.IntN(len(model)+4)-2)
			del := extreme(rng, rng.IntN(len(model)+5)-2)
			n := rng.IntN(4)
			view, full := fresh(n)
			vals := append([]int(nil), view...)
			op = fmt.Sprintf("Splice(%d,%d,%v cap+%d)", start, del, vals, cap(view)-len(view))
			var removed []int
			var err error
			pan = tryOp(func() { removed, err = s.Splice(start, del, view...) })
			if start < 0 || start > len(model) || del < 0 {
				if pan == nil && err == nil {
					k, m = "slice-missing-error:Splice", op+" with invalid index/count returned no error"
				}
				if pan != nil {
					k, m = "slice-panic:Splice", fmt.Sprintf("%s panicked: %v", op, pan)
					pan = nil
					// the container may be in any state now; stop this sequence
					return k, m, append(trace, op)
				}
			} else {
				d := del
				if d > len(model)-start {
					d = len(model) - start
				}
				want := append([]int(nil), model[start:start+d]...)
				nm := append([]int(nil), model[:start]...)
				nm = append(nm, vals...)
				nm = append(nm, model[start+d:]...)
				model = nm
				if pan == nil && (err != nil || !eqInts(removed, want)) {
					k, m = "slice-return-mismatch:Splice", fmt.Sprintf("%s returned (%v,%v), want %v", op, removed, err, want)
				}
				for j := range removed {
					removed[j] = sentinel
				}
			}
			for j := range full {
				full[j] = sentinel
			}
			handed = append(handed, callerSlice{full, "Splice"})
		case 12:
			if len(model) == 0 {
				continue
			}
			target := model[rng.IntN(len(model))]
			op = fmt.Sprintf("Remove(==%d)", target)
			pan = tryOp(func() { s.Remove(func(v int) bool { return v == target }) })
			for j, v := range model {
				if v == target {
					model = append(append([]int(nil), model[:j]...), model[j+1:]...)
					break
				}
			}
		case 13:
			op = "RemoveAll(odd)"
			pan = tryOp(func() { s.RemoveAll(func(v int) bool { return v%2 != 0 }) })
			var nm []int
			for _, v := range model {
				if v%2 == 0 {
					nm = append(nm, v)
				}
			}
			model = nm
		case 14:
			rev := rng.IntN(2) == 0
			stop := rng.IntN(len(model) + 1)
			op = fmt.Sprintf("Range(rev=%v,stop=%d)", rev, stop)
			var seen []int
			var idxs []int
			pan = tryOp(func() {
				s.Range(func(v, i int) bool {
					seen = append(seen, v)
					idxs = append(idxs, i)
					return len(seen) < stop || stop == 0 && false
				}, rev)
			})
			var want []int
			if rev {
				for j := len(model) - 1; j >= 0; j-- {
					want = append(want, model[j])
				}
			} else {
				want = append(want, model...)
			}
			lim := stop
			if lim == 0 {
				lim = 1
			}
			if lim > len(want) {
				lim = len(want)
			}
			want = want[:lim]
			if pan == nil && !eqInts(seen, want) {
				k, m = "slice-return-mismatch:Range", fmt.Sprintf("%s visited %v, want %v", op, seen, want)
			}
		case 15:
			if len(model) == 0 {
				continue
			}
			pos := rng.IntN(len(model))
			target := model[pos]
			del := rng.IntN(3)
			if x := extreme(rng, del); x > 0 {
				del = x // "delete to the end" idioms: a count far beyond the length
			}
			n := rng.IntN(3)
			view, full := fresh(n)
			vals := append([]int(nil), view...)
			rev := rng.IntN(2) == 0
			op = fmt.Sprintf("RangeAndSplice(at ==%d,del %d,%v,rev=%v)", target, del, vals, rev)
			var removed []int
			var err error
			pan = tryOp(func() {
				removed, err = s.RangeAndSplice(func(v, i int) (bool, int, int, []int) {
					return v == target, i, del, view
				}, rev)
			})
			// first match in iteration order
			at := -1
			if rev {
				for j := len(model) - 1; j >= 0; j-- {
					if model[j] == target {
						at = j
						break
					}
				}
			} else {
				for j := range model {
					if model[j] == target {
						at = j
						break
					}
				}
			}
			d := del
			if d > len(model)-at {
				d = len(model) - at
			}
			want := append([]int(nil), model[at:at+d]...)
			nm := append([]int(nil), model[:at]...)
			nm = append(nm, vals...)
			nm = append(nm, model[at+d:]...)
			model = nm
			if pan == nil && (err != nil || !eqInts(removed, want)) {
				k, m = "slice-return-mismatch:RangeAndSplice", fmt.Sprintf("%s returned (%v,%v), want %v", op, removed, err, want)
			}
			for j := range full {
				full[j] = sentinel
			}
			handed = append(handed, callerSlice{full, "RangeAndSplice"})
		case 16:
			target := next + 5
			if len(model) > 0 && rng.IntN(2) == 0 {
				target = model[rng.IntN(len(model))]
			}
			op = fmt.Sprintf("FindIndex(==%d)", target)
			var idx int
			pan = tryOp(func() { idx = s.FindIndex(func(v int) bool { return v == target }) })
			want := -1
			for j, v := range model {
				if v == target {
					want = j
					break
				}
			}
			if pan == nil && idx != want {
				k, m = "slice-return-mismatch:FindIndex", fmt.Sprintf("%s = %d, want %d", op, idx, want)
			}
		case 17:
			op = "Filter(even)"
			var got []int
			pan = tryOp(func() { got = s.Filter(func(v int) bool { return v%2 == 0 }) })
			var want []int
			for _, v := range model {
				if v%2 == 0 {
					want = append(want, v)
				}
			}
			if pan == nil && !eqInts(got, want) {
				k, m = "slice-return-mismatch:Filter", fmt.Sprintf("Filter = %v, want %v", got, want)
			}
			for j := range got {
				got[j] = sentinel
			}
		case 18:
			op = "All()+mutate result"
			var got []int
			pan = tryOp(func() { got = s.All() })
			for j := range got {
				got[j] = sentinel
			}
		case 19:
			if rng.IntN(3) != 0 {
				continue
			}
			op = "AllAndClear()"
			var got []int
			pan = tryOp(func() { got = s.AllAndClear() })
			if pan == nil && !eqInts(got, model) {
				k, m = "slice-return-mismatch:AllAndClear", fmt.Sprintf("AllAndClear = %v, want %v", got, model)
			}
			for j := range got {
				got[j] = sentinel
			}
			model = nil
		case 20:
			if rng.IntN(4) != 0 {
				continue
			}
			op = "Clear()"
			pan = tryOp(func() { s.Clear() })
			model = nil
		case 21:
			op = "Len()"
		}
		trace = append(trace, op)
		if pan != nil {
			return "slice-panic:" + strings.SplitN(op, "(", 2)[0], fmt.Sprintf("%s panicked: %v", op, pan), trace
		}
		if k != "" {
			return k, m, trace
		}
		if k, m := check(op); k != "" {
			return k, m, trace
		}
		for _, h := range handed {
			for _, v := range h.arr {
				if v != sentinel {
					return "slice-shares-caller-storage:" + h.op, fmt.Sprintf("after %s the array passed to an earlier %s (overwritten with a sentinel by its owner) was written by the container: %v", op, h.op, h.arr), trace
				}
			}
		}
	}
	return "", "", trace
}

// ---------- Set ----------

func seqSet(rng *rand.Rand, nops int) (key, msg string, trace []string) {
	model := map[int]bool{}
	s := types.NewSet[int]()
	if rng.IntN(2) == 0 {
		s = types.NewSet(1, 2, 2)
		model[1], model[2] = true, true
	}
	for i := 0; i < nops; i++ {
		var op string
		var pan any
		switch rng.IntN(8) {
		case 0, 1:
			ks := []int{rng.IntN(6), rng.IntN(6)}[:1+rng.IntN(2)]
			op = fmt.Sprintf("Add(%v)", ks)
			pan = tryOp(func() { s.Add(ks...) })
			for _, k := range ks {
				model[k] = true
			}
		case 2:
			ks := []int{rng.IntN(6), rng.IntN(6)}[:1+rng.IntN(2)]
			op = fmt.Sprintf("Delete(%v)", ks)
			pan = tryOp(func() { s.Delete(ks...) })
			for _, k := range ks {
				delete(model, k)
			}
		case 3:
			k := rng.IntN(6)
			op = fmt.Sprintf("Has(%d)", k)
			var got bool
			pan = tryOp(func() { got = s.Has(k) })
			if pan == nil && got != model[k] {
				return "set-return-mismatch:Has", fmt.Sprintf("%s = %v, reference %v", op, got, model[k]), append(trace, op)
			}
		case 4:
			op = "All()+mutate result"
			pan = tryOp(func() {
				a := s.All()
				a[99] = types.NULL
				delete(a, 1)
			})
		case 5:
			if rng.IntN(4) == 0 {
				op = "Clear()"
				pan = tryOp(func() { s.Clear() })
				model = map[int]bool{}
			} else {
				op = "Len()"
			}
		case 6:
			op = "JSON round trip"
			pan = tryOp(func() {
				b, err := json.Marshal(s)
				if err != nil {
					panic(err)
				}
				s2 := types.NewSet[int]()
				if err := json.Unmarshal(b, s2); err != nil {
					panic(err)
				}
				s = s2
			})
		case 7:
			op = "Keys()"
		}
		trace = append(trace, op)
		if pan != nil {
			return "set-panic:" + strings.SplitN(op, "(", 2)[0], fmt.Sprintf("%s panicked: %v", op, pan), trace
		}
		keys := s.Keys()
		sort.Ints(keys)
		var want []int
		for k := range model {
			want = append(want, k)
		}
		sort.Ints(want)
		if !eqInts(keys, want) || s.Len() != len(want) {
			return "set-model-mismatch", fmt.Sprintf("after %s: keys %v len %d, reference %v", op, keys, s.Len(), want), trace
		}
	}
	return "", "", trace
}

// ---------- Map ----------

type mapDriver[V comparable] struct {
	name string
	mk   func(i int) V
}

func seqMap[V comparable](rng *rand.Rand, nops int, d mapDriver[V]) (key, msg string, trace []string) {
	model := map[string]V{}
	m := &types.Map[string, V]{}
	keys := []string{"a", "b", "c", "d"}
	var zero V
	tag := "map[" + d.name + "]-"
	for i := 0; i < nops; i++ {
		k := keys[rng.IntN(len(keys))]
		v := d.mk(rng.IntN(3))
		var op string
		var pan any
		var bad string
		switch rng.IntN(13) {
		case 0, 1:
			op = fmt.Sprintf("Store(%s,%v)", k, v)
			pan = tryOp(func() { m.Store(k, v) })
			model[k] = v
		case 2, 3:
			op = fmt.Sprintf("Load(%s)", k)
			var got V
			var ok bool
			pan = tryOp(func() { got, ok = m.Load(k) })
			w, wok := model[k]
			if pan == nil && (ok != wok || got != w) {
				bad = fmt.Sprintf("%s = (%v,%v), reference (%v,%v)", op, got, ok, w, wok)
			}
		case 4:
			op = fmt.Sprintf("LoadOrStore(%s,%v)", k, v)
			var got V
			var loaded bool
			pan = tryOp(func() { got, loaded = m.LoadOrStore(k, v) })
			w, wok := model[k]
			if !wok {
				model[k] = v
				w = v
			}
			if pan == nil && (loaded != wok || got != w) {
				bad = fmt.Sprintf("%s = (%v,%v), reference (%v,%v)", op, got, loaded, w, wok)
			}
		case 5:
			op = fmt.Sprintf("LoadAndDelete(%s)", k)
			var got V
			var loaded bool
			pan = tryOp(func() { got, loaded = m.LoadAndDelete(k) })
			w, wok := model[k]
			delete(model, k)
			if !wok {
				w = zero
			}
			if pan == nil && (loaded != wok || got != w) {
				bad = fmt.Sprintf("%s = (%v,%v), reference (%v,%v)", op, got, loaded, w, wok)
			}
		case 6:
			op = fmt.Sprintf("Delete(%s)", k)
			pan = tryOp(func() { m.Delete(k) })
			delete(model, k)
		case 7:
			op = fmt.Sprintf("Swap(%s,%v)", k, v)
			var got V
			var loaded bool
			pan = tryOp(func() { got, loaded = m.Swap(k, v) })
			w, wok := model[k]
			model[k] = v
			if !wok {
				w = zero
			}
			if pan == nil && (loaded != wok || got != w) {
				bad = fmt.Sprintf("%s = (%v,%v), reference (%v,%v)", op, got, loaded, w, wok)
			}
		case 8:
			old := d.mk(rng.IntN(3))
			op = fmt.Sprintf("CompareAndSwap(%s,%v,%v)", k, old, v)
			var got bool
			pan = tryOp(func() { got = m.CompareAndSwap(k, old, v) })
			w, wok := model[k]
			want := wok && w == old
			if want {
				model[k] = v
			}
			if pan == nil && got != want {
				bad = fmt.Sprintf("%s = %v, reference %v", op, got, want)
			}
		case 9:
			old := d.mk(rng.IntN(3))
			op = fmt.Sprintf("CompareAndDelete(%s,%v)", k, old)
			var got bool
			pan = tryOp(func() { got = m.CompareAndDelete(k, old) })
			w, wok := model[k]
			want := wok && w == old
			if want {
				delete(model, k)
			}
			if pan == nil && got != want {
				bad = fmt.Sprintf("%s = %v, reference %v", op, got, want)
			}
		case 10:
			op = "Range()"
			seen := map[string]V{}
			dup := false
			pan = tryOp(func() {
				m.Range(func(k string, v V) bool {
					if _, ok := seen[k]; ok {
						dup = true
					}
					seen[k] = v
					return true
				})
			})
			if pan == nil && (dup || !reflect.DeepEqual(seen, model)) {
				bad = fmt.Sprintf("Range visited %v (dup=%v), reference %v", seen, dup, model)
			}
		case 11:
			if rng.IntN(4) != 0 {
				continue
			}
			op = "Clear()"
			pan = tryOp(func() { m.Clear() })
			model = map[string]V{}
		case 12:
			op = "Len/Keys/Values"
		}
		trace = append(trace, op)
		if pan != nil {
			return tag + "panic:" + strings.SplitN(op, "(", 2)[0], fmt.Sprintf("%s panicked: %v", op, pan), trace
		}
		if bad != "" {
			return tag + "return-mismatch:" + strings.SplitN(op, "(", 2)[0], bad, trace
		}
		ks := m.Keys()
		sort.Strings(ks)
		var want []string
		for k := range model {
			want = append(want, k)
		}
		sort.Strings(want)
		if strings.Join(ks, ",") != strings.Join(want, ",") || m.Len() != len(want) || len(m.Values()) != len(want) {
			return tag + "model-mismatch", fmt.Sprintf("after %s: keys %v len %d, reference %v", op, ks, m.Len(), want), trace
		}
	}
	return "", "", trace
}

// ---------- Emitter ----------

var emitRec struct {
	mu    sync.Mutex
	calls []int
	hook  func(id int)
}

func recCall(id int) {
	emitRec.mu.Lock()
	emitRec.calls = append(emitRec.calls, id)
	h := emitRec.hook
	emitRec.mu.Unlock()
	if h != nil {
		h(id)
	}
}

// distinct top-level functions: RemoveListener identifies a listener by its code pointer
func l0(...any) { recCall(0) }
func l1(...any) { recCall(1) }
func l2(...any) { recCall(2) }
func l3(...any) { recCall(3) }
func l4(...any) { recCall(4) }

var listenerFns = []types.Listener{l0, l1, l2, l3, l4}

type reg struct {
	uid  int
	id   int
	once bool
}

// candidate emitter states (RemoveListener of a function registered several times may
// remove any one of its registrations; the statement only says "exactly one")
type emState map[string][]reg

func cloneState(s emState) emState {
	o := emState{}
	for k, v := range s {
		o[k] = append([]reg(nil), v...)
	}
	return o
}

func stateKey(s emState) string {
	var ks []string
	for k := range s {
		ks = append(ks, k)
	}
	sort.Strings(ks)
	var sb strings.Builder
	for _, k := range ks {
		fmt.Fprintf(&sb, "%s:%v;", k, s[k])
	}
	return sb.String()
}

func dedupe(cs []emState) []emState {
	seen := map[string]bool{}
	var out []emState
	for _, c := range cs {
		k := stateKey(c)
		if !seen[k] {
			seen[k] = true
			out = append(out, c)
		}
	}
	if len(out) > 64 {
		out = out[:64]
	}
	return out
}

func removeOne(s emState, evt string, id int) []emState {
	var out []emState
	for i, r := range s[evt] {
		if r.id == id {
			c := cloneState(s)
			c[evt] = append(append([]reg(nil), s[evt][:i]...), s[evt][i+1:]...)
			out = append(out, c)
		}
	}
	return out
}

func removeUID(s emState, evt string, uid int) {
	for i, r := range s[evt] {
		if r.uid == uid {
			s[evt] = append(append([]reg(nil), s[evt][:i]...), s[evt][i+1:]...)
			return
		}
	}
}

func ids(rs []reg) []int {
	var out []int
	for _, r := range rs {
		out = append(out, r.id)
	}
	return out
}

// emitterAPI is the part of the emitter the property talks about; it is implemented by
// types.NewEventEmitter(), by events.New() and by the package-level functions of events/ (which
// forward to a process-wide default emitter).
type emitterAPI interface {
	AddListener(types.EventName, ...types.Listener) error
	On(types.EventName, ...types.Listener) error
	Once(types.EventName, ...types.Listener) error
	Emit(types.EventName, ...any)
	RemoveListener(types.EventName, types.Listener) bool
	RemoveAllListeners(types.EventName) bool
	ListenerCount(types.EventName) int
	Listeners(types.EventName) []types.Listener
	EventNames() []types.EventName
	Clear()
	Len() int
}

type pkgEmitter struct{}

func (pkgEmitter) AddListener(e types.EventName, l ...types.Listener) error {
	return events.AddListener(e, l...)
}
func (pkgEmitter) On(e types.EventName, l ...types.Listener) error   { return events.On(e, l...) }
func (pkgEmitter) Once(e types.EventName, l ...types.Listener) error { return events.Once(e, l...) }
func (pkgEmitter) Emit(e types.EventName, a ...any)                  { events.Emit(e, a...) }
func (pkgEmitter) RemoveListener(e types.EventName, l types.Listener) bool {
	return events.RemoveListener(e, l)
}
func (pkgEmitter) RemoveAllListeners(e types.EventName) bool { return events.RemoveAllListeners(e) }
func (pkgEmitter) ListenerCount(e types.EventName) int       { return events.ListenerCount(e) }
func (pkgEmitter) Listeners(e types.EventName) []types.Listener {
	return events.Listeners(e)
}
func (pkgEmitter) EventNames() []types.EventName { return events.EventNames() }
func (pkgEmitter) Clear()                        { events.Clear() }
func (pkgEmitter) Len() int                      { return events.Len() }

func seqEmitter(rng *rand.Rand, nops int) (key, msg string, trace []string) {
	return seqEmitterOn(types.NewEventEmitter(), rng, nops)
}

// the events/ package: its constructor and its package-level facade (the default emitter is
// process-wide state, so it is emptied first)
func seqEmitterEventsNew(rng *rand.Rand, nops int) (key, msg string, trace []string) {
	return seqEmitterOn(events.New(), rng, nops)
}

func seqEmitterEventsPkg(rng *rand.Rand, nops int) (key, msg string, trace []string) {
	events.Clear()
	return seqEmitterOn(pkgEmitter{}, rng, nops)
}

func seqEmitterOn(e emitterAPI, rng *rand.Rand, nops int) (key, msg string, trace []string) {
	cands := []emState{{}}
	evts := []types.EventName{"x", "y"}
	uid := 0
	for i := 0; i < nops; i++ {
		evt := evts[rng.IntN(2)]
		en := string(evt)
		var op string
		var pan any
		switch rng.IntN(12) {
		case 0, 1, 2:
			// On / Once with 1-3 listeners, possibly nil ones
			once := rng.IntN(3) == 0
			n := 1 + rng.IntN(3)
			var ls []types.Listener
			var regs []reg
			desc := ""
			for j := 0; j < n; j++ {
				if rng.IntN(6) == 0 {
					ls = append(ls, nil)
					desc += "nil,"
				} else {
					id := rng.IntN(len(listenerFns))
					ls = append(ls, listenerFns[id])
					uid++
					regs = append(regs, reg{uid, id, once})
					desc += fmt.Sprintf("l%d,", id)
				}
			}
			name := "On"
			if once {
				name = "Once"
			}
			op = fmt.Sprintf("%s(%s,%s)", name, en, desc)
			alias := rng.IntN(2) == 0
			pan = tryOp(func() {
				if once {
					e.Once(evt, ls...)
				} else if alias {
					e.On(evt, ls...)
				} else {
					e.AddListener(evt, ls...)
				}
			})
			for ci := range cands {
				cands[ci][en] = append(cands[ci][en], regs...)
			}
		case 3, 4, 5:
			// Emit, with an optional re-entrant action performed by the first listener called
			action := rng.IntN(4)
			actID := rng.IntN(len(listenerFns))
			op = fmt.Sprintf("Emit(%s) first listener does %s(l%d)", en, []string{"nothing", "On", "RemoveListener", "RemoveAllListeners"}[action], actID)
			uid++
			newUID := uid
			emitRec.mu.Lock()
			emitRec.calls = nil
			fired := false
			emitRec.hook = func(int) {
				if fired {
					return
				}
				fired = true
				switch action {
				case 1:
					e.On(evt, listenerFns[actID])
				case 2:
					e.RemoveListener(evt, listenerFns[actID])
				case 3:
					e.RemoveAllListeners(evt)
				}
			}
			emitRec.mu.Unlock()
			pan = tryOp(func() { e.Emit(evt, 1, "a") })
			emitRec.mu.Lock()
			calls := append([]int(nil), emitRec.calls...)
			emitRec.hook = nil
			emitRec.mu.Unlock()
			trace = append(trace, op)
			if pan != nil {
				return "emitter-panic:Emit", fmt.Sprintf("%s panicked: %v", op, pan), trace
			}
			var next []emState
			var predicted [][]int
			for _, c := range cands {
				snap := c[en]
				predicted = append(predicted, ids(snap))
				if !eqInts(ids(snap), calls) {
					continue
				}
				after := []emState{cloneState(c)}
				if len(snap) > 0 {
					switch action {
					case 1:
						after[0][en] = append(after[0][en], reg{newUID, actID, false})
					case 2:
						if r := removeOne(after[0], en, actID); len(r) > 0 {
							after = r
						}
					case 3:
						delete(after[0], en)
					}
				}
				for _, a := range after {
					// every once registration of the snapshot has fired and is gone
					for _, r := range snap {
						if r.once {
							removeUID(a, en, r.uid)
						}
					}
					next = append(next, a)
				}
			}
			if len(next) == 0 {
				return "emitter-emit-order", fmt.Sprintf("%s called listeners %v; reference (registration order, snapshot at start of emit) predicts %v", op, calls, predicted), trace
			}
			cands = dedupe(next)
			continue
		case 6, 7:
			id := rng.IntN(len(listenerFns))
			op = fmt.Sprintf("RemoveListener(%s,l%d)", en, id)
			var got bool
			pan = tryOp(func() { got = e.RemoveListener(evt, listenerFns[id]) })
			trace = append(trace, op)
			if pan != nil {
				return "emitter-panic:RemoveListener", fmt.Sprintf("%s panicked: %v", op, pan), trace
			}
			var next []emState
			for _, c := range cands {
				r := removeOne(c, en, id)
				if (len(r) > 0) != got {
					continue // this candidate disagrees with the reported result
				}
				if len(r) > 0 {
					next = append(next, r...)
				} else {
					next = append(next, c)
				}
			}
			if len(next) == 0 {
				return "emitter-return-mismatch:RemoveListener", fmt.Sprintf("%s = %v but the reference says the opposite", op, got), trace
			}
			cands = dedupe(next)
			continue
		case 8:
			if rng.IntN(3) != 0 {
				continue
			}
			op = fmt.Sprintf("RemoveAllListeners(%s)", en)
			pan = tryOp(func() { e.RemoveAllListeners(evt) })
			for ci := range cands {
				delete(cands[ci], en)
			}
		case 9:
			op = fmt.Sprintf("ListenerCount/Listeners(%s)", en)
			var cnt, ll int
			pan = tryOp(func() { cnt = e.ListenerCount(evt); ll = len(e.Listeners(evt)) })
			if pan == nil {
				var wants []int
				var next []emState
				for _, c := range cands {
					wants = append(wants, len(c[en]))
					if len(c[en]) == cnt && cnt == ll {
						next = append(next, c)
					}
				}
				if len(next) == 0 {
					return "emitter-count-mismatch", fmt.Sprintf("%s: ListenerCount %d, len(Listeners) %d, reference %v", op, cnt, ll, wants), append(trace, op)
				}
				cands = next
			}
		case 10:
			if rng.IntN(6) != 0 {
				continue
			}
			op = "Clear()"
			pan = tryOp(func() { e.Clear() })
			cands = []emState{{}}
		case 11:
			op = "EventNames/Len"
			var names []types.EventName
			pan = tryOp(func() { names = e.EventNames(); e.Len() })
			if pan == nil {
				// every event that has a registration in every candidate state must be named, and no
				// name outside the two events used here may appear
				have := map[string]bool{}
				for _, n := range names {
					have[string(n)] = true
					if n != "x" && n != "y" {
						return "emitter-eventnames", fmt.Sprintf("EventNames() = %v names an event nobody registered", names), append(trace, op)
					}
				}
				for _, en := range []string{"x", "y"} {
					all := true
					for _, c := range cands {
						if len(c[en]) == 0 {
							all = false
						}
					}
					if all && !have[en] {
						return "emitter-eventnames", fmt.Sprintf("EventNames() = %v misses %q which has listeners", names, en), append(trace, op)
					}
				}
			}
		}
		trace = append(trace, op)
		if pan != nil {
			return "emitter-panic:" + strings.SplitN(op, "(", 2)[0], fmt.Sprintf("%s panicked: %v", op, pan), trace
		}
	}
	return "", "", trace
}

func runSeq(r *rep.Report, name string, n int, f func(rng *rand.Rand, nops int) (string, string, []string), stream uint64) {
	rng := r.Rand(stream)
	for i := 0; i < n; i++ {
		nops := 3 + rng.IntN(38)
		key, msg, trace := f(rng, nops)
		sig := name + ":" + strings.Join(shortOps(trace), ",")
		r.Case(sig, len(trace) >= 2)
		r.Obs("sequences:"+name, 1)
		r.Obs("ops:"+name, int64(len(trace)))
		if i == 0 {
			r.Sample(map[string]any{"container": name, "ops": trace})
		}
		if key != "" {
			r.Violation(key, msg, map[string]any{"container": name, "ops": trace, "seed": fmt.Sprintf("seed=%d lane=%d seq=%d", r.Seed, r.Lane, i)})
		}
	}
}

func shortOps(trace []string) []string {
	out := make([]string, len(trace))
	for i, t := range trace {
		out[i] = strings.SplitN(t, "(", 2)[0]
	}
	return out
}
