package checks

import (
	"fmt"
	"math/rand/v2"
	"strings"
	"sync"
	"sync/atomic"
	"testing"
	"time"
	"verifh/fakenet"

	"github.com/zishang520/engine.io/v2/config"
	"github.com/zishang520/engine.io/v2/engine"
	"github.com/zishang520/engine.io/v2/types"

	"verifh/refcodec"
	"verifh/rep"
	"verifh/rig"
)

type c11Case struct {
	Scenario string   `json:"scenario"` // overlap-poll | overlap-data | pending-close | abort-poll | abort-data | ack-order | octet-v4 | mix
	Rev      int      `json:"rev"`
	JSONP    bool     `json:"jsonp"`
	Cause    string   `json:"cause"`
	Ops      []string `json:"ops"`
	// AcceptEnc: the Accept-Encoding of every request of the session (mix histories)
	AcceptEnc string `json:"accept_encoding"`
	Seed      string `json:"seed"`
}

func genC11(rng *rand.Rand) c11Case {
	c := c11Case{Rev: 4}
	if rng.IntN(3) == 0 {
		c.Rev = 3
	}
	c.JSONP = rng.IntN(5) == 0
	c.Scenario = []string{"overlap-poll", "overlap-data", "pending-close", "abort-poll", "abort-data", "ack-order", "octet-v4", "bad-body", "mix", "mix", "mix"}[rng.IntN(11)]
	c.Cause = append(append([]string(nil), closeCauses...), "client-close-packet", "client-close-packet")[rng.IntN(len(closeCauses)+2)]
	if c.Scenario == "mix" {
		n := 4 + rng.IntN(16)
		for i := 0; i < n; i++ {
			c.Ops = append(c.Ops, []string{"poll", "poll", "post", "post", "send", "send", "send-big", "sleep", "post-multi", "heartbeat-wait"}[rng.IntN(10)])
		}
		c.AcceptEnc = []string{"", "", "gzip", "deflate", "br", "zstd", "br, zstd", "zstd;q=1, br;q=0.5"}[rng.IntN(8)]
	}
	if c.Scenario == "octet-v4" {
		c.Rev = 4
		c.JSONP = false
	}
	return c
}

// judgeResponses checks every recorded exchange of the world: handler returned, one header write.
func judgeResponses(w *rig.World, aborted map[int64]bool) (string, string) {
	for _, q := range w.Requests() {
		if q.Hijacked {
			continue
		}
		what := fmt.Sprintf("%s %s (request %d)", q.Method, q.URL, q.ID)
		if q.ReturnSeq == 0 {
			return "c11-handler-never-returned", what + ": HandleRequest has not returned although the session is closed and 40 s passed"
		}
		if q.WritesAfterReturn > 0 {
			return "c11-response-written-after-handler-returned", fmt.Sprintf("%s: the handler returned while the request's response was still being written (%d writer calls overlapped or followed the return)", what, q.WritesAfterReturn)
		}
		if q.WriteHeaders > 1 {
			return "c11-two-responses", fmt.Sprintf("%s: WriteHeader called %d times", what, q.WriteHeaders)
		}
		if q.WriteHeaders == 0 && !aborted[q.ID] {
			return "c11-no-response", what + ": the handler returned without writing any response"
		}
	}
	return "", ""
}

func runC11(c c11Case, rng *rand.Rand, r *rep.Report) (key, msg string, stats map[string]int64) {
	stats = map[string]int64{}
	var pan any
	func() {
		defer func() { pan = recover() }()
		rig.Bubble(r.T(), func() {
			so := &config.ServerOptions{}
			so.SetAllowEIO3(true)
			so.SetPingInterval(300 * time.Millisecond)
			so.SetPingTimeout(200 * time.Millisecond)
			w := rig.NewWorld(rig.Options{Server: so, OnConnection: func(s engine.Socket) {
				s.On("message", func(...any) {
					// processing takes time: the acknowledgement must wait for it
					time.Sleep(time.Millisecond)
				})
			}})
			defer w.Finish()
			cfg := rig.ClientCfg{Rev: c.Rev, Transport: "polling", JSONP: c.JSONP, J: "1", B64: c.JSONP && c.Rev == 3, AcceptEnc: c.AcceptEnc}
			cl, err := w.Connect(cfg)
			rig.Wait()
			sock := w.Socket(0)
			if err != nil || sock == nil {
				key, msg = "c11-handshake-failed", fmt.Sprint(err)
				return
			}
			sid := sock.Id()
			aborted := map[int64]bool{}
			base := "/engine.io/?EIO=" + fmt.Sprint(c.Rev) + "&transport=polling&sid=" + sid
			lastReqID := func() int64 {
				rq := w.Requests()
				return rq[len(rq)-1].ID
			}
			closeReason := func() string {
				if ev := w.Tap.Of(sid, "close"); len(ev) > 0 {
					return ev[0].Str
				}
				return ""
			}
			switch c.Scenario {
			case "overlap-poll":
				x1 := cl.PollStart()
				time.Sleep(time.Millisecond)
				rig.Wait()
				if x1.Done() { // initial packets; poll again
					x1 = cl.PollStart()
					time.Sleep(time.Millisecond)
					rig.Wait()
				}
				x2 := cl.PollStart()
				time.Sleep(5 * time.Millisecond)
				rig.Wait()
				stats["overlapping_polls"]++
				if !x2.Done() || x2.Res.Status != 400 {
					key, msg = "c11-overlapping-poll-not-refused", fmt.Sprintf("second poll while one is pending: done=%v status %d", x2.Done(), x2.Res.Status)
					return
				}
				if sock.ReadyState() != "closed" || closeReason() != "transport error" {
					key, msg = "c11-overlap-did-not-close-session", fmt.Sprintf("after an overlapping poll the session is %s (%s)", sock.ReadyState(), closeReason())
					return
				}
				if !x1.Done() {
					key, msg = "c11-pending-poll-not-released", "the first poll is still unanswered after the session was closed by the overlap"
					return
				}
			case "overlap-data":
				// first data request with a slow body, second one meanwhile
				conn, _ := w.Dial()
				head := fmt.Sprintf("POST %s HTTP/1.1\r\nHost: engine\r\nConnection: close\r\nContent-Type: text/plain\r\nContent-Length: 10\r\n\r\n", base)
				conn.Write([]byte(head + "4ab"))
				time.Sleep(time.Millisecond)
				rig.Wait()
				first := lastReqID()
				res2 := cl.Post(refcodec.Text(refcodec.Message, "second"))
				time.Sleep(time.Millisecond)
				rig.Wait()
				stats["overlapping_data_requests"]++
				if res2.Status != 400 {
					key, msg = "c11-overlapping-data-not-refused", fmt.Sprintf("second data request while one is being received answered %d %q", res2.Status, res2.Body)
					return
				}
				if sock.ReadyState() != "closed" || closeReason() != "transport error" {
					key, msg = "c11-overlap-did-not-close-session", fmt.Sprintf("after an overlapping data request the session is %s (%s)", sock.ReadyState(), closeReason())
					return
				}
				conn.Write([]byte("cdefghi"))
				time.Sleep(time.Millisecond)
				rig.Wait()
				_ = first
				conn.Close()
			case "pending-close":
				x := cl.PollStart()
				time.Sleep(time.Millisecond)
				rig.Wait()
				if x.Done() {
					x = cl.PollStart()
					time.Sleep(time.Millisecond)
					rig.Wait()
				}
				cause := c.Cause
				switch cause {
				case "ping-timeout":
					time.Sleep(301 * time.Millisecond)
					rig.Wait()
					if x.Done() {
						x = cl.PollStart()
					}
					time.Sleep(300 * time.Millisecond)
				case "peer-disconnect":
					aborted[lastReqID()] = true
					x.Abort()
				case "client-close-packet":
					// the client itself ends the session with a close packet in a data request
					cl.Post(refcodec.Packet{Type: refcodec.Close})
				default:
					if cause == "parse-error" {
						cause = "close-true"
					}
					go fireCause(cause, w, cl, sock)
				}
				time.Sleep(time.Second)
				rig.Wait()
				stats["pending_poll_at_close:"+cause]++
				if cause != "peer-disconnect" && !x.Done() {
					key, msg = "c11-pending-poll-not-released", fmt.Sprintf("session closed by %s; its pending poll was never answered", cause)
					return
				}
			case "abort-poll":
				x := cl.PollStart()
				time.Sleep(time.Millisecond)
				rig.Wait()
				if x.Done() {
					x = cl.PollStart()
					time.Sleep(time.Millisecond)
					rig.Wait()
				}
				aborted[lastReqID()] = true
				x.Abort()
				time.Sleep(10 * time.Millisecond)
				rig.Wait()
				stats["aborted_polls"]++
			case "abort-data":
				conn, _ := w.Dial()
				head := fmt.Sprintf("POST %s HTTP/1.1\r\nHost: engine\r\nConnection: close\r\nContent-Type: text/plain\r\nContent-Length: 1000\r\n\r\n", base)
				conn.Write([]byte(head + "4partial"))
				time.Sleep(time.Millisecond)
				rig.Wait()
				aborted[lastReqID()] = true
				conn.Close()
				time.Sleep(10 * time.Millisecond)
				rig.Wait()
				stats["aborted_data_requests"]++
			case "ack-order":
				var ps []refcodec.Packet
				n := 1 + rng.IntN(6)
				for i := 0; i < n; i++ {
					ps = append(ps, refcodec.Text(refcodec.Message, fmt.Sprintf("m%d", i)))
				}
				res := cl.Post(ps...)
				rig.Wait()
				stats["acks_checked"]++
				if res.Status != 200 || string(res.Body) != "ok" {
					key, msg = "c11-data-not-acknowledged", fmt.Sprintf("status %d body %q", res.Status, res.Body)
					return
				}
				var req rig.Req
				for _, q := range w.Requests() {
					if q.Method == "POST" {
						req = q
					}
				}
				msgs := w.Tap.Of(sid, "message")
				if len(msgs) != n {
					key, msg = "c11-ack-before-processing", fmt.Sprintf("%d of %d packets were processed when the acknowledgement had been written", len(msgs), n)
					return
				}
				if last := msgs[len(msgs)-1].Seq; last > req.FirstWriteSeq {
					key, msg = "c11-ack-before-processing", fmt.Sprintf("'ok' written at seq %d, last message event at seq %d", req.FirstWriteSeq, last)
					return
				}
			case "octet-v4":
				x := w.Start(rig.ReqSpec{Method: "POST", Target: base, Header: map[string][]string{"Content-Type": {"application/octet-stream"}}, Body: []byte("4hello")})
				time.Sleep(50 * time.Millisecond)
				rig.Wait()
				stats["octet_stream_posts_on_v4"]++
				if !x.Done() {
					key, msg = "c11-refused-data-request-not-answered", fmt.Sprintf("a revision-4 data request with Content-Type application/octet-stream got no response (session %s)", sock.ReadyState())
					x.Abort()
					return
				}
			case "bad-body":
				// the body of a data request cannot be read to its end although the connection stays
				// alive: chunked transfer with a malformed chunk-size line after the first chunk, or a
				// declared length longer than what arrives before the client half-closes.  Whatever
				// the transport makes of the payload, the request is owed exactly one response.
				target := base
				var head string
				if rng.IntN(2) == 0 {
					head = "POST " + target + " HTTP/1.1\r\nHost: engine\r\nContent-Type: text/plain;charset=UTF-8\r\nTransfer-Encoding: chunked\r\n\r\n6\r\n4hello\r\n" + []string{"zz\r\n", "-1\r\n", "ffffffffffffffffff\r\n", "5;ext\r\n4wor"}[rng.IntN(4)]
				} else {
					head = "POST " + target + " HTTP/1.1\r\nHost: engine\r\nContent-Type: text/plain;charset=UTF-8\r\nTransfer-Encoding: chunked\r\n\r\n6\r\n4hello\r\n5\r\n4w"
				}
				truncated := strings.HasSuffix(head, "4w") || strings.HasSuffix(head, "4wor")
				x := w.Start(rig.ReqSpec{Method: "POST", RawHead: head})
				if (truncated || rng.IntN(2) == 0) && x.Conn != nil {
					// the client has nothing more to say but still reads (a body that merely pauses is
					// not an unreadable body: the server rightly goes on waiting for it)
					time.Sleep(time.Millisecond)
					rig.Wait()
					// net/http cannot tell a half-closed client from one that is gone: from here on the
					// request counts as aborted by its client (it may be answered or not, never twice)
					aborted[lastReqID()] = true
					x.Conn.CloseWrite()
				}
				time.Sleep(5 * time.Second)
				rig.Wait()
				stats["data_requests_with_unreadable_body"]++
				if !x.Done() {
					key, msg = "c11-refused-data-request-not-answered", fmt.Sprintf("a data request whose chunked body cannot be read to its end (the connection stays open) got no response within 5 s (session %s)", sock.ReadyState())
					x.Abort()
					return
				}
			case "mix":
				cl.StartReader()
				for _, op := range c.Ops {
					switch op {
					case "poll":
						// the reader loop polls continuously; an explicit extra poll would overlap
						time.Sleep(time.Duration(rng.IntN(3)) * time.Millisecond)
					case "post":
						res := cl.Post(refcodec.Text(refcodec.Message, "d"))
						if res.Status != 200 && sock.ReadyState() == "open" {
							key, msg = "c11-data-not-acknowledged", fmt.Sprintf("status %d", res.Status)
							return
						}
					case "post-multi":
						cl.Post(refcodec.Text(refcodec.Message, "a"), refcodec.Packet{Type: refcodec.Noop}, refcodec.Text(refcodec.Message, "b"))
					case "send":
						sock.Send(types.NewStringBufferString("s"), nil, nil)
					case "send-big":
						// above the compression threshold: the response body goes through the coding the
						// request's Accept-Encoding names
						sock.Send(types.NewStringBufferString(strings.Repeat("compressible text ", 80+rng.IntN(300))), nil, nil)
					case "sleep":
						time.Sleep(time.Duration(1+rng.IntN(400)) * time.Millisecond)
					case "heartbeat-wait":
						time.Sleep(310 * time.Millisecond)
					}
				}
				rig.Wait()
				if sock.ReadyState() != "open" {
					key, msg = "c11-session-closed:"+closeReason(), "a conformant polling history closed the session: "+closeReason()+"; client: "+cl.Ended()
					return
				}
				stats["mix_histories"]++
			}
			// end of history: close everything and give every timer its chance
			sock.Close(true)
			time.Sleep(time.Millisecond)
			rig.Wait()
			for _, q := range w.Requests() {
				if q.ReturnSeq == 0 {
					// still open after the session was closed: reported below unless the client aborts it now
					if q.WriteHeaders == 0 && key == "" {
						key, msg = "c11-pending-request-not-released-at-close", fmt.Sprintf("%s %s is still unanswered after the session was closed", q.Method, q.URL)
					}
					aborted[q.ID] = true
				}
			}
			cl.Stop()
			time.Sleep(40 * time.Second)
			rig.Wait()
			if k, m := judgeResponses(w, aborted); k != "" && key == "" {
				key, msg = k, m
			}
			stats["exchanges_checked"] += int64(len(w.Requests()))
			if lo := rig.Leftovers(); len(lo) > 0 && key == "" {
				var tops []string
				for _, s := range lo {
					if strings.Contains(s, "engine.io/v2") {
						tops = append(tops, rig.TopFrames(s, 4))
					}
				}
				if len(tops) > 0 {
					key, msg = "c11-goroutine-left-behind", fmt.Sprintf("%d goroutine(s) of the server still blocked 40 s after every connection was closed: %s", len(tops), strings.Join(tops, " | "))
				}
			}
		})
	}()
	if pan != nil {
		return "c11-panic", fmt.Sprint(pan), stats
	}
	return
}

// runC11ResponseRace: a data request whose message listener is still running when the session is
// closed from another goroutine.  The transport answers the ongoing data request itself (429) and
// that header write is slow; meanwhile the listener returns and the handler acknowledges with
// 'ok'.  Whatever wins, the request gets ONE response.
func runC11ResponseRace(closeMode string, r *rep.Report) (key, msg string, held bool) {
	rig.Bubble(r.T(), func() {
		so := &config.ServerOptions{}
		so.SetPingInterval(20 * time.Second)
		lis := make(chan struct{})
		entered := make(chan struct{}, 4)
		w := rig.NewWorld(rig.Options{Server: so, OnConnection: func(s engine.Socket) {
			s.On("message", func(...any) {
				entered <- struct{}{}
				<-lis
			})
		}})
		defer w.Finish()
		cl, err := w.Connect(rig.ClientCfg{Rev: 4, Transport: "polling"})
		rig.Wait()
		sock := w.Socket(0)
		if err != nil || sock == nil {
			key, msg = "c11-handshake-failed", fmt.Sprint(err)
			return
		}
		x := cl.PostStart([]refcodec.Packet{refcodec.Text(refcodec.Message, "hello")})
		<-entered
		hold := make(chan struct{})
		var once sync.Once
		var heldCode atomic.Int64
		w.SetHoldHeader(func(req rig.Req, code int) chan struct{} {
			if req.Method != "POST" {
				return nil
			}
			var ch chan struct{}
			once.Do(func() { ch = hold; heldCode.Store(int64(code)) })
			return ch
		})
		closed := make(chan struct{})
		go func() {
			switch closeMode {
			case "close-true":
				sock.Close(true)
			case "close-false":
				sock.Close(false)
			case "server-close":
				w.Eng.Close()
			}
			close(closed)
		}()
		// the closer is inside the request context's write lock from here on: settle on real time
		rig.Settle()
		held = heldCode.Load() != 0
		close(lis) // the listener returns, the handler goes on to acknowledge
		rig.Settle()
		rig.Settle()
		close(hold)
		<-closed
		res, ok := x.WaitFor(5 * time.Second)
		time.Sleep(50 * time.Millisecond)
		rig.Wait()
		w.SetHoldHeader(nil)
		if !ok {
			key, msg = "c11-no-response", fmt.Sprintf("the data request was never answered (%s while its listener was running)", closeMode)
			return
		}
		for _, q := range w.Requests() {
			if q.Method == "POST" && q.WriteHeaders != 1 {
				key, msg = "c11-two-responses", fmt.Sprintf("data request with a running listener + %s from another goroutine, first header write (%d) slow: WriteHeader called %d times (client saw %d %q)", closeMode, heldCode.Load(), q.WriteHeaders, res.Status, res.Body)
				return
			}
		}
		if res.Err != nil || (res.Status != 200 && res.Status != 429) {
			key, msg = "c11-no-response", fmt.Sprintf("data request answered %d %q err %v", res.Status, res.Body, res.Err)
		}
		cl.Stop()
	})
	return
}

// runC11OverlapWhileAnswering: the transport has taken the pending poll to answer it and is held
// there (hook polling.write.requestTaken) when a second poll of the same session arrives: the poll
// is still outstanding, so the second one is an overlap (400, session closed with a transport error).
func runC11OverlapWhileAnswering(r *rep.Report) (key, msg string, held bool) {
	rig.Bubble(r.T(), func() {
		so := &config.ServerOptions{}
		so.SetPingInterval(20 * time.Second)
		w := rig.NewWorld(rig.Options{Server: so})
		defer w.Finish()
		cl, err := w.Connect(rig.ClientCfg{Rev: 4, Transport: "polling"})
		rig.Wait()
		sock := w.Socket(0)
		if err != nil || sock == nil {
			key, msg = "c11-handshake-failed", fmt.Sprint(err)
			return
		}
		x1 := cl.PollStart()
		time.Sleep(time.Millisecond)
		rig.Wait()
		w.Gate.Arm("polling.write.requestTaken", 1)
		sock.Send(types.NewStringBufferString("m"), nil, nil)
		rig.Settle()
		if len(w.Gate.Parked()) != 1 {
			r.Inconclusive("overlap-while-answering: the polling writer was not held with the request")
			w.Gate.ReleaseAll()
			return
		}
		held = true
		// the writer owns the transport's mutex: settle on real time
		x2 := cl.PollStart()
		rig.Settle()
		rig.Settle()
		w.Gate.ReleaseAll()
		rig.Settle()
		time.Sleep(100 * time.Millisecond)
		rig.Wait()
		res2, ok2 := x2.WaitFor(time.Second)
		if !ok2 || res2.Status != 400 {
			key, msg = "c11-overlapping-poll-not-refused", fmt.Sprintf("a second poll arrived while the first one was being answered (still outstanding): answered=%v status %d; session %s", ok2, res2.Status, sock.ReadyState())
			x2.Abort()
			return
		}
		ev := w.Tap.Of(sock.Id(), "close")
		if len(ev) != 1 || ev[0].Str != "transport error" {
			key, msg = "c11-overlap-did-not-close-session", fmt.Sprintf("overlapping poll refused with 400 but close events are %v", ev)
			return
		}
		if _, ok1 := x1.WaitFor(time.Second); !ok1 {
			key, msg = "c11-no-response", "the first poll was never answered"
			x1.Abort()
			return
		}
		time.Sleep(time.Second)
		rig.Wait()
		key, msg = judgeResponses(w, nil)
		cl.Stop()
	})
	return
}

// runC11Simultaneous: two polls (or two data requests) of one session arrive at the same
// moment: both are past the transport's "is one outstanding?" test before either is published
// (hook polling.onPollRequest.beforePublish / polling.onDataRequest.beforePublish).  One of them
// is the overlapping one: 400, and the session closes with a transport error; both get exactly
// one response.
func runC11Simultaneous(kind string, rev int, jsonp bool, r *rep.Report) (key, msg string, held bool) {
	rig.Bubble(r.T(), func() {
		so := &config.ServerOptions{}
		so.SetPingInterval(20 * time.Second)
		so.SetAllowEIO3(true)
		w := rig.NewWorld(rig.Options{Server: so})
		defer w.Finish()
		cl, err := w.Connect(rig.ClientCfg{Rev: rev, Transport: "polling", JSONP: jsonp})
		rig.Wait()
		sock := w.Socket(0)
		if err != nil || sock == nil {
			key, msg = "c11-handshake-failed", fmt.Sprint(err)
			return
		}
		point := "polling.onPollRequest.beforePublish"
		w.Gate.Arm(point, -1)
		var x1, x2 *rig.Exchange
		var slow *fakenet.Conn
		if kind == "poll" {
			x1 = cl.PollStart()
			rig.Wait()
			x2 = cl.PollStart()
			rig.Wait()
		} else {
			// the first data request stays outstanding while it is released: part of its body is
			// still on its way
			point = "polling.onDataRequest.beforePublish"
			w.Gate.Arm(point, -1)
			slow, _ = w.Dial()
			q := "/engine.io/?EIO=" + fmt.Sprint(rev) + "&transport=polling&sid=" + cl.Sid
			ct := "text/plain"
			body := "4abcdefghi"
			if rev == 3 {
				body = "10:4abcdefghi"
			}
			if jsonp {
				q += "&j=0"
				ct = "application/x-www-form-urlencoded"
				body = "d=" + body
			}
			head := fmt.Sprintf("POST %s HTTP/1.1\r\nHost: engine\r\nConnection: close\r\nContent-Type: %s\r\nContent-Length: %d\r\n\r\n", q, ct, len(body))
			slow.Write([]byte(head + body[:len(body)-4]))
			rig.Wait()
			x2 = cl.PostStart([]refcodec.Packet{refcodec.Text(refcodec.Message, "second")})
			rig.Wait()
			defer slow.Close()
		}
		ps := w.Gate.Parked()
		if len(ps) != 2 {
			r.Inconclusive(fmt.Sprintf("simultaneous %s requests: %d goroutines reached %s, expected 2", kind, len(ps), point))
			w.Gate.ReleaseAll()
			return
		}
		held = true
		// the first one becomes the outstanding request ...
		ps[0].Release()
		rig.Wait()
		// ... and the second one, which passed the test before that, is the overlapping one
		w.Gate.ReleaseAll()
		time.Sleep(100 * time.Millisecond)
		rig.Wait()
		res2, ok2 := x2.WaitFor(time.Second)
		ev := w.Tap.Of(sock.Id(), "close")
		if !ok2 || res2.Status != 400 {
			key, msg = "c11-simultaneous-"+kind+"-requests-both-accepted", fmt.Sprintf("two %s requests of one session arrived together (both past the outstanding-request test, the first one still outstanding when the second proceeds): second answered=%v status %d, session %s, close events %v", kind, ok2, res2.Status, sock.ReadyState(), ev)
			x2.Abort()
			if x1 != nil {
				x1.Abort()
			}
			return
		}
		if len(ev) != 1 || ev[0].Str != "transport error" {
			key, msg = "c11-overlap-did-not-close-session", fmt.Sprintf("one of two simultaneous %s requests was refused with 400 but close events are %v", kind, ev)
			return
		}
		if x1 != nil {
			if _, ok1 := x1.WaitFor(time.Second); !ok1 {
				key, msg = "c11-no-response", fmt.Sprintf("two simultaneous %s requests: the first one is still unanswered after the session closed", kind)
				x1.Abort()
				return
			}
		}
		if slow != nil {
			slow.Write([]byte("fghi"))
			time.Sleep(time.Millisecond)
			rig.Wait()
		}
		time.Sleep(time.Second)
		rig.Wait()
		key, msg = judgeResponses(w, nil)
		cl.Stop()
	})
	return
}

// runC11AbortWhileAnswering: the client drops the connection of a poll (or of a data request)
// exactly while the server is writing that request's response (the header write is held).  The
// handler may only return once the response writer is no longer in use.
func runC11AbortWhileAnswering(kind string, r *rep.Report) (key, msg string, held bool) {
	rig.Bubble(r.T(), func() {
		so := &config.ServerOptions{}
		so.SetPingInterval(20 * time.Second)
		w := rig.NewWorld(rig.Options{Server: so})
		defer w.Finish()
		cl, err := w.Connect(rig.ClientCfg{Rev: 4, Transport: "polling"})
		rig.Wait()
		sock := w.Socket(0)
		if err != nil || sock == nil {
			key, msg = "c11-handshake-failed", fmt.Sprint(err)
			return
		}
		hold := make(chan struct{})
		var once sync.Once
		var got atomic.Bool
		method := map[string]string{"poll": "GET", "poll-big": "GET", "data": "POST"}[kind]
		w.SetHoldHeader(func(req rig.Req, code int) chan struct{} {
			if req.Method != method || req.Sid == "" {
				return nil
			}
			var ch chan struct{}
			once.Do(func() { ch = hold; got.Store(true) })
			return ch
		})
		var x *rig.Exchange
		if kind == "poll" || kind == "poll-big" {
			x = cl.PollStart()
			time.Sleep(time.Millisecond)
			rig.Wait()
			m := "m"
			if kind == "poll-big" {
				// far more than net/http buffers: the body write reaches the dead connection and
				// comes back with an error
				m = strings.Repeat("big-", 40000)
			}
			sock.Send(types.NewStringBufferString(m), nil, nil)
		} else {
			x = cl.PostStart([]refcodec.Packet{refcodec.Text(refcodec.Message, "hello")})
		}
		rig.Settle()
		held = got.Load()
		if !held {
			r.Inconclusive("abort-while-answering: the response's header write was not reached")
			close(hold)
			return
		}
		// the writer is inside the request context's write lock: settle on real time
		x.Abort()
		rig.Settle()
		rig.Settle()
		close(hold)
		rig.Settle()
		time.Sleep(time.Second)
		rig.Wait()
		w.SetHoldHeader(nil)
		key, msg = judgeResponses(w, map[int64]bool{})
		cl.Stop()
	})
	return
}

func TestC11(t *testing.T) {
	r := rep.New(t, "C11")
	defer r.Flush()
	// journalled cases that have not ended after a minute of real time are examined (rep.Guard)
	r.Guard(60 * time.Second)
	if r.Lane == 3%r.Lanes {
		// the engine behind a types.HttpServer listening itself: HTTP/1.1, HTTP/2 (TLS) and HTTP/3 (QUIC) on loopback
		netLanes(r, r.N(4, 64))
	}
	r.Rule("PRNG polling/JSONP histories over real net/http: overlapping polls, overlapping data requests (first one with a slow body), a pending poll while the session closes by each cause (including the client's own close packet in a data request), polls and data requests aborted by the client mid-flight, multi-packet data requests with a listener that takes time (acknowledgement ordering by tap sequence numbers), a revision-4 data request with a binary content type, mixed conformant histories with server sends and heartbeats, and a data request whose listener is running when the session is closed from another goroutine while the first header write is held (harness-side gate in the ResponseWriter); oracle: counting ResponseWriter (exactly one WriteHeader per non-aborted exchange), handler return log, 400 + 'transport error' on overlap, bubble goroutine-leftover scan 40 s after everything closed; distinct = scenario signature")
	if r.Lane == 0 {
		for k := 0; k < r.N(8, 200); k++ {
			for _, kind := range []string{"poll", "data"} {
				for _, v := range []struct {
					rev   int
					jsonp bool
				}{{4, false}, {3, false}, {4, true}} {
					key, msg, held := runC11Simultaneous(kind, v.rev, v.jsonp, r)
					r.Case(fmt.Sprintf("simultaneous/%s/v%d/%v", kind, v.rev, v.jsonp), held)
					if held {
						r.Obs("gate:two_"+kind+"_requests_past_the_outstanding_test", 1)
					}
					if key != "" {
						r.Violation(key, msg, map[string]any{"lane": "two requests of one kind arriving together (hooks polling.on{Poll,Data}Request.beforePublish)", "request": kind, "rev": v.rev, "jsonp": v.jsonp})
					}
				}
			}
		}
	}
	if r.Lane == 3%r.Lanes {
		for k := 0; k < r.N(8, 200); k++ {
			for _, kind := range []string{"poll", "poll-big", "data"} {
				key, msg, held := runC11AbortWhileAnswering(kind, r)
				r.Case("abort-while-answering/"+kind, held)
				if held {
					r.Obs("gate:client_abort_while_the_response_header_write_is_held", 1)
				}
				if key != "" {
					r.Violation(key, msg, map[string]string{"lane": "client abort while the response is being written", "request": kind})
				}
			}
		}
	}
	if r.Lane == 2%r.Lanes {
		for k := 0; k < r.N(8, 200); k++ {
			key, msg, held := runC11OverlapWhileAnswering(r)
			r.Case("overlap-while-answering", held)
			if held {
				r.Obs("gate:polling_writer_held_with_the_pending_request", 1)
			}
			if key != "" {
				r.Violation(key, msg, map[string]string{"lane": "second poll while the first is being answered (hook polling.write.requestTaken)"})
			}
		}
	}
	if r.Lane == 1%r.Lanes {
		for k := 0; k < r.N(8, 200); k++ {
			for _, mode := range []string{"close-true", "close-false", "server-close"} {
				key, msg, held := runC11ResponseRace(mode, r)
				r.Case("response-race/"+mode, true)
				if held {
					r.Obs("gate:first_header_write_of_the_data_request_held", 1)
				}
				if key != "" {
					r.Violation(key, msg, map[string]string{"lane": "response race on a data request", "close": mode})
				}
			}
		}
	}
	n := r.N(3000, 250000)
	for i := 0; i < n; i++ {
		if !r.Only(i) {
			continue
		}
		rng := r.CaseRand(11, i)
		c := genC11(rng)
		c.Seed = fmt.Sprintf("seed=%d lane=%d case=%d", r.Seed, r.Lane, i)
		r.Begin(fmt.Sprint(i), c)
		key, msg, stats := runC11(c, rng, r)
		r.End(fmt.Sprint(i))
		sig := fmt.Sprintf("%s/v%d/%v", c.Scenario, c.Rev, c.JSONP)
		if c.Scenario == "pending-close" {
			sig += "/" + c.Cause
		}
		if c.Scenario == "mix" {
			sig += "/" + strings.Join(c.Ops, ",")
		}
		r.Case(sig, true)
		for k, v := range stats {
			r.Obs(k, v)
		}
		if i < 2 {
			r.Sample(c)
		}
		if key != "" {
			r.Violation(key, msg, c)
		}
	}
}
