package checks

import (
	"bytes"
	"encoding/binary"
	"errors"
	"fmt"
	"io"
	"math/rand/v2"
	"net"
	"strings"
	"sync"
	"testing"
	"time"

	webtrans "github.com/zishang520/engine.io/v2/webtransport"

	"verifh/fakenet"
	"verifh/refcodec"
	"verifh/rep"
	"verifh/rig"
)

type closeRec struct {
	mu    sync.Mutex
	codes []int
}

func (c *closeRec) add(code int) { c.mu.Lock(); c.codes = append(c.codes, code); c.mu.Unlock() }
func (c *closeRec) get() []int {
	c.mu.Lock()
	defer c.mu.Unlock()
	return append([]int(nil), c.codes...)
}

// wtHeader parses a frame header at the start of b.
func wtHeader(b []byte) (ok, bin bool, n uint64, hlen int) {
	if len(b) == 0 {
		return false, false, 0, 0
	}
	bin = b[0]&0x80 != 0
	n = uint64(b[0] & 0x7f)
	hlen = 1
	switch n {
	case 126:
		if len(b) < 3 {
			return false, bin, 0, 0
		}
		n = uint64(binary.BigEndian.Uint16(b[1:3]))
		hlen = 3
	case 127:
		if len(b) < 9 {
			return false, bin, 0, 0
		}
		n = binary.BigEndian.Uint64(b[1:9])
		hlen = 9
	}
	return true, bin, n, hlen
}

type c15Case struct {
	Stream   string `json:"stream_hex"`
	Cut      int    `json:"cut"`
	Variant  string `json:"variant"` // eof | error | timeout (transient: one read fails, the application sets a new deadline)
	Limit    int64  `json:"read_limit"`
	Pattern  string `json:"pattern"` // all | partial | zero | readmessage
	RBuf     int    `json:"read_buf"`
	Frag     int    `json:"fragment"`
	SeedInfo string `json:"seed"`
}

// runC15 drives the real reader over stream[:cut] followed by EOF or an injected error and
// checks every return value against the reference parse.  It returns "" or a (key, msg).
func runC15(stream []byte, cs c15Case, rng *rand.Rand) (key, msg string, msgsSeen int) {
	data := stream[:cs.Cut]
	sa, sb := fakenet.StreamPipe()
	switch cs.Variant {
	case "eof":
		sa.Conn.Write(data)
		sa.Close()
	case "timeout":
		// the whole stream is there, but one read at the cut fails with a timeout (a read
		// deadline that expired); the application then sets a new deadline and reads on
		sa.Conn.Write(stream)
		sa.Close() // (a reader that wrongly goes on must run into the end, not wait for ever)
		sb.Conn.FailReadsOnceAt(int64(len(data)), fakenet.ErrTimeout)
	default:
		sa.Conn.Write(data)
		sb.Conn.FailReadsAt(int64(len(data)), fakenet.ErrInjected)
	}
	if cs.Frag > 0 {
		sb.Conn.FragmentReads(cs.Frag)
	}
	rec := &closeRec{}
	g := rig.NewGate()
	g.Observe = func(point string, args []any) {
		if point == "wt.nilSession.CloseWithError" {
			rec.add(args[1].(int))
		}
	}
	g.Watch(sb)
	defer g.Unwatch(sb)
	conn := webtrans.NewConn(nil, sb, true, cs.RBuf, 0, nil, nil, nil)
	conn.SetReadLimit(cs.Limit)

	defer func() {
		if p := recover(); p != nil {
			key, msg = "wt-reader-panic", fmt.Sprintf("panic: %v", p)
		}
	}()

	terminal := func(where string, err error) (string, string) {
		if cs.Variant == "timeout" {
			// a new deadline does not make a failed connection readable again
			conn.SetReadDeadline(time.Now().Add(time.Hour))
		}
		// sticky: every later read reports the same failure
		for k := 0; k < 3; k++ {
			_, _, e2 := conn.NextReader()
			if e2 != err {
				return "wt-reader-error-not-sticky", fmt.Sprintf("after %s failed with %q, NextReader #%d returned %v", where, err, k+1, e2)
			}
		}
		return "", ""
	}
	// From messageReader.Read, io.EOF means "message complete", so a truncated frame must be
	// reported with another error (the code uses an "unexpected EOF" close error).  From
	// NextReader any non-nil error says the stream is over without claiming a message.
	nextErrOK := func(err error) bool {
		if err == nil {
			return false
		}
		if cs.Variant == "error" {
			return errors.Is(err, fakenet.ErrInjected)
		}
		if cs.Variant == "timeout" {
			// (the connection re-wraps temporary network errors; what matters is a timeout error)
			ne, ok := err.(net.Error)
			return ok && ne.Timeout()
		}
		return true
	}
	endErrOK := func(err error) bool {
		if err == nil || err == io.EOF {
			return false
		}
		if cs.Variant == "error" {
			return errors.Is(err, fakenet.ErrInjected)
		}
		if cs.Variant == "timeout" {
			// (the connection re-wraps temporary network errors; what matters is a timeout error)
			ne, ok := err.(net.Error)
			return ok && ne.Timeout()
		}
		return strings.Contains(err.Error(), "unexpected EOF")
	}

	rest := data
	if cs.Pattern == "readmessage" {
		// the one-call API: Conn.ReadMessage (NextReader + read everything)
		for i := 0; ; i++ {
			if i > len(data)+2 {
				return "wt-reader-runaway", "ReadMessage produced more messages than the stream has bytes", i
			}
			hok, hbin, hn, hlen := wtHeader(rest)
			typ, p, err := conn.ReadMessage()
			switch {
			case !hok:
				if err == nil {
					return "wt-reader-message-from-incomplete-header", fmt.Sprintf("ReadMessage delivered message %d although only %d header bytes remain", i, len(rest)), i
				}
				if !nextErrOK(err) {
					return "wt-reader-wrong-end-error", fmt.Sprintf("stream ended (%s) in header of frame %d: ReadMessage error %q", cs.Variant, i, err), i
				}
				k, m := terminal("ReadMessage", err)
				return k, m, i
			case int64(hn) < 0:
				if err == nil {
					return "wt-reader-accepts-negative-length", fmt.Sprintf("frame %d declares length %d (>= 2^63) and ReadMessage delivered it", i, hn), i
				}
				k, m := terminal("ReadMessage", err)
				return k, m, i
			case cs.Limit > 0 && int64(hn) > cs.Limit:
				if err != webtrans.ErrReadLimit {
					return "wt-reader-limit-wrong-error", fmt.Sprintf("ReadMessage: frame %d declares %d bytes, limit %d: error %v", i, hn, cs.Limit, err), i
				}
				if codes := rec.get(); len(codes) != 1 || codes[0] != webtrans.CloseMessageTooBig {
					return "wt-reader-limit-no-session-close", fmt.Sprintf("limit violation: session close calls = %v (want one with code 1009)", codes), i
				}
				k, m := terminal("ReadMessage", err)
				return k, m, i
			}
			avail := rest[hlen:]
			if uint64(len(p)) > hn {
				return "wt-reader-more-than-declared", fmt.Sprintf("frame %d declared %d bytes, ReadMessage returned %d", i, hn, len(p)), i
			}
			if len(p) > len(avail) {
				return "wt-reader-more-than-supplied", fmt.Sprintf("frame %d: stream supplied %d payload bytes, ReadMessage returned %d", i, len(avail), len(p)), i
			}
			if !bytes.Equal(p, avail[:len(p)]) {
				return "wt-reader-payload-mismatch", fmt.Sprintf("frame %d: ReadMessage bytes differ from the stream", i), i
			}
			if uint64(len(avail)) >= hn {
				if err != nil {
					return "wt-reader-error-in-complete-frame", fmt.Sprintf("frame %d is complete (%d bytes) but ReadMessage failed with %q", i, hn, err), i
				}
				if uint64(len(p)) != hn || (typ == webtrans.BinaryMessage) != hbin {
					return "wt-reader-short-message", fmt.Sprintf("frame %d: ReadMessage returned %d of %d bytes, type %d (binary bit %v)", i, len(p), hn, typ, hbin), i
				}
				msgsSeen++
				rest = avail[hn:]
				continue
			}
			if err == nil {
				return "wt-reader-truncated-frame-as-complete", fmt.Sprintf("frame %d declares %d bytes, stream has %d, ReadMessage reported a complete message of %d bytes", i, hn, len(avail), len(p)), i
			}
			if !endErrOK(err) {
				return "wt-reader-wrong-end-error", fmt.Sprintf("stream ended (%s) inside frame %d: ReadMessage error %q", cs.Variant, i, err), i
			}
			_, _, e := conn.NextReader()
			if e == nil || e.Error() != err.Error() {
				return "wt-reader-error-not-sticky", fmt.Sprintf("ReadMessage failed with %q, following NextReader returned %v", err, e), i
			}
			k, m := terminal("NextReader", e)
			return k, m, i
		}
	}
	var prevReader io.Reader
	for i := 0; ; i++ {
		if i > len(data)+2 {
			return "wt-reader-runaway", "reader produced more messages than the stream has bytes", i
		}
		hok, hbin, hn, hlen := wtHeader(rest)
		typ, rd, err := conn.NextReader()
		if prevReader != nil {
			// the reader of the previous message is stale now: it must not hand out bytes that
			// belong to this (or any later) message
			sb := make([]byte, 8)
			if n, _ := prevReader.Read(sb); n > 0 {
				return "wt-reader-stale-reader-returns-bytes", fmt.Sprintf("after NextReader for frame %d, the reader of frame %d still returned %d byte(s): more than its header declared, taken from a later frame", i, i-1, n), i
			}
		}
		prevReader = nil
		if !hok {
			// stream ends before/inside a header: no message may be produced
			if err == nil {
				return "wt-reader-message-from-incomplete-header", fmt.Sprintf("message %d delivered although only %d header bytes remain", i, len(rest)), i
			}
			if !nextErrOK(err) {
				return "wt-reader-wrong-end-error", fmt.Sprintf("stream ended (%s) in header of frame %d: NextReader error %q", cs.Variant, i, err), i
			}
			k, m := terminal("NextReader", err)
			return k, m, i
		}
		if int64(hn) < 0 {
			if err == nil {
				return "wt-reader-accepts-negative-length", fmt.Sprintf("frame %d declares length %d (>= 2^63) and was delivered", i, hn), i
			}
			k, m := terminal("NextReader", err)
			return k, m, i
		}
		if cs.Limit > 0 && int64(hn) > cs.Limit {
			if err == nil {
				return "wt-reader-limit-not-enforced", fmt.Sprintf("frame %d declares %d bytes, limit %d, and was delivered", i, hn, cs.Limit), i
			}
			if err != webtrans.ErrReadLimit {
				return "wt-reader-limit-wrong-error", fmt.Sprintf("limit violation reported as %q", err), i
			}
			codes := rec.get()
			if len(codes) != 1 || codes[0] != webtrans.CloseMessageTooBig {
				return "wt-reader-limit-no-session-close", fmt.Sprintf("limit violation: session close calls = %v (want one with code 1009)", codes), i
			}
			k, m := terminal("NextReader", err)
			return k, m, i
		}
		if err != nil {
			return "wt-reader-spurious-error", fmt.Sprintf("frame %d (header complete, length %d, limit %d): NextReader error %q", i, hn, cs.Limit, err), i
		}
		if (typ == webtrans.BinaryMessage) != hbin {
			return "wt-reader-wrong-kind", fmt.Sprintf("frame %d kind bit %v delivered as type %d", i, hbin, typ), i
		}
		avail := rest[hlen:]
		complete := uint64(len(avail)) >= hn
		var want []byte
		if complete {
			want = avail[:hn]
		} else {
			want = avail
		}
		// consume
		var got []byte
		var rerr error
		budget := -1
		if cs.Pattern == "partial" {
			budget = rng.IntN(len(want) + 2)
		}
		buf := make([]byte, 1+rng.IntN(300))
		for {
			if cs.Pattern == "zero" && rng.IntN(3) == 0 {
				n, e := rd.Read(buf[:0])
				if n != 0 {
					return "wt-reader-zero-read-returned-bytes", fmt.Sprintf("zero-length read returned %d", n), i
				}
				if e != nil {
					rerr = e
					break
				}
			}
			b := buf
			if budget >= 0 {
				if budget == 0 {
					break
				}
				if len(b) > budget {
					b = b[:budget]
				}
			}
			n, e := rd.Read(b)
			got = append(got, b[:n]...)
			if budget >= 0 {
				budget -= n
			}
			if uint64(len(got)) > hn {
				return "wt-reader-more-than-declared", fmt.Sprintf("frame %d declared %d bytes, reader returned %d", i, hn, len(got)), i
			}
			if len(got) > len(want) {
				return "wt-reader-more-than-supplied", fmt.Sprintf("frame %d: stream supplied %d payload bytes, reader returned %d", i, len(want), len(got)), i
			}
			if e != nil {
				rerr = e
				break
			}
			if n == 0 && len(b) > 0 {
				// no progress without error: tolerated a few times only
				budget = 0
				rerr = errors.New("harness: read returned 0, nil")
				return "wt-reader-no-progress", fmt.Sprintf("frame %d: Read returned (0, nil) for a %d-byte buffer", i, len(b)), i
			}
		}
		if !bytes.Equal(got, want[:len(got)]) {
			return "wt-reader-payload-mismatch", fmt.Sprintf("frame %d: payload bytes differ from the stream", i), i
		}
		msgsSeen++
		prevReader = rd
		if complete {
			if rerr != nil && rerr != io.EOF {
				return "wt-reader-error-in-complete-frame", fmt.Sprintf("frame %d is complete (%d bytes) but Read failed with %q after %d bytes", i, hn, rerr, len(got)), i
			}
			if rerr == io.EOF && len(got) != len(want) {
				return "wt-reader-short-message", fmt.Sprintf("frame %d: EOF after %d of %d bytes", i, len(got), hn), i
			}
			rest = avail[hn:]
			continue
		}
		// incomplete frame: the stream ends inside it
		if rerr == nil {
			// partial consumption stopped before the end; the next NextReader must fail, not deliver
			_, _, e := conn.NextReader()
			if e == nil {
				return "wt-reader-message-after-truncated-frame", fmt.Sprintf("frame %d truncated (%d of %d bytes) yet NextReader delivered another message", i, len(want), hn), i
			}
			if !nextErrOK(e) {
				return "wt-reader-wrong-end-error", fmt.Sprintf("stream ended (%s) inside frame %d: NextReader error %q", cs.Variant, i, e), i
			}
			k, m := terminal("NextReader", e)
			return k, m, i
		}
		if rerr == io.EOF {
			return "wt-reader-truncated-frame-as-complete", fmt.Sprintf("frame %d declares %d bytes, stream has %d, reader reported a complete message (io.EOF after %d bytes)", i, hn, len(want), len(got)), i
		}
		if !endErrOK(rerr) {
			return "wt-reader-wrong-end-error", fmt.Sprintf("stream ended (%s) inside frame %d: Read error %q", cs.Variant, i, rerr), i
		}
		// same failure from now on (NextReader reports what Read reported)
		_, _, e := conn.NextReader()
		if e == nil || e.Error() != rerr.Error() {
			return "wt-reader-error-not-sticky", fmt.Sprintf("Read failed with %q, following NextReader returned %v", rerr, e), i
		}
		k, m := terminal("NextReader", e)
		return k, m, i
	}
}

func genC15Stream(rng *rand.Rand) (stream []byte, kind string) {
	switch rng.IntN(10) {
	case 0: // random bytes
		n := 1 + rng.IntN(40)
		b := make([]byte, n)
		for i := range b {
			b[i] = byte(rng.UintN(256))
		}
		return b, "random"
	case 1: // 64-bit extremes
		var b []byte
		hdr := byte(127)
		if rng.IntN(2) == 0 {
			hdr |= 0x80
		}
		var l [8]byte
		v := []uint64{1<<63 - 1, 1 << 63, 1<<64 - 1, 1 << 32, 1<<31 - 1, 65536, 5, 0}[rng.IntN(8)]
		binary.BigEndian.PutUint64(l[:], v)
		// optionally a valid frame first
		if rng.IntN(2) == 0 {
			b = append(b, refcodec.WTFrame(false, []byte("hi"))...)
		}
		b = append(b, hdr)
		b = append(b, l[:]...)
		b = append(b, fillPayload(rng, rng.IntN(30), false)...)
		return b, "len64"
	}
	// valid stream, optionally mutated
	var b []byte
	nf := 1 + rng.IntN(4)
	for k := 0; k < nf; k++ {
		ln := []int{0, 1, rng.IntN(20), 125, 126, 127, 130 + rng.IntN(100)}[rng.IntN(7)]
		form := []int{0, 0, 16, 64}[rng.IntN(4)]
		bin := rng.IntN(2) == 0
		b = append(b, refcodec.WTFrameForm(bin, fillPayload(rng, ln, !bin), form)...)
	}
	if rng.IntN(3) == 0 {
		i := rng.IntN(len(b))
		b[i] ^= byte(1 << rng.UintN(8))
		return b, "mutated"
	}
	return b, "valid"
}

func TestC15(t *testing.T) {
	r := rep.New(t, "C15")
	defer r.Flush()
	r.Rule("corpus of byte streams (valid frame sequences with minimal/16/64-bit forms, single-bit mutations, random bytes, 64-bit lengths up to 2^64-1); each stream is cut at EVERY offset and ended by EOF, by an injected error, and by a transient read timeout after which the application sets a new deadline (the rest of the stream still available), x read limits {0,1,125,126,200,65535} x consumption {all, partial then NextReader, zero-length reads, the one-call ReadMessage}, and after every NextReader the previous message's (stale) reader is read again; every return value of the real reader is checked against a reference parse; distinct = (corpus kind, cut class, variant, limit, pattern, outcome class)")
	r.Assume("the documented guard (panic after 1000 reads of a failed connection) is never approached: at most 5 reads follow a failure")
	nStreams := r.N(600, 40000)
	rng := r.Rand(15)
	limits := []int64{0, 1, 125, 126, 200, 65535}
	patterns := []string{"all", "partial", "zero", "readmessage"}
	for s := 0; s < nStreams; s++ {
		stream, kind := genC15Stream(rng)
		r.ObsSet("streams", string(stream))
		for cut := 0; cut <= len(stream); cut++ {
			for _, variant := range []string{"eof", "error", "timeout"} {
				// two (limit, pattern) draws per cut/variant in quick, all limits in thorough
				draws := 2
				if r.Thorough() {
					draws = 3
				}
				for d := 0; d < draws; d++ {
					cs := c15Case{
						Cut: cut, Variant: variant,
						Limit:   limits[rng.IntN(len(limits))],
						Pattern: patterns[rng.IntN(len(patterns))],
						RBuf:    []int{16, 64, 4096}[rng.IntN(3)],
						Frag:    []int{0, 1, 5}[rng.IntN(3)],
					}
					key, msg, seen := runC15(stream, cs, rng)
					cutClass := "mid"
					if cut == len(stream) {
						cutClass = "full"
					} else if cut == 0 {
						cutClass = "empty"
					}
					out := "ok"
					if key != "" {
						out = key
					}
					r.Case(fmt.Sprintf("%s/%s/%s/L%d/%s/m%d/%s", kind, cutClass, variant, cs.Limit, cs.Pattern, min(seen, 3), out), true)
					r.Obs("stream_fault_cases", 1)
					r.Obs("messages_checked", int64(seen))
					r.Obs("variant:"+variant, 1)
					if key != "" {
						cs.Stream = fmt.Sprintf("%x", stream)
						cs.SeedInfo = fmt.Sprintf("seed=%d lane=%d stream=%d", r.Seed, r.Lane, s)
						r.Violation(key, msg, cs)
					}
					if s < 2 && cut == len(stream)/2 && d == 0 && variant == "eof" {
						cs.Stream = fmt.Sprintf("%x", stream)
						r.Sample(cs)
					}
				}
			}
		}
	}
	// the guard itself: the only sanctioned panic, and only at the 1000th read of a failed connection
	func() {
		sa, sb := fakenet.StreamPipe()
		sa.Close()
		conn := webtrans.NewConn(nil, sb, true, 0, 0, nil, nil, nil)
		n := 0
		defer func() {
			p := recover()
			r.Obs("guard_panic_at_read", int64(n))
			if p != nil && n < 1000 {
				r.Violationf("wt-reader-panic", nil, "panic at read %d of a failed connection, before the documented 1000-read guard (%v)", n, p)
			}
		}()
		for n = 1; n <= 1100; n++ {
			conn.NextReader()
		}
	}()
}
