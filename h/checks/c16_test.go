package checks

import (
	"bytes"
	"fmt"
	"math/rand/v2"
	"net/http"
	"strconv"
	"strings"
	"testing"
	"time"

	"github.com/zishang520/engine.io-go-parser/packet"
	"github.com/zishang520/engine.io/v2/config"
	"github.com/zishang520/engine.io/v2/types"

	"verifh/refcodec"
	"verifh/rep"
	"verifh/rig"
)

type c16Case struct {
	Rev       int        `json:"rev"`
	B64       bool       `json:"b64"`
	JSONP     bool       `json:"jsonp"`
	J         string     `json:"j"`
	AcceptEnc string     `json:"accept_encoding"`
	Threshold int        `json:"threshold"`
	Batches   [][]outMsg `json:"batches"`
	// RotateAE: every poll of the session names its own Accept-Encoding (drawn per poll)
	RotateAE bool `json:"accept_encoding_differs_per_poll"`
	// StrayJ: a session opened as plain polling whose later polls carry a j parameter
	StrayJ bool `json:"plain_session_polls_with_j_parameter"`
	// OuterHeaders: an outer handler has already put its own defaults (Content-Type, Cache-Control)
	// on every response before the engine is entered
	OuterHeaders bool   `json:"outer_handler_presets_content_type"`
	Seed         string `json:"seed"`
}

var c16AE = []string{"", "gzip", "deflate", "br", "zstd", "gzip, deflate", "br;q=1.0, gzip;q=0.5", "identity", "*", "x-br-custom", "xgzip", "bread, undeflated", "GZIP", "GZip", "DEFLATE;q=0.8", "Br", "ZStd", "gzip;q=0", "compress, zstd"}
var c16J = []string{"0", "7", "42", "007", "", "abc", "1a2b3", "12);alert(1);//", "</script><script>alert(1)</script>", "٣", "１２", "-5", "1e3", " 9 "}

func genC16(rng *rand.Rand) c16Case {
	c := c16Case{Rev: 4, Threshold: []int{0, 1, 30, 1024, 1 << 20}[rng.IntN(5)]}
	if rng.IntN(3) == 0 {
		c.Rev = 3
	}
	c.JSONP = rng.IntN(3) == 0
	c.B64 = rng.IntN(3) == 0 || (c.JSONP && c.Rev == 3)
	c.AcceptEnc = c16AE[rng.IntN(len(c16AE))]
	c.RotateAE = rng.IntN(3) == 0
	c.StrayJ = !c.JSONP && rng.IntN(4) == 0
	c.OuterHeaders = rng.IntN(4) == 0
	if c.JSONP {
		c.J = c16J[rng.IntN(len(c16J))]
		if rng.IntN(12) == 0 {
			c.J = strings.Repeat("9", 10000)
		}
	}
	nb := 1 + rng.IntN(5)
	for b := 0; b < nb; b++ {
		n := 1 + rng.IntN(5)
		var ms []outMsg
		for i := 0; i < n; i++ {
			m := outMsg{Binary: rng.IntN(3) == 0, Size: []int{0, 1, 12, 29, 30, 31, 100, 1023, 1024, 1025, 3000}[rng.IntN(11)]}
			m.Opt = []string{"nil", "nocompress", "nocompress", "compress"}[rng.IntN(4)]
			m.Reader = "strbuf"
			if m.Binary {
				m.Reader = "bytesbuf"
			}
			m.NonASCII = rng.IntN(3) == 0
			ms = append(ms, m)
		}
		c.Batches = append(c.Batches, ms)
	}
	return c
}

func hostileText(rng *rand.Rand, n int, nonASCII bool, sepOK bool) []byte {
	al := []string{"a", "b", "\"", "\\", "\n", "\r", "'", "/", "<", ">", "&", "</script>", "<!--", "]]>", "\t", "\x00", "\x7f", ":", "0"}
	if nonASCII {
		al = append(al, "\u2028", "\u2029", "é", "😀", "\ufeff", "中")
	}
	if sepOK {
		al = append(al, "\x1e")
	}
	var out []byte
	for len(out) < n {
		s := al[rng.IntN(len(al))]
		if len(out)+len(s) > n {
			s = "z"
		}
		out = append(out, s...)
	}
	return out
}

type batchExp struct {
	pkts     []refcodec.Packet
	compress bool
	unknown  []int // indices whose content the monitor could not observe
}

func (b batchExp) matches(got []refcodec.Packet) bool {
	if len(got) != len(b.pkts) {
		return false
	}
	want := append([]refcodec.Packet(nil), b.pkts...)
	for _, i := range b.unknown {
		if got[i].Type != want[i].Type {
			return false
		}
		want[i] = got[i]
	}
	return eqPackets(got, want)
}

func runC16(c c16Case, rng *rand.Rand, r *rep.Report) (key, msg string, stats map[string]int64) {
	stats = map[string]int64{}
	var pan any
	func() {
		defer func() { pan = recover() }()
		rig.Bubble(r.T(), func() {
			so := &config.ServerOptions{}
			so.SetAllowEIO3(true)
			so.SetHttpCompression(&types.HttpCompression{Threshold: c.Threshold})
			so.SetPingInterval(20 * time.Second)
			wo := rig.Options{Server: so}
			if c.OuterHeaders {
				wo.PreHeaders = http.Header{"Content-Type": {"application/json; charset=utf-8"}, "Cache-Control": {"max-age=3600"}}
			}
			w := rig.NewWorld(wo)
			defer w.Finish()
			cl, err := w.Connect(rig.ClientCfg{Rev: c.Rev, Transport: "polling", B64: c.B64, JSONP: c.JSONP, J: c.J, AcceptEnc: c.AcceptEnc})
			rig.Wait()
			sock := w.Socket(0)
			if sock == nil {
				key, msg = classifyC16(c, "c16-handshake-undecodable"), fmt.Sprint(err)
				// still analyse the raw handshake response below
			}
			aeOf := []string{c.AcceptEnc} // Accept-Encoding of the handshake and of every poll after it
			if sock != nil {
				for _, ms := range c.Batches {
					// one batch = sends issued while no poll is pending
					for i := range ms {
						m := &ms[i]
						if m.Binary {
							m.payload = fillPayload(rng, m.Size, false)
						} else {
							m.payload = hostileText(rng, m.Size, m.NonASCII, c.Rev == 3)
						}
						sock.Send(mkReader(*m), mkOptions(*m, c01Case{Rev: c.Rev, B64: c.B64}), nil)
					}
					rig.Wait()
					if c.RotateAE {
						cl.Cfg.AcceptEnc = []string{"gzip", "deflate", "br", "zstd", "", "identity", "GZip", "br;q=1.0, gzip;q=0.5"}[rng.IntN(8)]
					}
					aeOf = append(aeOf, cl.Cfg.AcceptEnc)
					if c.StrayJ {
						cl.Cfg.Extra = "j=5"
					}
					if _, ok := cl.PollStart().WaitFor(5 * time.Second); !ok {
						key, msg = "c16-poll-not-answered", fmt.Sprintf("a poll with Accept-Encoding %q was not answered within 5 s although a batch was waiting", cl.Cfg.AcceptEnc)
						return
					}
					rig.Wait()
				}
			}
			// expected batches from the event log: packetCreate gives the content of every
			// packet (by pointer), flush gives the composition of every hand-off
			content := map[*packet.Packet]refcodec.Packet{}
			comp := map[*packet.Packet]bool{}
			var exp []batchExp
			for _, e := range w.Tap.Events() {
				switch e.Kind {
				case "packetCreate":
					p := e.Args[0].(*packet.Packet)
					typ := map[packet.Type]byte{packet.OPEN: '0', packet.CLOSE: '1', packet.PING: '2', packet.PONG: '3', packet.MESSAGE: '4', packet.UPGRADE: '5', packet.NOOP: '6'}[p.Type]
					i := strings.Index(e.Str, ":")
					content[p] = refcodec.Packet{Type: typ, Data: []byte(e.Str[i+1:]), Binary: e.Bin}
					comp[p] = p.Options != nil && p.Options.Compress
				case "srv:flush":
					var be batchExp
					for _, p := range e.Args[1].([]*packet.Packet) {
						if cp, ok := content[p]; ok {
							be.pkts = append(be.pkts, cp)
						} else {
							// created before the session was announced (the open packet): only its
							// type is known to the monitor
							typ := map[packet.Type]byte{packet.OPEN: '0', packet.CLOSE: '1', packet.PING: '2', packet.PONG: '3', packet.MESSAGE: '4', packet.UPGRADE: '5', packet.NOOP: '6'}[p.Type]
							be.pkts = append(be.pkts, refcodec.Packet{Type: typ, Data: nil})
							be.unknown = append(be.unknown, len(be.pkts)-1)
						}
						if p.Options != nil && p.Options.Compress {
							be.compress = true
						}
					}
					exp = append(exp, be)
				}
			}
			// all poll responses in order: handshake + polls recorded by the world
			var polls []rig.Req
			for _, q := range w.Requests() {
				if q.Method == "GET" {
					polls = append(polls, q)
				}
			}
			bi := 0
			for pi, q := range polls {
				stats["poll_responses"]++
				if q.Status != 200 {
					key, msg = "c16-poll-status", fmt.Sprintf("poll #%d answered %d", pi, q.Status)
					return
				}
				ce := q.Header.Get("Content-Encoding")
				if cl, _ := strconv.Atoi(q.Header.Get("Content-Length")); cl != len(q.Body) || q.Header.Get("Content-Length") == "" {
					key, msg = "c16-content-length", fmt.Sprintf("poll #%d: Content-Length %q, body %d bytes", pi, q.Header.Get("Content-Length"), len(q.Body))
					return
				}
				body, derr := refcodec.DecodeContent(ce, q.Body)
				if derr != nil {
					key, msg = "c16-content-encoding-undecodable:"+ce, fmt.Sprintf("poll #%d: body does not decode as %s: %v", pi, ce, derr)
					return
				}
				if ce != "" {
					stats["compressed_responses"]++
					stats["coding:"+ce]++
				}
				raw := body
				if c.JSONP {
					stats["jsonp_responses"]++
					digits, payload, perr := refcodec.ParseJSONP(body)
					if perr != nil {
						key, msg = "c16-jsonp-malformed", fmt.Sprintf("poll #%d (j=%.40q): %v; body %.80q", pi, c.J, perr, body)
						return
					}
					want := ""
					for _, ch := range c.J {
						if ch >= '0' && ch <= '9' {
							want += string(ch)
						}
					}
					if digits != want {
						key, msg = "c16-jsonp-index", fmt.Sprintf("j=%.40q: response index %.40q, want %.40q", c.J, digits, want)
						return
					}
					if !refcodec.ScriptSafe(body) {
						key, msg = "c16-jsonp-script-unsafe", fmt.Sprintf("JSONP body contains a raw </script or <!--: %.100q", body)
						return
					}
					body = payload
				}
				form := "v4"
				ct := q.Header.Get("Content-Type")
				if n := len(q.Header.Values("Content-Type")); n != 1 {
					key, msg = "c16-content-type", fmt.Sprintf("poll #%d: %d Content-Type header fields %q", pi, n, q.Header.Values("Content-Type"))
					return
				}
				isBinaryBody := false
				if c.Rev == 3 {
					form = "v3s"
					if strings.HasPrefix(ct, "application/octet-stream") {
						form = "v3b"
						isBinaryBody = true
					}
				}
				got, perr := refcodec.DecodePayload(form, body)
				if perr != nil {
					key, msg = classifyC16(c, "c16-payload-undecodable"), fmt.Sprintf("poll #%d (%s, Content-Type %q): %v; body %.80q", pi, form, ct, perr, body)
					return
				}
				// which hand-off is this?
				var be *batchExp
				if bi < len(exp) && exp[bi].matches(got) {
					be = &exp[bi]
					be.pkts = got
					bi++
					stats["responses_matching_a_flushed_batch"]++
				} else if len(got) == 1 && (got[0].Type == refcodec.Noop || got[0].Type == refcodec.Close) && len(got[0].Data) == 0 {
					be = &batchExp{pkts: got}
					stats["responses_transport_own"]++
				} else {
					wantS := "none left"
					if bi < len(exp) {
						wantS = fmt.Sprint(exp[bi].pkts)
					}
					key, msg = classifyC16(c, "c16-payload-mismatch"), fmt.Sprintf("poll #%d decodes to %v, the next flushed batch is %s", pi, got, wantS)
					return
				}
				// content type vs nature of the body
				wantBinary := false
				if c.Rev == 3 && !c.B64 && !c.JSONP {
					for _, p := range be.pkts {
						if p.Binary {
							wantBinary = true
						}
					}
				}
				if wantBinary != isBinaryBody || (!isBinaryBody && !strings.HasPrefix(ct, "text/")) {
					key, msg = "c16-content-type", fmt.Sprintf("poll #%d: Content-Type %q for a %s body", pi, ct, map[bool]string{true: "binary", false: "text"}[wantBinary])
					return
				}
				if ce != "" {
					if !be.compress {
						key, msg = "c16-compressed-unrequested", fmt.Sprintf("poll #%d is %s-encoded although no packet of the batch asked for compression", pi, ce)
						return
					}
					if len(raw) < c.Threshold {
						key, msg = "c16-compressed-below-threshold", fmt.Sprintf("poll #%d is %s-encoded: %d bytes, threshold %d", pi, ce, len(raw), c.Threshold)
						return
					}
					ae := c.AcceptEnc
					if pi < len(aeOf) {
						ae = aeOf[pi]
					}
					if !refcodec.AcceptNames(ae, ce) {
						key, msg = "c16-coding-not-accepted", fmt.Sprintf("poll #%d: Accept-Encoding %q does not name %q, yet the response uses it", pi, ae, ce)
						return
					}
					if c.RotateAE {
						stats["compressed_responses_in_sessions_whose_polls_name_different_codings"]++
					}
				}
			}
			if bi != len(exp) && key == "" && sock != nil {
				key, msg = "c16-batch-never-on-wire", fmt.Sprintf("%d flushed batches, %d seen in poll responses", len(exp), bi)
			}
			cl.Stop()
		})
	}()
	if pan != nil {
		return "c16-panic", fmt.Sprint(pan), stats
	}
	return
}

func eqPackets(a, b []refcodec.Packet) bool {
	if len(a) != len(b) {
		return false
	}
	for i := range a {
		if a[i].Type != b[i].Type || a[i].Binary != b[i].Binary || !bytes.Equal(a[i].Data, b[i].Data) {
			return false
		}
	}
	return true
}

func classifyC16(c c16Case, key string) string {
	if c.Rev == 3 && !c.B64 && !c.JSONP {
		hasBin, nonASCII := false, false
		for _, b := range c.Batches {
			for _, m := range b {
				if m.Binary {
					hasBin = true
				} else if !isASCII(m.payload) {
					nonASCII = true
				}
			}
		}
		if hasBin && nonASCII {
			return "v3-binary-payload-non-ascii-text"
		}
	}
	return key
}

func TestC16(t *testing.T) {
	r := rep.New(t, "C16")
	defer r.Flush()
	if r.Lane == 3%r.Lanes {
		// the engine behind a types.HttpServer listening itself: HTTP/1.1, HTTP/2 (TLS) and HTTP/3 (QUIC) on loopback
		netLanes(r, r.N(4, 64))
	}
	r.Rule("PRNG polling/JSONP sessions: revision x b64 x Accept-Encoding (each coding, lists, q-values, identity, *, look-alike tokens, codings spelled in other cases) x threshold x arbitrary j strings x batches of hostile text (quotes, backslashes, CR/LF, U+2028/2029, </script>, <!--) and binary packets with per-packet compress options; every raw poll response recorded by the wrapping handler is decoded (content coding as RFC 9110, JSONP by a strict JS-string scanner, payload by the reference codec) and matched against the batches of the flush events (packet identity from packetCreate); headers checked against body; distinct = configuration/batch-shape signature")
	r.Assume("a response may stay uncompressed even when compression would be allowed: the statement only restricts when a coding may be applied")
	// a case that has not ended after a minute of real time (normal: milliseconds) is examined for a
	// goroutine spinning in library code (rep.Guard)
	r.Guard(60 * time.Second)
	n := r.N(2400, 200000)
	for i := 0; i < n; i++ {
		if !r.Only(i) {
			continue
		}
		rng := r.CaseRand(16, i)
		c := genC16(rng)
		if c.Rev == 3 && !c.B64 && !c.JSONP && i%8 != 0 {
			// keep the known parser defect (v3 binary payload + non-ASCII text) to one lane in eight
			for bi := range c.Batches {
				for mi := range c.Batches[bi] {
					c.Batches[bi][mi].NonASCII = false
				}
			}
		}
		c.Seed = fmt.Sprintf("seed=%d lane=%d case=%d", r.Seed, r.Lane, i)
		r.Begin(fmt.Sprint(i), c)
		key, msg, stats := runC16(c, rng, r)
		r.End(fmt.Sprint(i))
		shape := ""
		for _, b := range c.Batches {
			for _, m := range b {
				shape += map[bool]string{true: "b", false: "t"}[m.Binary] + m.Opt[:2]
			}
			shape += "|"
		}
		jl := c.J
		if len(jl) > 12 {
			jl = jl[:12]
		}
		r.Case(fmt.Sprintf("v%d/%v/%v/%q/%q/%d/%s", c.Rev, c.B64, c.JSONP, jl, c.AcceptEnc, c.Threshold, shape), stats["poll_responses"] > 1)
		for k, v := range stats {
			r.Obs(k, v)
		}
		if i < 2 {
			r.Sample(c)
		}
		if key != "" {
			r.Violation(key, msg, c)
		}
	}
}
