package checks

import (
	"fmt"
	"math/rand/v2"
	"regexp"
	"runtime"
	"sort"
	"sync"
	"sync/atomic"
	"testing"
	"time"

	"github.com/anishathalye/porcupine"
	"github.com/zishang520/engine.io/v2/events"
	"github.com/zishang520/engine.io/v2/types"
	"github.com/zishang520/engine.io/v2/utils"

	"strings"
	"verifh/rep"
)

// logical clock shared by all recorders: call stamped before invoking, return after.
type histRec struct {
	clock atomic.Int64
	mu    sync.Mutex
	ops   []porcupine.Operation
}

func (h *histRec) do(client int, in any, f func() any) {
	call := h.clock.Add(1)
	out := f()
	ret := h.clock.Add(1)
	h.mu.Lock()
	h.ops = append(h.ops, porcupine.Operation{ClientId: client, Input: in, Call: call, Output: out, Return: ret})
	h.mu.Unlock()
}

// ----- Map -----

type mapIn struct {
	Op  string
	Key string
	V   int
	Old int
}
type mapOut struct {
	V  int
	Ok bool
}
type mapSt struct {
	v  int
	ok bool
}

var mapModel = porcupine.Model{
	Partition: func(h []porcupine.Operation) [][]porcupine.Operation {
		by := map[string][]porcupine.Operation{}
		for _, o := range h {
			k := o.Input.(mapIn).Key
			by[k] = append(by[k], o)
		}
		var out [][]porcupine.Operation
		for _, v := range by {
			out = append(out, v)
		}
		return out
	},
	Init: func() any { return mapSt{} },
	Step: func(state, input, output any) (bool, any) {
		st := state.(mapSt)
		in := input.(mapIn)
		out := output.(mapOut)
		switch in.Op {
		case "Load":
			if st.ok {
				return out.Ok && out.V == st.v, st
			}
			return !out.Ok && out.V == 0, st
		case "Store":
			return true, mapSt{in.V, true}
		case "LoadOrStore":
			if st.ok {
				return out.Ok && out.V == st.v, st
			}
			return !out.Ok && out.V == in.V, mapSt{in.V, true}
		case "LoadAndDelete":
			if st.ok {
				return out.Ok && out.V == st.v, mapSt{}
			}
			return !out.Ok && out.V == 0, st
		case "Delete":
			return true, mapSt{}
		case "Swap":
			if st.ok {
				return out.Ok && out.V == st.v, mapSt{in.V, true}
			}
			return !out.Ok && out.V == 0, mapSt{in.V, true}
		case "CompareAndSwap":
			if st.ok && st.v == in.Old {
				return out.Ok, mapSt{in.V, true}
			}
			return !out.Ok, st
		case "CompareAndDelete":
			if st.ok && st.v == in.Old {
				return out.Ok, mapSt{}
			}
			return !out.Ok, st
		}
		return false, st
	},
	DescribeOperation: func(in, out any) string { return fmt.Sprintf("%+v -> %+v", in, out) },
}

func concMapHistory(rng *rand.Rand) []porcupine.Operation {
	m := &types.Map[string, int]{}
	h := &histRec{}
	g := 2 + rng.IntN(7)
	keys := []string{"a", "b"}
	var written atomic.Int64
	var wg sync.WaitGroup
	type planned struct {
		op  string
		key string
		old int
	}
	plans := make([][]planned, g)
	for c := range plans {
		n := 1 + rng.IntN(6)
		for i := 0; i < n; i++ {
			plans[c] = append(plans[c], planned{
				op:  []string{"Load", "Store", "LoadOrStore", "LoadAndDelete", "Delete", "Swap", "CompareAndSwap", "CompareAndDelete", "Load", "Store"}[rng.IntN(10)],
				key: keys[rng.IntN(len(keys))],
				old: 1 + rng.IntN(6),
			})
		}
	}
	start := make(chan struct{})
	for c := 0; c < g; c++ {
		wg.Add(1)
		go func(c int) {
			defer wg.Done()
			<-start
			for _, p := range plans[c] {
				v := int(written.Add(1)) // unique value per write
				in := mapIn{Op: p.op, Key: p.key, V: v, Old: p.old}
				h.do(c, in, func() any {
					switch p.op {
					case "Load":
						x, ok := m.Load(p.key)
						return mapOut{x, ok}
					case "Store":
						m.Store(p.key, v)
						return mapOut{}
					case "LoadOrStore":
						x, ok := m.LoadOrStore(p.key, v)
						return mapOut{x, ok}
					case "LoadAndDelete":
						x, ok := m.LoadAndDelete(p.key)
						return mapOut{x, ok}
					case "Delete":
						m.Delete(p.key)
						return mapOut{}
					case "Swap":
						x, ok := m.Swap(p.key, v)
						return mapOut{x, ok}
					case "CompareAndSwap":
						return mapOut{0, m.CompareAndSwap(p.key, p.old, v)}
					case "CompareAndDelete":
						return mapOut{0, m.CompareAndDelete(p.key, p.old)}
					}
					return nil
				})
			}
		}(c)
	}
	close(start)
	wg.Wait()
	return h.ops
}

// ----- Set -----

type setIn struct {
	Op  string
	Key int
}

var setModel = porcupine.Model{
	Partition: func(h []porcupine.Operation) [][]porcupine.Operation {
		by := map[int][]porcupine.Operation{}
		for _, o := range h {
			k := o.Input.(setIn).Key
			by[k] = append(by[k], o)
		}
		var out [][]porcupine.Operation
		for _, v := range by {
			out = append(out, v)
		}
		return out
	},
	Init: func() any { return false },
	Step: func(state, input, output any) (bool, any) {
		st := state.(bool)
		in := input.(setIn)
		switch in.Op {
		case "Add":
			return true, true
		case "Delete":
			return true, false
		case "Has":
			return output.(bool) == st, st
		}
		return false, st
	},
}

func concSetHistory(rng *rand.Rand) []porcupine.Operation {
	s := types.NewSet[int]()
	h := &histRec{}
	g := 2 + rng.IntN(7)
	var wg sync.WaitGroup
	start := make(chan struct{})
	plans := make([][]setIn, g)
	for c := range plans {
		n := 1 + rng.IntN(6)
		for i := 0; i < n; i++ {
			plans[c] = append(plans[c], setIn{[]string{"Add", "Delete", "Has", "Has"}[rng.IntN(4)], rng.IntN(2)})
		}
	}
	for c := 0; c < g; c++ {
		wg.Add(1)
		go func(c int) {
			defer wg.Done()
			<-start
			for _, in := range plans[c] {
				h.do(c, in, func() any {
					switch in.Op {
					case "Add":
						s.Add(in.Key)
					case "Delete":
						s.Delete(in.Key)
					case "Has":
						return s.Has(in.Key)
					}
					return nil
				})
			}
		}(c)
	}
	close(start)
	wg.Wait()
	return h.ops
}

// ----- Slice (sequence model, unique values) -----

type slIn struct {
	Op string
	V  int
}
type slOut struct {
	V   int
	Err bool
	N   int
	All string
}

var sliceModel = porcupine.Model{
	Init: func() any { return "" }, // state = fmt of the sequence
	Step: func(state, input, output any) (bool, any) {
		var seq []int
		if s := state.(string); s != "" {
			fmt.Sscan(s) // no-op; parse below
			for _, f := range splitInts(s) {
				seq = append(seq, f)
			}
		}
		in := input.(slIn)
		out := output.(slOut)
		switch in.Op {
		case "Push":
			seq = append(seq, in.V)
			return out.N == len(seq), joinInts(seq)
		case "Unshift":
			seq = append([]int{in.V}, seq...)
			return out.N == len(seq), joinInts(seq)
		case "Pop":
			if len(seq) == 0 {
				return out.Err, joinInts(seq)
			}
			v := seq[len(seq)-1]
			return !out.Err && out.V == v, joinInts(seq[:len(seq)-1])
		case "Shift":
			if len(seq) == 0 {
				return out.Err, joinInts(seq)
			}
			v := seq[0]
			return !out.Err && out.V == v, joinInts(seq[1:])
		case "Len":
			return out.N == len(seq), joinInts(seq)
		case "All":
			return out.All == joinInts(seq), joinInts(seq)
		case "AllAndClear":
			return out.All == joinInts(seq), ""
		}
		return false, state
	},
	Equal: func(a, b any) bool { return a.(string) == b.(string) },
}

func joinInts(s []int) string {
	out := ""
	for i, v := range s {
		if i > 0 {
			out += ","
		}
		out += fmt.Sprint(v)
	}
	return out
}

func splitInts(s string) []int {
	var out []int
	cur, have := 0, false
	for i := 0; i < len(s); i++ {
		if s[i] == ',' {
			out = append(out, cur)
			cur, have = 0, false
			continue
		}
		cur = cur*10 + int(s[i]-'0')
		have = true
	}
	if have {
		out = append(out, cur)
	}
	return out
}

func concSliceHistory(rng *rand.Rand) []porcupine.Operation {
	s := types.NewSlice[int]()
	h := &histRec{}
	g := 2 + rng.IntN(5)
	var wg sync.WaitGroup
	var written atomic.Int64
	start := make(chan struct{})
	plans := make([][]string, g)
	for c := range plans {
		n := 1 + rng.IntN(5)
		for i := 0; i < n; i++ {
			plans[c] = append(plans[c], []string{"Push", "Push", "Unshift", "Pop", "Shift", "Len", "All", "AllAndClear"}[rng.IntN(8)])
		}
	}
	for c := 0; c < g; c++ {
		wg.Add(1)
		go func(c int) {
			defer wg.Done()
			<-start
			for _, op := range plans[c] {
				v := int(written.Add(1))
				h.do(c, slIn{op, v}, func() any {
					switch op {
					case "Push":
						return slOut{N: s.Push(v)}
					case "Unshift":
						return slOut{N: s.Unshift(v)}
					case "Pop":
						x, err := s.Pop()
						return slOut{V: x, Err: err != nil}
					case "Shift":
						x, err := s.Shift()
						return slOut{V: x, Err: err != nil}
					case "Len":
						return slOut{N: s.Len()}
					case "All":
						return slOut{All: joinInts(s.All())}
					case "AllAndClear":
						return slOut{All: joinInts(s.AllAndClear())}
					}
					return nil
				})
			}
		}(c)
	}
	close(start)
	wg.Wait()
	return h.ops
}

func checkHistories(r *rep.Report, name string, n int, model porcupine.Model, gen func(*rand.Rand) []porcupine.Operation, stream uint64) {
	rng := r.Rand(stream)
	for i := 0; i < n; i++ {
		ops := gen(rng)
		res, _ := porcupine.CheckOperationsVerbose(model, ops, 60*time.Second)
		// distinctness: the multiset of (client, op) plus the interleaving order of call stamps
		sorted := append([]porcupine.Operation(nil), ops...)
		sort.Slice(sorted, func(a, b int) bool { return sorted[a].Call < sorted[b].Call })
		sig := name + ":"
		overlaps := 0
		for k, o := range sorted {
			sig += fmt.Sprintf("%d%v|", o.ClientId, o.Input)
			if k > 0 && sorted[k-1].Return > o.Call {
				overlaps++
			}
		}
		r.Case(sig, overlaps > 0)
		r.Obs("histories:"+name, 1)
		r.Obs("history_ops:"+name, int64(len(ops)))
		r.Obs("overlapping_op_pairs:"+name, int64(overlaps))
		if i == 0 {
			var hs []string
			for _, o := range sorted {
				hs = append(hs, fmt.Sprintf("c%d [%d,%d] %v -> %v", o.ClientId, o.Call, o.Return, o.Input, o.Output))
			}
			r.Sample(map[string]any{"history_of": name, "ops": hs, "result": string(res)})
		}
		switch res {
		case porcupine.Illegal:
			var hs []string
			for _, o := range sorted {
				hs = append(hs, fmt.Sprintf("c%d [%d,%d] %v -> %v", o.ClientId, o.Call, o.Return, o.Input, o.Output))
			}
			r.Violation("not-linearizable:"+name, "recorded concurrent history has no linearization against the sequential model", map[string]any{"history": hs})
		case porcupine.Unknown:
			r.Inconclusive("porcupine timed out on a " + name + " history")
		}
	}
}

var idRe = regexp.MustCompile(`^[A-Za-z0-9_-]+$`)

func idStorm(r *rep.Report, name string, goroutines, per int, gen func() (string, error)) {
	all := make([][]string, goroutines)
	var wg sync.WaitGroup
	start := make(chan struct{})
	for g := 0; g < goroutines; g++ {
		wg.Add(1)
		go func(g int) {
			defer wg.Done()
			<-start
			out := make([]string, 0, per)
			for i := 0; i < per; i++ {
				id, err := gen()
				if err != nil {
					continue
				}
				out = append(out, id)
			}
			all[g] = out
		}(g)
	}
	close(start)
	wg.Wait()
	seen := map[string]int{}
	dups := 0
	bad := 0
	var firstDup, firstBad string
	total := 0
	for g, ids := range all {
		for _, id := range ids {
			total++
			if prev, ok := seen[id]; ok {
				dups++
				if firstDup == "" {
					firstDup = fmt.Sprintf("%q returned to goroutine %d and %d", id, prev, g)
				}
			}
			seen[id] = g
			if name == "base64id" && !idRe.MatchString(id) {
				bad++
				firstBad = id
			}
		}
	}
	r.Obs("ids:"+name, int64(total))
	r.Case(fmt.Sprintf("ids/%s/g%d", name, goroutines), true)
	if dups > 0 {
		r.Violationf("duplicate-id:"+name, map[string]any{"goroutines": goroutines, "per_goroutine": per}, "%d duplicate ids among %d (%s)", dups, total, firstDup)
	}
	if bad > 0 {
		r.Violationf("id-not-url-safe:"+name, nil, "%d ids outside [A-Za-z0-9_-], e.g. %q", bad, firstBad)
	}
}

// registrationStorm: registrations and removals of distinct functions by several goroutines
// while other goroutines emit the same event.  Operations on different functions commute, so
// whatever the interleaving, after everything has returned each function is registered exactly
// (its On calls - its successful RemoveListener calls) times: a final emit calls it that often
// and ListenerCount agrees.  The event starts absent, present-but-empty (last listener removed,
// or a fired Once) or populated.
var stormHits [4]atomic.Int64

func st0(...any) { stormHits[0].Add(1) }
func st1(...any) { stormHits[1].Add(1) }
func st2(...any) { stormHits[2].Add(1) }
func st3(...any) { stormHits[3].Add(1) }

var stormFns = []types.Listener{st0, st1, st2, st3}

func registrationStorm(r *rep.Report, rounds int) {
	rng := r.Rand(214)
	for i := 0; i < rounds; i++ {
		var e types.EventEmitter
		if i%2 == 0 {
			e = types.NewEventEmitter()
		} else {
			e = events.New()
		}
		start := []string{"absent", "emptied-by-remove", "emptied-by-once", "populated"}[rng.IntN(4)]
		var other atomic.Int64
		keep := func(...any) { other.Add(1) }
		wantOther := 0
		switch start {
		case "emptied-by-remove":
			e.On("x", keep)
			e.RemoveListener("x", keep)
		case "emptied-by-once":
			e.Once("x", func(...any) {})
			e.Emit("x")
		case "populated":
			e.On("x", keep)
			wantOther = 1
		}
		const G = 4
		progs := make([][]bool, G) // true = On, false = RemoveListener
		for g := range progs {
			n := 1 + rng.IntN(4)
			progs[g] = append(progs[g], true)
			for k := 1; k < n; k++ {
				progs[g] = append(progs[g], rng.IntN(3) != 0)
			}
		}
		want := make([]int, G)
		var wg sync.WaitGroup
		begin := make(chan struct{})
		var stop atomic.Bool
		for g := 0; g < G; g++ {
			wg.Add(1)
			go func(g int) {
				defer wg.Done()
				<-begin
				for k, on := range progs[g] {
					for y := 0; y < (g+k)%3; y++ {
						runtime.Gosched()
					}
					if on {
						if e.On("x", stormFns[g]) == nil {
							want[g]++
						}
					} else if e.RemoveListener("x", stormFns[g]) {
						want[g]--
					}
				}
			}(g)
		}
		var ew sync.WaitGroup
		for g := 0; g < 3; g++ {
			ew.Add(1)
			go func() {
				defer ew.Done()
				<-begin
				for !stop.Load() {
					e.Emit("x")
				}
			}()
		}
		close(begin)
		wg.Wait()
		stop.Store(true)
		ew.Wait()
		for g := range stormHits {
			stormHits[g].Store(0)
		}
		other.Store(0)
		e.Emit("x")
		total := wantOther
		r.Obs("registration_storm_rounds", 1)
		r.Obs("registration_storm_start:"+start, 1)
		for g := 0; g < G; g++ {
			total += want[g]
			if int(stormHits[g].Load()) != want[g] {
				r.Violationf("emitter-registration-lost-under-concurrent-emit", map[string]any{"start": start, "programs": progs}, "event %s before the storm; goroutine %d registered its function (On returned nil) %d times net of successful removals, concurrent emits running; the final emit called it %d times", start, g, want[g], stormHits[g].Load())
				break
			}
		}
		if int(other.Load()) != wantOther || e.ListenerCount("x") != total {
			r.Violationf("emitter-registration-lost-under-concurrent-emit", map[string]any{"start": start, "programs": progs}, "event %s before the storm: ListenerCount %d, expected %d; the pre-existing listener ran %d times, expected %d", start, e.ListenerCount("x"), total, other.Load(), wantOther)
		}
	}
	r.Case("registration-storm", true)
}

func onceStorm(r *rep.Report, rounds int) {
	for i := 0; i < rounds; i++ {
		e := types.NewEventEmitter()
		var n atomic.Int64
		var other atomic.Int64
		e.Once("x", func(...any) { n.Add(1) })
		e.On("x", func(...any) { other.Add(1) })
		var wg sync.WaitGroup
		start := make(chan struct{})
		const G = 8
		for g := 0; g < G; g++ {
			wg.Add(1)
			go func(g int) {
				defer wg.Done()
				<-start
				if g%4 == 3 {
					f := func(...any) {}
					e.On("x", f)
					e.RemoveListener("x", f)
					return
				}
				e.Emit("x")
			}(g)
		}
		close(start)
		wg.Wait()
		r.Obs("once_storm_rounds", 1)
		if n.Load() > 1 {
			r.Violationf("once-listener-ran-twice", nil, "a Once listener ran %d times under %d concurrent emits", n.Load(), G)
		}
		if n.Load() == 0 {
			r.Violationf("once-listener-never-ran", nil, "a Once listener never ran although the event was emitted")
		}
		if other.Load() != 6 {
			r.Violationf("emit-lost-listener-under-concurrency", nil, "an On listener ran %d times for 6 concurrent emits", other.Load())
		}
	}
	r.Case("once-storm", true)
}

func TestC20(t *testing.T) {
	r := rep.New(t, "C20")
	defer r.Flush()
	r.Rule("sequential: PRNG operation sequences (3-40 ops) over the full method sets of Slice, Set, Map (value types int, string, pointer, zero-size struct) and the emitter, each result compared with a reference model, caller-owned slices with spare capacity overwritten after the call; concurrent: recorded histories of 2-8 goroutines x <=6 ops with unique written values checked by porcupine (Map and Set partitioned per key, Slice as one sequence), Once under concurrent emits, multi-word Slice elements (four-field structs, strings) overwritten by index and spliced while every reading method runs (a torn element is one nobody stored), 16-goroutine id storms; gate lane: each Map operation held in its slow path (hook map.slowPath) across a promotion of the dirty map; distinct = distinct operation-name sequences / distinct call-order signatures with at least one overlapping pair")
	r.Assume("RemoveListener of a function registered several times may remove any one registration (every choice is tracked); listeners are distinct top-level functions because the emitter identifies a listener by its code pointer")
	nseq := r.N(12000, 600000)
	runSeq(r, "Slice", nseq, seqSlice, 201)
	runSeq(r, "Set", nseq/2, seqSet, 202)
	runSeq(r, "Emitter", nseq, seqEmitter, 203)
	runSeq(r, "Emitter(events.New)", nseq/4, seqEmitterEventsNew, 208)
	runSeq(r, "Emitter(events package functions)", nseq/4, seqEmitterEventsPkg, 209)
	runSeq(r, "Map[int]", nseq/2, func(rng *rand.Rand, n int) (string, string, []string) {
		return seqMap(rng, n, mapDriver[int]{"int", func(i int) int { return i }})
	}, 204)
	runSeq(r, "Map[string]", nseq/4, func(rng *rand.Rand, n int) (string, string, []string) {
		return seqMap(rng, n, mapDriver[string]{"string", func(i int) string { return fmt.Sprint("v", i) }})
	}, 205)
	ptrs := []*int{new(int), new(int), new(int)}
	runSeq(r, "Map[*int]", nseq/4, func(rng *rand.Rand, n int) (string, string, []string) {
		return seqMap(rng, n, mapDriver[*int]{"ptr", func(i int) *int { return ptrs[i] }})
	}, 206)
	runSeq(r, "Map[struct{}]", nseq/4, func(rng *rand.Rand, n int) (string, string, []string) {
		return seqMap(rng, n, mapDriver[struct{}]{"zero-size", func(i int) struct{} { return struct{}{} }})
	}, 207)

	if r.Lane == 0 {
		for k := 0; k < r.N(8, 400); k++ {
			for _, op := range mapSlowOps {
				key, msg, held := mapSlowPathVsPromotion(r, op)
				r.Case("map-slow-path-vs-promotion/"+op, held)
				if held {
					r.Obs("gate:map_operation_held_in_slow_path_across_promotion", 1)
				} else {
					r.Obs("gate:map_slow_path_not_reached:"+op, 1)
				}
				if key != "" {
					r.Violation(key, msg, map[string]string{"lane": "map operation held before its lock while the dirty map is promoted", "op": op})
				}
			}
		}
	}
	nh := r.N(4000, 200000)
	checkHistories(r, "Map", nh, mapModel, concMapHistory, 210)
	checkHistories(r, "Set", nh/2, setModel, concSetHistory, 211)
	checkHistories(r, "Slice", nh/2, sliceModel, concSliceHistory, 212)
	sliceElementStorm(r, r.N(24, 1200))
	onceStorm(r, r.N(400, 20000))
	registrationStorm(r, r.N(4000, 200000))

	per := r.N(16*4000, 16*200000) / 16
	idStorm(r, "base64id", 16, per, func() (string, error) { return utils.Base64Id().GenerateId() })
	y := utils.NewYeast()
	idStorm(r, "yeast", 16, per, func() (string, error) { return y.Yeast(), nil })
	idStorm(r, "yeast-sequential", 1, per, func() (string, error) { return y.Yeast(), nil })
}

type quad struct{ A, B, C, D int64 }

// sliceElementStorm: elements wider than a machine word (a four-field struct, a string) are
// overwritten by index, spliced, pushed and popped by some goroutines while others read through
// every reading method.  Every value ever stored has four equal fields (or is a string of one
// repeated letter whose length matches its letter), so a reader that sees anything else has seen
// a torn element - a store and a copy that overlapped.  (The race detector watches as well.)
func sliceElementStorm(r *rep.Report, rounds int) {
	for round := 0; round < rounds; round++ {
		s := types.NewSlice[quad]()
		st := types.NewSlice[string]()
		for i := 0; i < 8; i++ {
			s.Push(quad{int64(i), int64(i), int64(i), int64(i)})
			st.Push(strings.Repeat(string(rune('a'+i)), 3+i))
		}
		var bad atomic.Int64
		var witness atomic.Value
		okQ := func(q quad) {
			if q.A != q.B || q.B != q.C || q.C != q.D {
				bad.Add(1)
				witness.Store(fmt.Sprintf("%+v", q))
			}
		}
		okS := func(x string) {
			if len(x) == 0 || len(x) != 3+int(x[0]-'a') || strings.Trim(x, x[:1]) != "" {
				bad.Add(1)
				witness.Store(fmt.Sprintf("%q", x))
			}
		}
		var wg sync.WaitGroup
		stop := make(chan struct{})
		for g := 0; g < 3; g++ {
			wg.Add(1)
			go func(g int) {
				defer wg.Done()
				for k := int64(1); ; k++ {
					select {
					case <-stop:
						return
					default:
					}
					v := k*8 + int64(g)
					s.Set(int(k)%8, quad{v, v, v, v})
					st.Set(int(k)%8, strings.Repeat(string(rune('a'+int(v)%20)), 3+int(v)%20))
					if k%64 == 0 {
						s.Splice(int(k/64)%8, 1, quad{-v, -v, -v, -v})
					}
				}
			}(g)
		}
		var rwg sync.WaitGroup
		for g := 0; g < 3; g++ {
			rwg.Add(1)
			go func(g int) {
				defer rwg.Done()
				for k := 0; k < 4000; k++ {
					switch (k + g) % 6 {
					case 0:
						if q, err := s.Get(k % 8); err == nil {
							okQ(q)
						}
						if x, err := st.Get(k % 8); err == nil {
							okS(x)
						}
					case 1:
						for _, q := range s.All() {
							okQ(q)
						}
						for _, x := range st.All() {
							okS(x)
						}
					case 2:
						if qs, err := s.Slice(0, 4); err == nil {
							for _, q := range qs {
								okQ(q)
							}
						}
					case 3:
						s.Range(func(q quad, _ int) bool { okQ(q); return true })
						st.Range(func(x string, _ int) bool { okS(x); return true })
					case 4:
						s.Filter(func(q quad) bool { okQ(q); return false })
						s.FindIndex(func(q quad) bool { okQ(q); return false })
					case 5:
						s.DoRead(func(qs []quad) {
							for _, q := range qs {
								okQ(q)
							}
						})
					}
				}
			}(g)
		}
		rwg.Wait()
		close(stop)
		wg.Wait()
		r.Case("slice-element-storm", true)
		r.Obs("slice_element_storm_rounds", 1)
		if n := bad.Load(); n > 0 {
			r.Violationf("slice-torn-element", map[string]any{"lane": "multi-word elements overwritten by index while other goroutines read"}, "%d reads returned an element nobody ever stored (e.g. %v): a Set and a read of the same slot overlapped", n, witness.Load())
			return
		}
	}
}
