package checks

import (
	"bytes"
	"encoding/binary"
	"encoding/json"
	"fmt"
	"io"
	"math/rand/v2"
	"strings"
	"sync"
	"sync/atomic"
	"time"

	"github.com/zishang520/engine.io/v2/config"
	"github.com/zishang520/engine.io/v2/engine"
	"github.com/zishang520/engine.io/v2/types"
	webtrans "github.com/zishang520/engine.io/v2/webtransport"

	"verifh/refcodec"
	"verifh/rep"
	"verifh/rig"
)

// Whole sessions over real QUIC on 127.0.0.1 (R-quic, real time): the path through
// engine.Server.OnWebTransportSession, types.WebTransportConn and a real *webtransport.Session
// (stream resets, session close codes), which the in-memory R-wtmem rig replaces by a shim.
//
// No verdict depends on how long something took.  Completeness is decided by END markers on the
// ordered stream (when END has arrived every earlier message must have), and the only clock is a
// bound of quicBound on "the peer notices a closed session", thousands of times the normal
// duration on loopback.
const quicBound = 20 * time.Second

type quicApp struct {
	mu     sync.Mutex
	socks  map[string]engine.Socket
	order  []string
	in     map[string][]quicMsg // messages delivered to the application, per session
	closes map[string][]string  // close reasons, per session
}

type quicMsg struct {
	Binary bool
	Data   []byte
}

func newQuicApp(eng engine.Server) *quicApp {
	a := &quicApp{socks: map[string]engine.Socket{}, in: map[string][]quicMsg{}, closes: map[string][]string{}}
	eng.On("connection", func(args ...any) {
		s := args[0].(engine.Socket)
		sid := s.Id()
		s.On("message", func(m ...any) {
			var msg quicMsg
			switch v := m[0].(type) {
			case *types.StringBuffer:
				msg = quicMsg{false, append([]byte(nil), v.Bytes()...)}
			case *types.BytesBuffer:
				msg = quicMsg{true, append([]byte(nil), v.Bytes()...)}
			default:
				b, _ := io.ReadAll(m[0].(io.Reader))
				msg = quicMsg{true, b}
			}
			a.mu.Lock()
			a.in[sid] = append(a.in[sid], msg)
			a.mu.Unlock()
			if !msg.Binary && bytes.HasPrefix(msg.Data, []byte("echo?")) {
				s.Send(types.NewStringBufferString("echo:"+string(msg.Data[5:])), nil, nil)
			}
		})
		s.On("close", func(c ...any) {
			a.mu.Lock()
			a.closes[sid] = append(a.closes[sid], fmt.Sprint(c[0]))
			a.mu.Unlock()
		})
		// published last: whoever finds the session here finds its listeners attached
		a.mu.Lock()
		a.socks[sid] = s
		a.order = append(a.order, sid)
		a.mu.Unlock()
	})
	return a
}

func (a *quicApp) sock(sid string) engine.Socket {
	a.mu.Lock()
	defer a.mu.Unlock()
	return a.socks[sid]
}

func (a *quicApp) inbound(sid string) []quicMsg {
	a.mu.Lock()
	defer a.mu.Unlock()
	return append([]quicMsg(nil), a.in[sid]...)
}

func (a *quicApp) closeReasons(sid string) []string {
	a.mu.Lock()
	defer a.mu.Unlock()
	return append([]string(nil), a.closes[sid]...)
}

func quicWait(cond func() bool) bool {
	deadline := time.Now().Add(quicBound)
	for time.Now().Before(deadline) {
		if cond() {
			return true
		}
		time.Sleep(5 * time.Millisecond)
	}
	return cond()
}

// quicOpen performs a fresh WebTransport handshake and returns the client and the session id.
func quicOpen(q *rig.QuicWorld, app *quicApp) (*rig.WTClient, string, error) {
	c, sid, err := quicOpenRaw(q)
	if err != nil {
		return c, sid, err
	}
	// the open packet leaves before the handshake has registered and announced the session:
	// wait for the connection event, the scenarios start from an established session
	if !quicWait(func() bool { return app.sock(sid) != nil }) {
		return c, sid, fmt.Errorf("open packet names session %q, which was not announced within %v", sid, quicBound)
	}
	return c, sid, nil
}

func quicOpenRaw(q *rig.QuicWorld) (*rig.WTClient, string, error) {
	c, err := q.DialWT(false)
	if err != nil {
		return c, "", err
	}
	if err := c.Conn.WriteMessage(webtrans.TextMessage, []byte("0")); err != nil {
		return c, "", err
	}
	_, data, err := c.ReadTimeout(quicBound)
	if err != nil {
		return c, "", fmt.Errorf("waiting for the open packet: %w", err)
	}
	if len(data) < 2 || data[0] != '0' {
		return c, "", fmt.Errorf("first message is not an open packet: %q", data)
	}
	var o struct {
		Sid          string   `json:"sid"`
		Upgrades     []string `json:"upgrades"`
		PingInterval int64    `json:"pingInterval"`
		PingTimeout  int64    `json:"pingTimeout"`
		MaxPayload   int64    `json:"maxPayload"`
	}
	if err := json.Unmarshal(data[1:], &o); err != nil || o.Sid == "" {
		return c, "", fmt.Errorf("open packet %q: %v", data, err)
	}
	// C06 over real QUIC: the open packet advertises the effective configuration
	opts := q.Eng.Opts()
	if o.PingInterval != int64(opts.PingInterval()/time.Millisecond) || o.PingTimeout != int64(opts.PingTimeout()/time.Millisecond) || o.MaxPayload != opts.MaxHttpBufferSize() || o.Upgrades == nil || len(o.Upgrades) != 0 {
		return c, o.Sid, fmt.Errorf("c06: open packet %s does not advertise the configuration (pingInterval %v, pingTimeout %v, maxPayload %d, upgrades [])", data[1:], opts.PingInterval(), opts.PingTimeout(), opts.MaxHttpBufferSize())
	}
	return c, o.Sid, nil
}

func quicPayload(rng *rand.Rand, tag string, size int, binary bool) []byte {
	b := []byte(tag)
	if binary {
		for len(b) < size {
			b = append(b, byte(rng.IntN(256)))
		}
		return b
	}
	alphabet := []string{"a", "b", "z", "0", " ", "\n", "\"", "\\", "é", "汉", "😀", "\x1e", ":"}
	for len(b) < size {
		b = append(b, alphabet[rng.IntN(len(alphabet))]...)
	}
	return b
}

var quicSizes = []int{0, 1, 12, 124, 125, 126, 127, 1000, 4094, 4095, 4096, 4097, 8192, 65534, 65535, 65536, 70000, 150000}

// quicMessages: C01 + C02 over real QUIC.
func quicMessages(r *rep.Report, stream uint64, sessions int) {
	so := &config.ServerOptions{}
	so.SetTransports(types.NewSet("polling", "websocket", "webtransport"))
	so.SetPingInterval(time.Hour)
	so.SetPingTimeout(time.Hour)
	so.SetMaxHttpBufferSize(1 << 20)
	eng := engine.NewServer(so)
	app := newQuicApp(eng)
	q, err := rig.NewQuicWorld(eng)
	if err != nil {
		r.Obs("quic_lane_skipped_no_loopback_udp", 1)
		r.Assume("R-quic lanes skipped: loopback UDP could not be bound (" + err.Error() + ")")
		return
	}
	defer q.Close()
	defer eng.Close()
	for i := 0; i < sessions; i++ {
		rng := r.CaseRand(771+stream, i)
		c, sid, err := quicOpen(q, app)
		if err != nil {
			if strings.HasPrefix(err.Error(), "c06:") {
				r.Violationf("c06-open-packet-config", nil, "real WebTransport handshake: %v", err)
			} else {
				r.Inconclusive("quic session could not be opened: " + err.Error())
			}
			if c != nil {
				c.Close()
			}
			continue
		}
		sock := app.sock(sid)
		type sent struct {
			Binary bool
			Data   []byte
		}
		nG := 1 + rng.IntN(2)
		out := make([][]sent, nG)
		nmsgs := 0
		for g := 0; g < nG; g++ {
			n := 1 + rng.IntN(14)
			for k := 0; k < n; k++ {
				size := quicSizes[rng.IntN(len(quicSizes))]
				if size > 20000 && rng.IntN(3) != 0 {
					size = rng.IntN(3000)
				}
				bin := rng.IntN(2) == 0
				tag := fmt.Sprintf("g%dn%d:", g, k)
				if size < len(tag) {
					size = len(tag)
				}
				out[g] = append(out[g], sent{bin, quicPayload(rng, tag, size, bin)})
				nmsgs++
			}
		}
		var in []sent
		nIn := 1 + rng.IntN(14)
		for k := 0; k < nIn; k++ {
			size := quicSizes[rng.IntN(len(quicSizes))]
			if size > 20000 && rng.IntN(3) != 0 {
				size = rng.IntN(3000)
			}
			bin := rng.IntN(2) == 0
			tag := fmt.Sprintf("c%d:", k)
			if size < len(tag) {
				size = len(tag)
			}
			in = append(in, sent{bin, quicPayload(rng, tag, size, bin)})
		}
		// server side: nG sender goroutines, then END
		var wg sync.WaitGroup
		for g := 0; g < nG; g++ {
			wg.Add(1)
			go func(g int) {
				defer wg.Done()
				for _, m := range out[g] {
					if m.Binary {
						sock.Send(types.NewBytesBuffer(append([]byte(nil), m.Data...)), nil, nil)
					} else {
						sock.Send(types.NewStringBufferString(string(m.Data)), nil, nil)
					}
				}
			}(g)
		}
		go func() {
			wg.Wait()
			sock.Send(types.NewStringBufferString("END"), nil, nil)
		}()
		// client side: writer
		go func() {
			for _, m := range in {
				bin, d := refcodec.EncodeFrame(4, refcodec.Packet{Type: refcodec.Message, Binary: m.Binary, Data: m.Data}, false)
				mt := webtrans.TextMessage
				if bin {
					mt = webtrans.BinaryMessage
				}
				if c.Conn.WriteMessage(mt, d) != nil {
					return
				}
			}
			c.Conn.WriteMessage(webtrans.TextMessage, []byte("4END"))
		}()
		// client side: reader until END
		got := make([][]sent, nG)
		var rerr error
		ended := false
		for !ended {
			bin, data, err := c.ReadTimeout(quicBound)
			if err != nil {
				rerr = err
				break
			}
			p, derr := refcodec.DecodeFrame(4, bin, data)
			if derr != nil {
				r.Violationf("c01-undecodable-frame", nil, "real WebTransport session: frame %q does not decode: %v", trunc(data), derr)
				break
			}
			if p.Type != refcodec.Message {
				continue
			}
			if !p.Binary && string(p.Data) == "END" {
				ended = true
				break
			}
			var g, n int
			if _, e := fmt.Sscanf(string(p.Data[:min(len(p.Data), 16)]), "g%dn%d:", &g, &n); e != nil || g >= nG {
				r.Violationf("c01-duplicate-or-extra-message", nil, "real WebTransport session: received a message nobody sent: %q", trunc(p.Data))
				continue
			}
			got[g] = append(got[g], sent{p.Binary, p.Data})
		}
		sig := fmt.Sprintf("quic/messages/out=%d/in=%d/senders=%d", nmsgs, nIn, nG)
		r.Case(sig, true)
		r.Obs("quic_message_sessions", 1)
		r.Obs("quic_outbound_messages", int64(nmsgs))
		r.Obs("quic_inbound_messages", int64(nIn))
		switch {
		case rerr != nil && strings.Contains(rerr.Error(), "timeout after"):
			r.Inconclusive(fmt.Sprintf("real WebTransport session %d: END marker not received within %v", i, quicBound))
		case rerr != nil:
			r.Violationf("c01-message-lost", nil, "real WebTransport session: the stream failed (%v) before the END marker; the session was never closed by anybody", rerr)
		default:
			for g := 0; g < nG; g++ {
				if len(got[g]) != len(out[g]) {
					r.Violationf("c01-message-lost", map[string]any{"session": i, "sender": g}, "real WebTransport session: sender %d sent %d messages before END, the client received %d", g, len(out[g]), len(got[g]))
					break
				}
				for k := range out[g] {
					if got[g][k].Binary != out[g][k].Binary {
						r.Violationf("c01-kind-changed", nil, "real WebTransport session: message g%dn%d sent binary=%v received binary=%v", g, k, out[g][k].Binary, got[g][k].Binary)
						break
					}
					if !bytes.Equal(got[g][k].Data, out[g][k].Data) {
						r.Violationf("c01-message-duplicated-or-reordered", nil, "real WebTransport session: position %d of sender %d: sent %q received %q", k, g, trunc(out[g][k].Data), trunc(got[g][k].Data))
						break
					}
				}
			}
		}
		// inbound: wait for the application to see END
		sawEnd := quicWait(func() bool {
			ms := app.inbound(sid)
			return len(ms) > 0 && string(ms[len(ms)-1].Data) == "END"
		})
		ms := app.inbound(sid)
		if !sawEnd {
			if sock.ReadyState() != "open" {
				r.Violationf("c02-message-not-delivered", nil, "real WebTransport session closed (%v) while a conformant client was sending", app.closeReasons(sid))
			} else {
				r.Inconclusive(fmt.Sprintf("real WebTransport session %d: inbound END not delivered within %v", i, quicBound))
			}
		} else {
			ms = ms[:len(ms)-1]
			if len(ms) != len(in) {
				r.Violationf("c02-message-not-delivered", map[string]any{"session": i}, "real WebTransport session: client submitted %d messages before END, %d were delivered", len(in), len(ms))
			} else {
				for k := range in {
					if ms[k].Binary != in[k].Binary || !bytes.Equal(ms[k].Data, in[k].Data) {
						r.Violationf("c02-message-mismatch", nil, "real WebTransport session: inbound message %d: submitted (binary=%v) %q, delivered (binary=%v) %q", k, in[k].Binary, trunc(in[k].Data), ms[k].Binary, trunc(ms[k].Data))
						break
					}
				}
			}
		}
		if sock.ReadyState() != "open" {
			r.Violationf("c03-closed-without-cause:"+strings.Join(app.closeReasons(sid), ","), nil, "real WebTransport session closed during plain traffic: %v", app.closeReasons(sid))
		}
		c.Close()
		if !quicWait(func() bool { return len(app.closeReasons(sid)) > 0 }) {
			r.Violationf("c03-no-close-event", nil, "real WebTransport session: the client closed its session, no close event within %v", quicBound)
		}
	}
	if l := q.Log(); strings.Contains(l, "panic serving") {
		r.Violationf("c09-handler-panic:OnWebTransportSession", nil, "panic in the HTTP/3 handler: %s", l[:min(len(l), 900)])
	}
}

func totalLen(bs [][]byte) int {
	n := 0
	for _, b := range bs {
		n += len(b)
	}
	return n
}

func trunc(b []byte) string {
	if len(b) > 48 {
		return fmt.Sprintf("%s…(%d bytes)", b[:48], len(b))
	}
	return string(b)
}

// quicLimit: C10 over real QUIC (read limit set by OnWebTransportSession, limit error closes the
// real session, other sessions undisturbed).
func quicLimit(r *rep.Report) {
	const limit = 5000
	so := &config.ServerOptions{}
	so.SetTransports(types.NewSet("polling", "websocket", "webtransport"))
	so.SetPingInterval(time.Hour)
	so.SetPingTimeout(time.Hour)
	so.SetMaxHttpBufferSize(limit)
	eng := engine.NewServer(so)
	app := newQuicApp(eng)
	q, err := rig.NewQuicWorld(eng)
	if err != nil {
		r.Obs("quic_lane_skipped_no_loopback_udp", 1)
		r.Assume("R-quic lanes skipped: loopback UDP could not be bound (" + err.Error() + ")")
		return
	}
	defer q.Close()
	defer eng.Close()
	canary, canarySid, err := quicOpen(q, app)
	if err != nil {
		r.Inconclusive("quic canary could not be opened: " + err.Error())
		return
	}
	defer canary.Close()
	echo := func(tag string) bool {
		canary.Conn.WriteMessage(webtrans.TextMessage, []byte("4echo?"+tag))
		_, d, err := canary.ReadTimeout(quicBound)
		return err == nil && string(d) == "4echo:"+tag
	}
	type lc struct {
		name     string
		frame    func() []byte // raw bytes written on the stream
		oversize bool
	}
	mk := func(n int, bin bool) []byte {
		// one Engine.IO WebTransport frame carrying a message packet of total length n
		body := append([]byte("4"), bytes.Repeat([]byte("x"), n-1)...)
		if bin {
			body = bytes.Repeat([]byte{7}, n)
		}
		return refcodec.WTFrame(bin, body)
	}
	huge := func(declared uint64, supplied int) []byte {
		b := []byte{127}
		var l [8]byte
		binary.BigEndian.PutUint64(l[:], declared)
		b = append(b, l[:]...)
		return append(b, bytes.Repeat([]byte("y"), supplied)...)
	}
	cases := []lc{
		{"limit-1 text", func() []byte { return mk(limit-1, false) }, false},
		{"limit text", func() []byte { return mk(limit, false) }, false},
		{"limit binary", func() []byte { return mk(limit, true) }, false},
		{"limit+1 text", func() []byte { return mk(limit+1, false) }, true},
		{"limit+1 binary", func() []byte { return mk(limit+1, true) }, true},
		{"2x limit", func() []byte { return mk(2*limit, false) }, true},
		{"70000", func() []byte { return mk(70000, false) }, true},
		{"declared 2^40, 10 bytes supplied", func() []byte { return huge(1<<40, 10) }, true},
		{"declared 2^63-1", func() []byte { return huge(1<<63-1, 100) }, true},
		{"declared 2^64-1", func() []byte { return huge(^uint64(0), 100) }, true},
		{"64-bit form of limit+1", func() []byte { return append(huge(limit+1, 0), mk(limit+1, false)[3:]...) }, true},
	}
	for _, tc := range cases {
		c, sid, err := quicOpen(q, app)
		if err != nil {
			r.Inconclusive("quic session could not be opened: " + err.Error())
			continue
		}
		r.Case("quic/limit/"+tc.name, true)
		r.Obs("quic_limit_cases", 1)
		sock := app.sock(sid)
		raw := tc.frame()
		// hand-made frame bytes go straight onto the QUIC stream
		if err := c.WriteRaw(raw); err != nil && !tc.oversize {
			// (an oversized frame may fail half-way: the server resets the stream at the limit)
			r.Inconclusive("raw write failed: " + err.Error())
			c.Close()
			continue
		}
		if tc.oversize {
			closed := quicWait(func() bool { return sock == nil || sock.ReadyState() == "closed" })
			for _, m := range app.inbound(sid) {
				if len(m.Data) > limit || (!m.Binary && len(m.Data)+1 > limit) {
					r.Violationf("c10-oversized-message-delivered:webtransport-quic", map[string]string{"frame": tc.name}, "a message of %d bytes was delivered over a real WebTransport session, limit %d", len(m.Data), limit)
				}
			}
			if !closed {
				r.Violationf("c10-oversized-frame-did-not-close:webtransport-quic", map[string]string{"frame": tc.name}, "oversized frame (%s): the session is still %s after %v", tc.name, sock.ReadyState(), quicBound)
			} else {
				select {
				case <-c.Session.Context().Done():
				case <-time.After(quicBound):
					r.Violationf("c10-oversized-frame-did-not-close:webtransport-quic", map[string]string{"frame": tc.name}, "oversized frame (%s): the engine session closed but the WebTransport session was left open", tc.name)
				}
			}
		} else {
			ok := quicWait(func() bool { return len(app.inbound(sid)) == 1 })
			if !ok {
				r.Violationf("c02-message-not-delivered", map[string]string{"frame": tc.name}, "a frame within the limit (%s) was not delivered over a real WebTransport session (state %s, closes %v)", tc.name, sock.ReadyState(), app.closeReasons(sid))
			} else if sock.ReadyState() != "open" {
				r.Violationf("c03-closed-without-cause:"+strings.Join(app.closeReasons(sid), ","), nil, "a frame within the limit closed the session")
			}
		}
		c.Close()
		if !echo(tc.name) {
			r.Violationf("c10-other-session-disturbed", map[string]string{"frame": tc.name}, "the canary session %s no longer echoes after the case %q", canarySid, tc.name)
			return
		}
	}
	// the very first frame of a fresh stream (the handshake message) is bounded like any other:
	// a header declaring 8 MiB, then as much payload as the server is willing to take
	for _, declared := range []uint64{8 << 20, limit + 1} {
		c, err := q.DialWT(false)
		if err != nil {
			r.Inconclusive("quic session could not be opened: " + err.Error())
			continue
		}
		r.Case(fmt.Sprintf("quic/limit/first-frame-declares-%d", declared), true)
		r.Obs("quic_limit_cases", 1)
		var sent atomic.Int64
		wdone := make(chan struct{})
		go func() {
			defer close(wdone)
			if c.WriteRaw(huge(declared, 0)) != nil {
				return
			}
			chunk := bytes.Repeat([]byte("z"), 32<<10)
			for left := int64(declared); left > 0; left -= int64(len(chunk)) {
				if c.WriteRaw(chunk) != nil {
					return
				}
				sent.Add(int64(len(chunk)))
			}
		}()
		closed := false
		select {
		case <-c.Session.Context().Done():
			closed = true
		case <-time.After(quicBound):
		}
		c.Close()
		<-wdone
		const quicWindows = 2 << 20 // what QUIC's flow-control windows let a sender put in flight
		if sent.Load() > limit+quicWindows {
			r.Violationf("c10-oversized-frame-consumed:webtransport-quic-first-frame", map[string]any{"declared": declared}, "first frame of a fresh WebTransport stream declares %d bytes (limit %d): the server took %d bytes of it", declared, limit, sent.Load())
		} else if !closed {
			r.Violationf("c10-oversized-frame-did-not-close:webtransport-quic-first-frame", map[string]any{"declared": declared}, "first frame of a fresh WebTransport stream declares %d bytes (limit %d): the WebTransport session was still open after %v (%d bytes taken)", declared, limit, quicBound, sent.Load())
		}
		if !echo("first-frame") {
			r.Violationf("c10-other-session-disturbed", map[string]string{"frame": "oversized first frame"}, "the canary session %s no longer echoes after an oversized first frame", canarySid)
			return
		}
	}
}

// quicClose: C12 / C03 / C04 over real QUIC.
func quicClose(r *rep.Report, stream uint64, rounds int, judgeData bool) {
	so := &config.ServerOptions{}
	so.SetTransports(types.NewSet("polling", "websocket", "webtransport"))
	so.SetPingInterval(time.Hour)
	so.SetPingTimeout(time.Hour)
	so.SetMaxHttpBufferSize(1 << 20)
	for round := 0; round < rounds; round++ {
		rng := r.CaseRand(7730+stream, round)
		eng := engine.NewServer(so)
		app := newQuicApp(eng)
		q, err := rig.NewQuicWorld(eng)
		if err != nil {
			r.Obs("quic_lane_skipped_no_loopback_udp", 1)
			r.Assume("R-quic lanes skipped: loopback UDP could not be bound (" + err.Error() + ")")
			return
		}
		exactlyOne := func(what, sid string, reasons ...string) {
			if !quicWait(func() bool { return len(app.closeReasons(sid)) > 0 }) {
				r.Violationf("c03-no-close-event", map[string]string{"cause": what}, "real WebTransport session, %s: no close event within %v", what, quicBound)
				return
			}
			time.Sleep(20 * time.Millisecond)
			cr := app.closeReasons(sid)
			if len(cr) != 1 {
				r.Violationf("c03-multiple-close-events", map[string]string{"cause": what}, "real WebTransport session, %s: close events %v", what, cr)
				return
			}
			for _, ok := range reasons {
				if cr[0] == ok {
					return
				}
			}
			r.Violationf("c03-close-reason-not-attributable:"+cr[0], map[string]string{"cause": what}, "real WebTransport session, %s: close reason %q", what, cr[0])
		}
		// (a) graceful close with buffered packets; the second pass buffers about a megabyte
		for pass := 0; pass < 2; pass++ {
			c, sid, err := quicOpen(q, app)
			if err != nil {
				r.Inconclusive("quic session could not be opened: " + err.Error())
				continue
			}
			sock := app.sock(sid)
			n := 1 + rng.IntN(12)
			if pass == 1 {
				n = 10
			}
			var want [][]byte
			for k := 0; k < n; k++ {
				size := quicSizes[rng.IntN(len(quicSizes))]
				if pass == 1 {
					size = 100000
				}
				d := quicPayload(rng, fmt.Sprintf("m%d:", k), max(size, 5), false)
				want = append(want, d)
				sock.Send(types.NewStringBufferString(string(d)), nil, nil)
			}
			sock.Close(false)
			var got [][]byte
			var end error
			for {
				bin, data, err := c.ReadTimeout(quicBound)
				if err != nil {
					end = err
					break
				}
				p, derr := refcodec.DecodeFrame(4, bin, data)
				if derr != nil {
					end = derr
					break
				}
				if p.Type == refcodec.Close {
					break
				}
				if p.Type == refcodec.Message {
					got = append(got, p.Data)
				}
			}
			r.Case(fmt.Sprintf("quic/close/graceful/%d/%d", pass, n), true)
			r.Obs("quic_graceful_closes", 1)
			if judgeData {
				prefix := len(got) <= len(want)
				for k := 0; prefix && k < len(got); k++ {
					prefix = bytes.Equal(want[k], got[k])
				}
				switch {
				case end != nil && strings.Contains(end.Error(), "timeout after"):
					r.Violationf("c12-silent-client-never-closed", nil, "real WebTransport session: Close(false) after %d sends, the client saw neither a close nor the end of the stream within %v", n, quicBound)
				case !prefix:
					r.Violationf("c12-graceful-close-delivery-mismatch:webtransport-quic", map[string]int{"sent": n, "received": len(got)}, "real WebTransport session: %d messages sent, then Close(false): what the client received is not a prefix of what was sent", n)
				case len(got) < len(want):
					// the tail is missing and the stream ended with the session's reset
					r.Obs("quic_graceful_close_tail_lost", 1)
					r.Violationf("c12-packets-lost-on-graceful-close:webtransport-quic-session-reset", map[string]int{"sent": n, "received": len(got)}, "real WebTransport session: %d messages (%d bytes) accepted, then Close(false): the client received the first %d, then the stream was reset by the session close (%v)", n, totalLen(want), len(got), end)
				default:
					r.Obs("quic_graceful_close_all_delivered", 1)
				}
			}
			exactlyOne("Close(false)", sid, "forced close")
			select {
			case <-c.Session.Context().Done():
			case <-time.After(quicBound):
				r.Violationf("c12-transport-left-open", nil, "real WebTransport session: the engine session closed (forced close) but the WebTransport session stayed open")
			}
			c.Close()
		}
		// (b) peer disconnect, (c) Close(true)
		for _, what := range []string{"peer-disconnect", "close-true", "stream-cancel"} {
			c, sid, err := quicOpen(q, app)
			if err != nil {
				r.Inconclusive("quic session could not be opened: " + err.Error())
				continue
			}
			sock := app.sock(sid)
			r.Case("quic/close/"+what, true)
			switch what {
			case "peer-disconnect":
				c.Close()
				exactlyOne(what, sid, "transport close", "transport error")
			case "stream-cancel":
				c.CancelStream()
				exactlyOne(what, sid, "transport close", "transport error")
				c.Close()
			case "close-true":
				sock.Send(types.NewStringBufferString("dropped"), nil, nil)
				sock.Close(true)
				exactlyOne(what, sid, "forced close")
				select {
				case <-c.Session.Context().Done():
				case <-time.After(quicBound):
					r.Violationf("c12-transport-left-open", nil, "real WebTransport session: Close(true) left the WebTransport session open")
				}
				c.Close()
			}
			if quicWait(func() bool { _, ok := eng.Clients().Load(sid); return !ok }) == false {
				r.Violationf("c04-closed-session-registered", map[string]string{"cause": what}, "real WebTransport session closed by %s is still in the client table", what)
			}
		}
		// (d) server shutdown with live sessions
		{
			nS := 2 + rng.IntN(4)
			var cs []*rig.WTClient
			var sids []string
			for k := 0; k < nS; k++ {
				c, sid, err := quicOpen(q, app)
				if err != nil {
					continue
				}
				cs = append(cs, c)
				sids = append(sids, sid)
			}
			r.Case(fmt.Sprintf("quic/close/server-close/%d", len(cs)), true)
			r.Obs("quic_server_closes", 1)
			eng.Close()
			for k, sid := range sids {
				exactlyOne("Server.Close", sid, "forced close", "server close")
				select {
				case <-cs[k].Session.Context().Done():
				case <-time.After(quicBound):
					r.Violationf("c12-transport-left-open", nil, "Server.Close: WebTransport session %d of %d stayed open", k, len(cs))
				}
			}
			if n := eng.Clients().Len(); n != 0 || eng.ClientsCount() != 0 {
				r.Violationf("c12-shutdown-table-not-empty", nil, "after Server.Close with %d real WebTransport sessions: table %d count %d", len(cs), n, eng.ClientsCount())
			}
			for _, c := range cs {
				c.Close()
			}
		}
		if l := q.Log(); strings.Contains(l, "panic serving") {
			r.Violationf("c09-handler-panic:OnWebTransportSession", nil, "panic in the HTTP/3 handler: %s", l[:min(len(l), 900)])
		}
		q.Close()
	}
}
