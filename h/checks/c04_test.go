package checks

import (
	crand "crypto/rand"
	"fmt"
	"github.com/zishang520/engine.io/v2/transports"
	"io"
	"math/rand/v2"
	"net/http/httptest"
	"strings"
	"sync"
	"sync/atomic"
	"testing"
	"time"
	"verifh/refcodec"

	"github.com/zishang520/engine.io/v2/config"
	"github.com/zishang520/engine.io/v2/engine"
	"github.com/zishang520/engine.io/v2/types"
	"github.com/zishang520/engine.io/v2/utils"

	"verifh/rep"
	"verifh/rig"
)

type c04Case struct {
	Ops  []string `json:"ops"` // connect:<transport> | cause:<n>:<cause> | upgrade:<n> | stale:<n> | quiesce | window:<cause>
	Seed string   `json:"seed"`
}

func genC04(rng *rand.Rand) c04Case {
	var c c04Case
	n := 4 + rng.IntN(14)
	live := 0
	for i := 0; i < n; i++ {
		switch x := rng.IntN(10); {
		case x < 4 || live == 0:
			c.Ops = append(c.Ops, "connect:"+[]string{"polling", "websocket", "webtransport"}[rng.IntN(3)])
			live++
		case x < 7:
			cs := closeCauses[rng.IntN(len(closeCauses))]
			if cs == "server-close" && rng.IntN(3) != 0 {
				cs = "close-true"
			}
			c.Ops = append(c.Ops, fmt.Sprintf("cause:%d:%s", rng.IntN(live), cs))
		case x < 8:
			c.Ops = append(c.Ops, fmt.Sprintf("upgrade:%d", rng.IntN(live)))
		case x < 9:
			c.Ops = append(c.Ops, fmt.Sprintf("stale:%d", rng.IntN(live)))
		default:
			c.Ops = append(c.Ops, "window:"+[]string{"peer-disconnect", "close-true", "ping-timeout", "transport-error", "parse-error", "close-false"}[rng.IntN(6)]+":"+[]string{"polling", "websocket", "webtransport"}[rng.IntN(3)])
			live++
		}
	}
	return c
}

func runC04(c c04Case, r *rep.Report) (key, msg string, stats map[string]int64) {
	stats = map[string]int64{}
	var pan any
	func() {
		defer func() { pan = recover() }()
		rig.Bubble(r.T(), func() {
			so := &config.ServerOptions{}
			so.SetAllowEIO3(true)
			so.SetTransports(types.NewSet("polling", "websocket", "webtransport"))
			so.SetPingInterval(300 * time.Millisecond)
			so.SetPingTimeout(200 * time.Millisecond)
			w := rig.NewWorld(rig.Options{Server: so})
			defer w.Finish()
			var clients []*rig.Client
			seenIDs := map[string]bool{}
			quiesce := func() bool {
				time.Sleep(time.Millisecond)
				rig.Wait()
				stats["quiescent_points"]++
				if k, m := checkRegistry(w); k != "" {
					key, msg = k, m
					return false
				}
				return true
			}
			for _, op := range c.Ops {
				parts := strings.Split(op, ":")
				switch parts[0] {
				case "connect":
					cl, err := w.Connect(rig.ClientCfg{Rev: 4, Transport: parts[1]})
					if err != nil {
						key, msg = "c04-handshake-failed", err.Error()
						return
					}
					if seenIDs[cl.Sid] {
						key, msg = "c04-session-id-reused", cl.Sid
						return
					}
					seenIDs[cl.Sid] = true
					if !idRe.MatchString(cl.Sid) {
						key, msg = "c04-session-id-not-url-safe", cl.Sid
						return
					}
					cl.StartReader()
					clients = append(clients, cl)
					stats["sessions"]++
				case "cause":
					var n int
					fmt.Sscan(parts[1], &n)
					if n >= len(clients) {
						continue
					}
					cl := clients[n]
					sock := w.SocketByID(cl.Sid)
					if sock == nil {
						continue
					}
					if parts[2] == "ping-timeout" {
						cl.SetNoAutoPong(true)
						time.Sleep(600 * time.Millisecond)
					} else {
						go fireCause(parts[2], w, cl, sock)
					}
					stats["causes_fired"]++
				case "upgrade":
					var n int
					fmt.Sscan(parts[1], &n)
					if n >= len(clients) || clients[n].Cfg.Transport != "polling" || clients[n].Ended() != "" {
						continue
					}
					if s := w.SocketByID(clients[n].Sid); s == nil || s.ReadyState() != "open" || s.Upgraded() {
						continue
					}
					if err := clients[n].UpgradeTo("websocket", nil); err == nil {
						stats["upgrades"]++
					}
				case "stale":
					var n int
					fmt.Sscan(parts[1], &n)
					if n >= len(clients) {
						continue
					}
					rig.Wait()
					s := w.SocketByID(clients[n].Sid)
					if s == nil || s.ReadyState() != "closed" {
						continue
					}
					res := w.Do(rig.ReqSpec{Method: "GET", Target: "/engine.io/?EIO=4&transport=polling&sid=" + clients[n].Sid})
					stats["requests_naming_closed_session"]++
					if res.Status != 400 || !strings.Contains(string(res.Body), `"code":1`) || !strings.Contains(string(res.Body), "Session ID unknown") {
						key, msg = "c04-closed-session-still-addressable", fmt.Sprintf("request naming closed session answered %d %q", res.Status, res.Body)
						return
					}
					// the same for a data request and for a WebSocket upgrade request naming it
					res = w.Do(rig.ReqSpec{Method: "POST", Target: "/engine.io/?EIO=4&transport=polling&sid=" + clients[n].Sid, Header: map[string][]string{"Content-Type": {"text/plain"}}, Body: []byte("4late")})
					if res.Status != 400 || !strings.Contains(string(res.Body), `"code":1`) {
						key, msg = "c04-closed-session-still-addressable", fmt.Sprintf("data request naming closed session answered %d %q", res.Status, res.Body)
						return
					}
					res = w.Do(rig.ReqSpec{Method: "GET", Target: "/engine.io/?EIO=4&transport=websocket&sid=" + clients[n].Sid, Header: map[string][]string{
						"Connection": {"Upgrade"}, "Upgrade": {"websocket"}, "Sec-WebSocket-Version": {"13"}, "Sec-WebSocket-Key": {"dGhlIHNhbXBsZSBub25jZQ=="}}})
					stats["upgrade_requests_naming_closed_session"]++
					if res.Status != 400 || !strings.Contains(string(res.Body), `"code":1`) || !strings.Contains(string(res.Body), "Session ID unknown") {
						key, msg = "c04-closed-session-still-addressable", fmt.Sprintf("WebSocket upgrade request naming closed session answered %d %q (err %v)", res.Status, res.Body, res.Err)
						return
					}
				case "window":
					// a session that dies while its handshake is being completed
					w.Gate.Arm("server.Handshake.afterNewSocket", 1)
					var cl *rig.Client
					done := make(chan struct{})
					go func() {
						cl, _ = w.Connect(rig.ClientCfg{Rev: 4, Transport: parts[2], NoAutoPong: true})
						close(done)
					}()
					time.Sleep(time.Microsecond)
					rig.Wait()
					ps := w.Gate.Parked()
					if len(ps) == 1 {
						stats["gate:handshake_held_after_new_socket"]++
						sock := ps[0].Args[0].(engine.Socket)
						cause := parts[1]
						if parts[2] != "websocket" {
							// polling: net/http flushes the handshake response only when the handler
							// returns, and it is the handler that is being held; in-memory WebTransport:
							// the handshake runs on the client's own goroutine.  Either way the client
							// knows nothing yet: only server-side causes can strike now
							if cause != "close-true" && cause != "close-false" && cause != "ping-timeout" {
								cause = "close-true"
							}
						} else {
							<-done
						}
						switch cause {
						case "ping-timeout":
							time.Sleep(600 * time.Millisecond)
						case "close-true":
							go sock.Close(true)
							time.Sleep(time.Millisecond)
						case "close-false":
							go sock.Close(false)
							time.Sleep(time.Millisecond)
						default:
							if cl != nil && cl.Sid != "" {
								go fireCause(cause, w, cl, sock)
							}
							time.Sleep(time.Millisecond)
						}
						rig.Wait()
					}
					w.Gate.ReleaseAll()
					<-done
					if cl != nil && cl.Sid != "" {
						seenIDs[cl.Sid] = true
						clients = append(clients, cl)
					}
				}
				if !quiesce() {
					return
				}
			}
			// shutdown: every session closed, table empty
			w.Eng.Close()
			time.Sleep(time.Second)
			rig.Wait()
			if n := w.Eng.Clients().Len(); n != 0 || w.Eng.ClientsCount() != 0 {
				key, msg = "c04-table-not-empty-after-shutdown", fmt.Sprintf("after Server.Close: table %d, count %d", n, w.Eng.ClientsCount())
				return
			}
			for _, cl := range clients {
				cl.Stop()
			}
		})
	}()
	if pan != nil {
		return "c04-panic", fmt.Sprint(pan), stats
	}
	return
}

type constReader struct{}

func (constReader) Read(p []byte) (int, error) {
	for i := range p {
		p[i] = 0x5a
	}
	return len(p), nil
}

// registryChurn: many goroutines handshake and close sessions at once; at the end (and after
// each burst) the table, the count and the live sessions must agree.
func registryChurn(r *rep.Report, bursts int) {
	so := &config.ServerOptions{}
	so.SetPingInterval(time.Hour)
	eng := engine.NewServer(so)
	defer eng.Close()
	for b := 0; b < bursts; b++ {
		var wg sync.WaitGroup
		var mu sync.Mutex
		live := map[string]engine.Socket{}
		for g := 0; g < 32; g++ {
			wg.Add(1)
			go func(g int) {
				defer wg.Done()
				for i := 0; i < 12; i++ {
					req := httptest.NewRequest("GET", "http://h/engine.io/?EIO=4&transport=polling", nil)
					rec := httptest.NewRecorder()
					eng.ServeHTTP(rec, req)
					body := rec.Body.String()
					k := strings.Index(body, `"sid":"`)
					if k < 0 {
						continue
					}
					sid := body[k+7:]
					sid = sid[:strings.Index(sid, `"`)]
					s, ok := eng.Clients().Load(sid)
					if !ok {
						mu.Lock()
						live["missing:"+sid] = nil
						mu.Unlock()
						continue
					}
					if (g+i)%3 != 0 {
						s.Close(true)
					} else {
						mu.Lock()
						live[sid] = s
						mu.Unlock()
					}
				}
			}(g)
		}
		wg.Wait()
		time.Sleep(20 * time.Millisecond)
		r.Obs("churn_bursts", 1)
		r.Obs("churn_sessions", 32*12)
		n := 0
		for sid, s := range live {
			if s == nil {
				r.Violationf("c04-live-session-unreachable", nil, "churn: a session just created (%s) was not reachable under its id", sid)
				return
			}
			if s.ReadyState() == "open" {
				n++
				if _, ok := eng.Clients().Load(sid); !ok {
					r.Violationf("c04-live-session-unreachable", map[string]any{"lane": "concurrent handshake/close churn"}, "churn burst %d: open session %s is not in the client table (table %d, count %d)", b, sid, eng.Clients().Len(), eng.ClientsCount())
					return
				}
			}
		}
		if eng.Clients().Len() != n || eng.ClientsCount() != uint64(n) {
			r.Violationf("c04-count-drift", map[string]any{"lane": "concurrent handshake/close churn"}, "churn burst %d: %d sessions are open, table has %d entries, count %d", b, n, eng.Clients().Len(), eng.ClientsCount())
			return
		}
		// a wave of handshakes only, then every session closed at the same moment: the last
		// writer of the count is one of many concurrent ones
		var all []engine.Socket
		for _, s := range live {
			all = append(all, s)
		}
		var amu sync.Mutex
		var wg2 sync.WaitGroup
		for g := 0; g < 32; g++ {
			wg2.Add(1)
			go func() {
				defer wg2.Done()
				for i := 0; i < 8; i++ {
					rec := httptest.NewRecorder()
					eng.ServeHTTP(rec, httptest.NewRequest("GET", "http://h/engine.io/?EIO=4&transport=polling", nil))
					body := rec.Body.String()
					if k := strings.Index(body, `"sid":"`); k >= 0 {
						sid := body[k+7:]
						sid = sid[:strings.Index(sid, `"`)]
						if s, ok := eng.Clients().Load(sid); ok {
							amu.Lock()
							all = append(all, s)
							amu.Unlock()
						}
					}
				}
			}()
		}
		wg2.Wait()
		time.Sleep(5 * time.Millisecond)
		if eng.Clients().Len() != len(all) || eng.ClientsCount() != uint64(len(all)) {
			r.Violationf("c04-count-drift", map[string]any{"lane": "wave of concurrent handshakes"}, "churn burst %d: %d sessions are open after a wave of concurrent handshakes, table has %d entries, count %d", b, len(all), eng.Clients().Len(), eng.ClientsCount())
			return
		}
		begin := make(chan struct{})
		var wg3 sync.WaitGroup
		for _, s := range all {
			wg3.Add(1)
			go func(s engine.Socket) {
				defer wg3.Done()
				<-begin
				s.Close(true)
			}(s)
		}
		close(begin)
		wg3.Wait()
		time.Sleep(5 * time.Millisecond)
		r.Obs("churn_sessions_closed_at_one_moment", int64(len(all)))
		if eng.Clients().Len() != 0 || eng.ClientsCount() != 0 {
			r.Violationf("c04-count-drift", map[string]any{"lane": "all sessions closed at the same moment"}, "churn burst %d: %d sessions closed at the same moment, all closed now; table has %d entries, count %d", b, len(all), eng.Clients().Len(), eng.ClientsCount())
			return
		}
	}
	// many medium waves on a fresh server each: 16-24 sessions closed at the same moment.  (Measured
	// against a count that is re-derived from the table size after each change: the last writer of
	// the count overlaps with its predecessor in about 3 % of such waves, far more often per second
	// than with waves of 2-4 or of hundreds of sessions.)
	for wv := 0; wv < 75*bursts; wv++ {
		eng := engine.NewServer(so)
		k := 16 + (wv%3)*4
		var ss []engine.Socket
		for i := 0; i < k; i++ {
			rec := httptest.NewRecorder()
			eng.ServeHTTP(rec, httptest.NewRequest("GET", "http://h/engine.io/?EIO=4&transport=polling", nil))
			body := rec.Body.String()
			if j := strings.Index(body, `"sid":"`); j >= 0 {
				sid := body[j+7:]
				sid = sid[:strings.Index(sid, `"`)]
				if s, ok := eng.Clients().Load(sid); ok {
					ss = append(ss, s)
				}
			}
		}
		if eng.ClientsCount() != uint64(len(ss)) || eng.Clients().Len() != len(ss) {
			r.Violationf("c04-count-drift", map[string]any{"lane": "medium waves"}, "%d sequential handshakes on a new server: count %d, table %d", len(ss), eng.ClientsCount(), eng.Clients().Len())
			eng.Close()
			return
		}
		begin := make(chan struct{})
		var wg4 sync.WaitGroup
		for _, s := range ss {
			wg4.Add(1)
			go func(s engine.Socket) {
				defer wg4.Done()
				<-begin
				s.Close(true)
			}(s)
		}
		close(begin)
		wg4.Wait()
		for i := 0; i < 100 && eng.Clients().Len() != 0; i++ {
			time.Sleep(100 * time.Microsecond)
		}
		r.Obs("churn_medium_waves", 1)
		if eng.Clients().Len() != 0 || eng.ClientsCount() != 0 {
			r.Violationf("c04-count-drift", map[string]any{"lane": "waves of sessions closed at the same moment on a new server"}, "%d sessions closed at the same moment, all closed now; table has %d entries, count %d", len(ss), eng.Clients().Len(), eng.ClientsCount())
			eng.Close()
			return
		}
		eng.Close()
	}
	r.Case("registry-churn", true)
}

// registryDeleteVsPromotion: a session closes; the removal of its table entry is held in the
// table's slow path (hook map.slowPath) while look-ups promote the table's dirty map; afterwards
// the closed session must be gone from the table and the count must agree.
func registryDeleteVsPromotion(r *rep.Report, others int) (key, msg string, held bool) {
	so := &config.ServerOptions{}
	so.SetPingInterval(time.Hour)
	eng := engine.NewServer(so)
	defer eng.Close()
	open := func() engine.Socket {
		rec := httptest.NewRecorder()
		eng.ServeHTTP(rec, httptest.NewRequest("GET", "http://h/engine.io/?EIO=4&transport=polling", nil))
		body := rec.Body.String()
		k := strings.Index(body, `"sid":"`)
		if k < 0 {
			return nil
		}
		sid := body[k+7:]
		s, _ := eng.Clients().Load(sid[:strings.Index(sid, `"`)])
		return s
	}
	for i := 0; i < others; i++ {
		open()
	}
	// bring every existing key into the read map, then add the victim: it lives in the dirty map only
	for i := 0; i < 2*others+2; i++ {
		eng.Clients().Load("nobody")
	}
	victim := open()
	if victim == nil {
		return "", "", false
	}
	g := rig.NewGate()
	g.Watch(eng.Clients())
	defer g.Close()
	g.Arm("map.slowPath", 1)
	done := make(chan struct{})
	go func() { victim.Close(true); close(done) }()
	deadline := time.Now().Add(5 * time.Second)
	for len(g.Parked()) == 0 && time.Now().Before(deadline) {
		rig.Settle()
	}
	held = len(g.Parked()) == 1
	for i := 0; i < 2*others+6; i++ {
		eng.Clients().Load(victim.Id())
	}
	g.ReleaseAll()
	<-done
	if _, ok := eng.Clients().Load(victim.Id()); ok {
		return "c04-closed-session-registered", fmt.Sprintf("session %s closed (state %s) while look-ups promoted the client table's dirty map: it is still in the table (table %d, count %d)", victim.Id(), victim.ReadyState(), eng.Clients().Len(), eng.ClientsCount()), held
	}
	if eng.Clients().Len() != others || eng.ClientsCount() != uint64(others) {
		return "c04-count-drift", fmt.Sprintf("after the close: table %d, count %d, live sessions %d", eng.Clients().Len(), eng.ClientsCount(), others), held
	}
	return "", "", held
}

// registryCloseFromInside: the application closes a session from inside one of the session's own
// listeners or send callbacks (real time, real goroutines).  Whatever the code does with its
// locks there, a session whose state is "closed" must leave the table and the count.
func registryCloseFromInside(event, transport string, discard bool) (key, msg string, reached bool) {
	so := &config.ServerOptions{}
	so.SetPingInterval(time.Hour)
	so.SetPingTimeout(time.Hour)
	var once atomic.Bool
	act := func(s engine.Socket) {
		if once.CompareAndSwap(false, true) {
			go func() {}() // (nothing: keep the action on the emitting goroutine)
			s.Close(discard)
		}
	}
	w := rig.NewWorld(rig.Options{Server: so, OnConnection: func(s engine.Socket) {
		switch event {
		case "packetCreate", "flush", "drain", "message":
			s.On(types.EventName(event), func(...any) { act(s) })
		}
	}})
	defer w.FinishReal()
	cl, err := w.Connect(rig.ClientCfg{Rev: 4, Transport: transport})
	if err != nil {
		return "", "", false
	}
	deadline := time.Now().Add(3 * time.Second)
	var sock engine.Socket
	for sock == nil && time.Now().Before(deadline) {
		sock = w.Socket(0)
		time.Sleep(time.Millisecond)
	}
	if sock == nil {
		return "", "", false
	}
	cl.StartReader()
	time.Sleep(5 * time.Millisecond)
	go func() {
		switch event {
		case "callback":
			sock.Send(types.NewStringBufferString("trigger"), nil, func(transports.Transport) { act(sock) })
		case "message":
			cl.Send(refcodec.Text(refcodec.Message, "trigger"))
		default:
			sock.Send(types.NewStringBufferString("trigger"), nil, nil)
		}
	}()
	ok := func() bool {
		if sock.ReadyState() != "closed" {
			return false
		}
		_, in := w.Eng.Clients().Load(sock.Id())
		return !in && w.Eng.ClientsCount() == 0 && w.Eng.Clients().Len() == 0
	}
	for time.Now().Before(deadline) && !ok() {
		time.Sleep(2 * time.Millisecond)
	}
	reached = once.Load()
	if reached && sock.ReadyState() == "closed" && !ok() {
		_, in := w.Eng.Clients().Load(sock.Id())
		key, msg = "c04-closed-session-registered", fmt.Sprintf("Close(discard=%v) called from inside a %s listener of a %s session: three seconds later the session's state is closed, yet it is reachable in the client table (%v), table %d, count %d", discard, event, transport, in, w.Eng.Clients().Len(), w.Eng.ClientsCount())
	}
	cl.Stop()
	return
}

func TestC04(t *testing.T) {
	r := rep.New(t, "C04")
	defer r.Flush()
	if r.Lane == 1%r.Lanes {
		// peers that have stopped reading, then the session ends (real time, judged at rest)
		stalledEndings(r, r.N(4, 64))
	}
	// journalled cases that have not ended after a minute of real time are examined (rep.Guard)
	r.Guard(60 * time.Second)
	if r.Lane == 3%r.Lanes {
		// the engine behind a types.HttpServer listening itself: HTTP/1.1, HTTP/2 (TLS) and HTTP/3 (QUIC) on loopback
		netLanes(r, r.N(4, 64))
	}
	r.Rule("PRNG histories of 4-18 operations on one server: handshakes on three transports, every close cause, upgrades, requests naming closed sessions, sessions killed while their handshake is held at server.Handshake.afterNewSocket, final Server.Close (window operation on all three transports with six causes); a real-time churn lane of 32 goroutines handshaking and closing concurrently; a real-time lane in which silent sessions of both revisions end by heartbeat expiry, application close and server close and the invariant is evaluated once every session reports closed and the process has come to rest; a gate lane holding the table's delete of a closing session in the map's slow path (hook map.slowPath) across a promotion; after EVERY operation the bubble is brought to quiescence and the invariant is evaluated (table == count == live announced sessions, no closed session reachable, no underflow); ids checked for uniqueness and alphabet across the process plus 16-goroutine GenerateId storms, also with crypto/rand replaced by a constant reader; distinct = operation sequences")
	r.Assume("with a degenerate random source ids must still be unique: the guarantee rests on the monotone sequence number inside the id, not on luck")
	if r.Lane == 2%r.Lanes {
		for k := 0; k < r.N(8, 160); k++ {
			for _, cause := range []string{"ping-timeout", "close-true", "server-close"} {
				key, msg, decided := registryRealTimeEndings(r, cause)
				r.Case("real-time-ending/"+cause, decided)
				if decided {
					r.Obs("real_time_endings:"+cause, 1)
				} else {
					r.Obs("real_time_endings_undecided", 1)
				}
				if key != "" {
					r.Violation(key, msg, map[string]any{"lane": "sessions ending on real time, invariant at rest", "cause": cause})
				}
			}
		}
	}
	n := r.N(2000, 150000)
	for i := 0; i < n; i++ {
		if !r.Only(i) {
			continue
		}
		rng := r.CaseRand(4, i)
		c := genC04(rng)
		c.Seed = fmt.Sprintf("seed=%d lane=%d case=%d", r.Seed, r.Lane, i)
		r.Begin(fmt.Sprint(i), c)
		key, msg, stats := runC04(c, r)
		r.End(fmt.Sprint(i))
		r.Case(strings.Join(c.Ops, ","), stats["quiescent_points"] > 2)
		for k, v := range stats {
			r.Obs(k, v)
		}
		if i < 2 {
			r.Sample(c)
		}
		if key != "" {
			r.Violation(key, msg, c)
		}
	}
	if r.Lane == 1%r.Lanes {
		for k := 0; k < r.N(4, 64); k++ {
			for _, tr := range []string{"polling", "websocket"} {
				for _, ev := range []string{"callback", "drain", "flush", "packetCreate", "message"} {
					discard := (k+len(ev))%2 == 0
					key, msg, reached := registryCloseFromInside(ev, tr, discard)
					r.Case(fmt.Sprintf("close-from-inside/%s/%s/%v", tr, ev, discard), reached)
					if reached {
						r.Obs("closes_from_inside_a_listener", 1)
					}
					if key != "" {
						r.Violation(key, msg, map[string]any{"lane": "close from inside a listener or send callback", "event": ev, "transport": tr, "discard": discard})
					}
				}
			}
		}
	}
	registryChurn(r, r.N(4*6, 16*60)/max(r.Lanes, 1))
	for k := 0; k < r.N(16, 800); k++ {
		others := 1 + k%4
		key, msg, held := registryDeleteVsPromotion(r, others)
		r.Case(fmt.Sprintf("registry-delete-vs-promotion/%d", others), held)
		if held {
			r.Obs("gate:table_delete_held_in_slow_path_across_promotion", 1)
		}
		if key != "" {
			r.Violation(key, msg, map[string]any{"lane": "table delete held in the map's slow path while look-ups promote the dirty map", "other_sessions": others})
		}
	}
	per := r.N(16*3000, 16*150000) / 16
	idStorm(r, "base64id", 16, per, func() (string, error) { return utils.Base64Id().GenerateId() })
	// degenerate random source
	old := crand.Reader
	crand.Reader = io.Reader(constReader{})
	idStorm(r, "base64id", 16, per/4, func() (string, error) { return utils.Base64Id().GenerateId() })
	crand.Reader = old
	r.Obs("degenerate_rng_storms", 1)
}

// registryRealTimeEndings: sessions that end for causes which take effect on the library's own
// goroutines - heartbeat expiry of silent clients (revision 3 and 4), graceful and immediate
// application close, server close - on REAL time.  On virtual time a goroutine that blocks on one
// of the library's mutexes freezes the clock, so a teardown that gets stuck there cannot be judged
// in a bubble; here it shows as what it is: a session whose state is closed and which is still
// registered.  No verdict depends on how long anything took: the lane waits (bounded, undecided
// on expiry) until every session reports the state closed, lets the process come to rest, and then
// evaluates the invariant.
func registryRealTimeEndings(r *rep.Report, cause string) (key, msg string, decided bool) {
	so := &config.ServerOptions{}
	so.SetAllowEIO3(true)
	if cause == "ping-timeout" {
		so.SetPingInterval(40 * time.Millisecond)
		so.SetPingTimeout(40 * time.Millisecond)
	} else {
		so.SetPingInterval(time.Hour)
		so.SetPingTimeout(time.Hour)
	}
	eng := engine.NewServer(so)
	var mu sync.Mutex
	closes := map[string]int{}
	eng.On("connection", func(a ...any) {
		s := a[0].(engine.Socket)
		s.On("close", func(...any) { mu.Lock(); closes[s.Id()]++; mu.Unlock() })
	})
	var socks []engine.Socket
	for i := 0; i < 6; i++ {
		rec := httptest.NewRecorder()
		eng.ServeHTTP(rec, httptest.NewRequest("GET", fmt.Sprintf("http://h/engine.io/?EIO=%d&transport=polling", 4-i%2), nil))
		body := rec.Body.String()
		k := strings.Index(body, `"sid":"`)
		if k < 0 {
			eng.Close()
			return "", "handshake failed: " + body, false
		}
		sid := body[k+7:]
		sid = sid[:strings.Index(sid, `"`)]
		if s, ok := eng.Clients().Load(sid); ok {
			socks = append(socks, s)
		}
	}
	if len(socks) != 6 {
		eng.Close()
		return "c04-live-session-unreachable", fmt.Sprintf("%d of 6 sessions just created are reachable under their ids", len(socks)), true
	}
	switch cause {
	case "close-true":
		for _, s := range socks {
			go s.Close(true)
		}
	case "server-close":
		go eng.Close()
	}
	// wait for the state, not for the clock
	allClosed := false
	for try := 0; try < 8000 && !allClosed; try++ {
		allClosed = true
		for _, s := range socks {
			if s.ReadyState() != "closed" {
				allClosed = false
			}
		}
		if !allClosed {
			time.Sleep(5 * time.Millisecond)
		}
	}
	if !allClosed {
		eng.Close()
		return "", "not every session reported the state closed within 40 s", false
	}
	if !rig.AtRest(20 * time.Second) {
		eng.Close()
		return "", "the process did not come to rest within 20 s", false
	}
	defer eng.Close()
	for _, s := range socks {
		if _, ok := eng.Clients().Load(s.Id()); ok {
			return "c04-closed-session-registered", fmt.Sprintf("real time, cause %s: session %s reports the state closed, the process has come to rest, and the session is still in the client table (table %d, count %d)", cause, s.Id(), eng.Clients().Len(), eng.ClientsCount()), true
		}
		rec := httptest.NewRecorder()
		eng.ServeHTTP(rec, httptest.NewRequest("POST", "http://h/engine.io/?EIO=4&transport=polling&sid="+s.Id(), strings.NewReader("4x")))
		if rec.Code != 400 || !strings.Contains(rec.Body.String(), `"code":1`) {
			return "c04-closed-session-still-addressable", fmt.Sprintf("real time, cause %s: a data request naming the closed session was answered %d %.60q", cause, rec.Code, rec.Body.String()), true
		}
	}
	if eng.Clients().Len() != 0 || eng.ClientsCount() != 0 {
		return "c04-count-drift", fmt.Sprintf("real time, cause %s: every session is closed; table %d entries, count %d", cause, eng.Clients().Len(), eng.ClientsCount()), true
	}
	mu.Lock()
	defer mu.Unlock()
	for _, s := range socks {
		if closes[s.Id()] != 1 {
			return "c04-close-events", fmt.Sprintf("real time, cause %s: session %s emitted %d close events", cause, s.Id(), closes[s.Id()]), true
		}
	}
	return "", "", true
}
