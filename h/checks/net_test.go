package checks

// R-net: the engine attached to a types.HttpServer that does its own listening on 127.0.0.1 —
// HTTP/1.1 over TCP (HttpServer.Listen), HTTP/2 over TLS (HttpServer.ListenTLS) and HTTP/3 over
// QUIC (HttpServer.ListenHTTP3TLS) — driven by Go's own HTTP clients for those protocols, in real
// time.  Polling sessions only (WebSocket needs HTTP/1.1 and is covered on the in-memory rig;
// WebTransport has its own real-QUIC lanes).  Everything the in-memory rig replaces is real here:
// the listeners of types/http-server.go, TLS, request multiplexing of HTTP/2 and HTTP/3 (several
// requests of one session on one connection), stream resets instead of connection closes when a
// client gives up, response writers without Hijack.
//
// One scenario serves several properties; each check reports the findings of its own property.
// No verdict depends on how long something took: completeness is decided by END markers on the
// ordered stream, and a real-time bound that expires (20 s where milliseconds are normal) makes
// the step undecided (counted in the evidence), never a violation.

import (
	"bytes"
	"context"
	"crypto/ecdsa"
	"crypto/elliptic"
	"crypto/rand"
	"crypto/tls"
	"crypto/x509"
	"crypto/x509/pkix"
	"encoding/json"
	"encoding/pem"
	"fmt"
	"io"
	"log"
	"math/big"
	"net"
	"net/http"
	"os"
	"path/filepath"
	"strings"
	"sync"
	"sync/atomic"
	"testing"
	"time"

	"github.com/quic-go/quic-go/http3"
	"github.com/zishang520/engine.io/v2/config"
	"github.com/zishang520/engine.io/v2/engine"
	"github.com/zishang520/engine.io/v2/types"

	"verifh/refcodec"
	"verifh/rep"
	"verifh/rig"
)

type netFinding struct{ Prop, Key, Msg string }

type netWorld struct {
	proto   string
	hs      *types.HttpServer
	eng     engine.Server
	base    string
	hc      *http.Client
	closeHC func()
	mu      sync.Mutex
	msgs    map[string][]expMsg
	closes  map[string][]string
	dir     string
}

var netPortCounter atomic.Int64

// freePort finds a port that is free for TCP and UDP on loopback.
func freePort() (int, error) {
	for try := 0; try < 200; try++ {
		p := 20000 + int((int64(os.Getpid())*131+netPortCounter.Add(1)*17)%30000)
		l, err := net.Listen("tcp", fmt.Sprintf("127.0.0.1:%d", p))
		if err != nil {
			continue
		}
		u, err := net.ListenPacket("udp", fmt.Sprintf("127.0.0.1:%d", p))
		l.Close()
		if err != nil {
			continue
		}
		u.Close()
		return p, nil
	}
	return 0, fmt.Errorf("no port free for TCP and UDP on loopback")
}

func writeCert(dir string) (certFile, keyFile string, pool *x509.CertPool, err error) {
	key, err := ecdsa.GenerateKey(elliptic.P256(), rand.Reader)
	if err != nil {
		return
	}
	tmpl := &x509.Certificate{
		SerialNumber: big.NewInt(1), Subject: pkix.Name{CommonName: "verif"},
		NotBefore: time.Now().Add(-time.Hour), NotAfter: time.Now().Add(24 * time.Hour),
		KeyUsage: x509.KeyUsageDigitalSignature | x509.KeyUsageCertSign, ExtKeyUsage: []x509.ExtKeyUsage{x509.ExtKeyUsageServerAuth},
		IsCA: true, BasicConstraintsValid: true,
		IPAddresses: []net.IP{net.ParseIP("127.0.0.1")}, DNSNames: []string{"localhost"},
	}
	der, err := x509.CreateCertificate(rand.Reader, tmpl, tmpl, &key.PublicKey, key)
	if err != nil {
		return
	}
	kb, err := x509.MarshalECPrivateKey(key)
	if err != nil {
		return
	}
	certFile, keyFile = filepath.Join(dir, "cert.pem"), filepath.Join(dir, "key.pem")
	if err = os.WriteFile(certFile, pem.EncodeToMemory(&pem.Block{Type: "CERTIFICATE", Bytes: der}), 0o600); err != nil {
		return
	}
	if err = os.WriteFile(keyFile, pem.EncodeToMemory(&pem.Block{Type: "EC PRIVATE KEY", Bytes: kb}), 0o600); err != nil {
		return
	}
	c, _ := x509.ParseCertificate(der)
	pool = x509.NewCertPool()
	pool.AddCert(c)
	return
}

// newNetWorld starts the listening server; skip != "" when loopback is unavailable.
func newNetWorld(proto string, so *config.ServerOptions) (w *netWorld, skip string) {
	port, err := freePort()
	if err != nil {
		return nil, err.Error()
	}
	addr := fmt.Sprintf("127.0.0.1:%d", port)
	w = &netWorld{proto: proto, msgs: map[string][]expMsg{}, closes: map[string][]string{}}
	w.hs = types.NewWebServer(http.HandlerFunc(func(rw http.ResponseWriter, _ *http.Request) { rw.WriteHeader(404) }))
	w.eng = engine.NewServer(so)
	w.eng.Attach(w.hs, nil)
	w.eng.On("connection", func(a ...any) {
		s := a[0].(engine.Socket)
		s.On("message", func(m ...any) {
			d, bin := rig.DataString(m[0].(io.Reader))
			w.mu.Lock()
			w.msgs[s.Id()] = append(w.msgs[s.Id()], expMsg{[]byte(d), bin})
			w.mu.Unlock()
		})
		s.On("close", func(b ...any) {
			w.mu.Lock()
			w.closes[s.Id()] = append(w.closes[s.Id()], fmt.Sprint(b[0]))
			w.mu.Unlock()
		})
	})
	var pool *x509.CertPool
	if proto != "h1" {
		w.dir, err = os.MkdirTemp(".", "netcert")
		if err != nil {
			return nil, err.Error()
		}
		var cf, kf string
		cf, kf, pool, err = writeCert(w.dir)
		if err != nil {
			os.RemoveAll(w.dir)
			return nil, err.Error()
		}
		if proto == "h2" {
			w.hs.ListenTLS(addr, cf, kf, nil)
		} else {
			w.hs.ListenHTTP3TLS(addr, cf, kf, nil, nil)
		}
		w.base = "https://" + addr
	} else {
		w.hs.Listen(addr, nil)
		w.base = "http://" + addr
	}
	switch proto {
	case "h1":
		t := &http.Transport{MaxIdleConnsPerHost: 64}
		w.hc, w.closeHC = &http.Client{Transport: t}, t.CloseIdleConnections
	case "h2":
		t := &http.Transport{TLSClientConfig: &tls.Config{RootCAs: pool}, ForceAttemptHTTP2: true, MaxIdleConnsPerHost: 64}
		w.hc, w.closeHC = &http.Client{Transport: t}, t.CloseIdleConnections
	case "h3":
		t := &http3.Transport{TLSClientConfig: &tls.Config{RootCAs: pool, NextProtos: []string{"h3"}}}
		w.hc, w.closeHC = &http.Client{Transport: t}, func() { t.Close() }
	}
	// wait for the listener
	for try := 0; try < 400; try++ {
		ctx, cancel := context.WithTimeout(context.Background(), 2*time.Second)
		req, _ := http.NewRequestWithContext(ctx, "GET", w.base+"/not-the-engine", nil)
		resp, err := w.hc.Do(req)
		cancel()
		if err == nil {
			io.Copy(io.Discard, resp.Body)
			resp.Body.Close()
			want := map[string]string{"h1": "HTTP/1.1", "h2": "HTTP/2.0", "h3": "HTTP/3.0"}[proto]
			if resp.Proto != want {
				w.close()
				return nil, fmt.Sprintf("client spoke %s instead of %s", resp.Proto, want)
			}
			return w, ""
		}
		time.Sleep(10 * time.Millisecond)
	}
	w.close()
	return nil, "the listening server did not come up on loopback within 8 s"
}

func (w *netWorld) close() {
	done := make(chan struct{})
	go func() { w.hs.Close(nil); close(done) }()
	select {
	case <-done:
	case <-time.After(20 * time.Second):
	}
	w.closeHC()
	if w.dir != "" {
		os.RemoveAll(w.dir)
	}
}

type netResp struct {
	status int
	hdr    http.Header
	body   []byte
	clen   int64
	err    error
}

func (w *netWorld) do(ctx context.Context, method, query string, hdr map[string]string, body []byte) netResp {
	var rd io.Reader
	if body != nil {
		rd = bytes.NewReader(body)
	}
	req, err := http.NewRequestWithContext(ctx, method, w.base+"/engine.io/?"+query, rd)
	if err != nil {
		return netResp{err: err}
	}
	for k, v := range hdr {
		req.Header.Set(k, v)
	}
	resp, err := w.hc.Do(req)
	if err != nil {
		return netResp{err: err}
	}
	defer resp.Body.Close()
	b, err := io.ReadAll(resp.Body)
	return netResp{status: resp.StatusCode, hdr: resp.Header, body: b, clen: resp.ContentLength, err: err}
}

func bg(d time.Duration) (context.Context, context.CancelFunc) {
	return context.WithTimeout(context.Background(), d)
}

func (w *netWorld) handshake() (sid string, open map[string]any, r netResp) {
	ctx, cancel := bg(20 * time.Second)
	defer cancel()
	r = w.do(ctx, "GET", "EIO=4&transport=polling", nil, nil)
	if r.err != nil || r.status != 200 || len(r.body) < 2 || r.body[0] != '0' {
		return
	}
	first := r.body
	if i := bytes.IndexByte(first, 0x1e); i >= 0 {
		first = first[:i]
	}
	if json.Unmarshal(first[1:], &open) != nil {
		return
	}
	sid, _ = open["sid"].(string)
	return
}

func (w *netWorld) sock(sid string) engine.Socket {
	s, _ := w.eng.Clients().Load(sid)
	return s
}

// pollOnce performs one poll and decodes it with the reference codec.
func (w *netWorld) pollOnce(ctx context.Context, sid string) (ps []refcodec.Packet, r netResp, problem string) {
	r = w.do(ctx, "GET", "EIO=4&transport=polling&sid="+sid, map[string]string{"Accept-Encoding": "gzip"}, nil)
	if r.err != nil || r.status != 200 {
		return
	}
	body := r.body
	if ce := r.hdr.Get("Content-Encoding"); ce != "" {
		dec, err := refcodec.DecodeContent(ce, body)
		if err != nil {
			return nil, r, fmt.Sprintf("body does not decode under Content-Encoding %q: %v", ce, err)
		}
		body = dec
	}
	if r.clen >= 0 && r.clen != int64(len(r.body)) {
		return nil, r, fmt.Sprintf("Content-Length %d, %d bytes received", r.clen, len(r.body))
	}
	ps, err := refcodec.V4DecodePayload(body)
	if err != nil {
		return nil, r, fmt.Sprintf("payload does not decode: %v (%.60q)", err, body)
	}
	if ct := r.hdr.Get("Content-Type"); !strings.HasPrefix(ct, "text/plain") {
		return ps, r, fmt.Sprintf("Content-Type %q for a revision-4 payload", ct)
	}
	return
}

func (w *netWorld) waitWritable(sid string, want bool) bool {
	for try := 0; try < 4000; try++ {
		if s := w.sock(sid); s != nil && s.Transport().Writable() == want {
			return true
		}
		time.Sleep(5 * time.Millisecond)
	}
	return false
}

func (w *netWorld) waitClosed(sid string) []string {
	for try := 0; try < 4000; try++ {
		w.mu.Lock()
		c := append([]string(nil), w.closes[sid]...)
		w.mu.Unlock()
		if len(c) > 0 {
			return c
		}
		time.Sleep(5 * time.Millisecond)
	}
	return nil
}

// netScenario runs the polling scenarios over one protocol.
func netScenario(proto string, rng interface{ IntN(int) int }) (fs []netFinding, stats map[string]int64, skip string) {
	stats = map[string]int64{}
	add := func(prop, key, msg string) {
		fs = append(fs, netFinding{prop, key + ":" + proto, "[" + proto + ", server listening itself on loopback] " + msg})
	}
	so := &config.ServerOptions{}
	so.SetPingInterval(time.Hour)
	so.SetPingTimeout(time.Hour)
	so.SetMaxHttpBufferSize(300000)
	w, skip := newNetWorld(proto, so)
	if skip != "" {
		return nil, stats, skip
	}
	defer w.close()

	// ---- A: traffic both ways, then an overlapping poll ----
	sid, open, hr := w.handshake()
	if sid == "" {
		add("C06", "net-handshake", fmt.Sprintf("handshake answered %d %.80q err=%v", hr.status, hr.body, hr.err))
		return
	}
	stats["net_handshakes"]++
	if ups, _ := open["upgrades"].([]any); len(ups) != 1 || ups[0] != "websocket" {
		add("C06", "net-open-packet-upgrades", fmt.Sprintf("open packet upgrades %v, want [websocket]", open["upgrades"]))
	}
	if open["maxPayload"] != float64(300000) {
		add("C06", "net-open-packet-maxpayload", fmt.Sprintf("open packet maxPayload %v, want 300000", open["maxPayload"]))
	}
	s := w.sock(sid)
	if s == nil {
		add("C04", "net-live-session-unreachable", "the session of an answered handshake is not in the client table")
		return
	}
	// outbound: two sender goroutines, sizes around the compression threshold and well above
	sizes := []int{1, 100, 1023, 1024, 3000, 70000, 10, 20000}
	type sent struct {
		data []byte
		bin  bool
	}
	var sentBy [2][]sent
	var wg sync.WaitGroup
	for g := 0; g < 2; g++ {
		n := 4 + rng.IntN(5)
		for k := 0; k < n; k++ {
			sz := sizes[rng.IntN(len(sizes))]
			d := []byte(fmt.Sprintf("g%d-%03d-", g, k))
			for len(d) < sz {
				d = append(d, byte('a'+rng.IntN(26)))
			}
			sentBy[g] = append(sentBy[g], sent{d, rng.IntN(4) == 0})
		}
	}
	for g := 0; g < 2; g++ {
		wg.Add(1)
		go func(g int) {
			defer wg.Done()
			for _, m := range sentBy[g] {
				if m.bin {
					s.Send(types.NewBytesBuffer(m.data), nil, nil)
				} else {
					s.Send(types.NewStringBuffer(m.data), nil, nil)
				}
				if len(m.data)%3 == 0 {
					time.Sleep(time.Millisecond)
				}
			}
		}(g)
	}
	go func() { wg.Wait(); s.Send(types.NewStringBufferString("END"), nil, nil) }()
	var got [2][]sent
	ended := false
	deadline := time.Now().Add(30 * time.Second)
	for !ended && time.Now().Before(deadline) {
		ctx, cancel := bg(20 * time.Second)
		ps, r, problem := w.pollOnce(ctx, sid)
		cancel()
		stats["net_polls"]++
		if r.hdr.Get("Content-Encoding") != "" {
			stats["net_compressed_poll_responses"]++
		}
		if problem != "" {
			add("C16", "net-poll-response-malformed", problem)
			return
		}
		if r.err != nil || r.status != 200 {
			add("C01", "net-poll-failed", fmt.Sprintf("poll answered %d err=%v while the session is open", r.status, r.err))
			return
		}
		for _, p := range ps {
			if p.Type != refcodec.Message {
				continue
			}
			if !p.Binary && string(p.Data) == "END" {
				ended = true
				continue
			}
			if ended {
				add("C01", "net-message-after-end", fmt.Sprintf("message %.30q after the END marker", p.Data))
			}
			if len(p.Data) < 2 || p.Data[0] != 'g' || (p.Data[1] != '0' && p.Data[1] != '1') {
				add("C01", "net-unknown-message", fmt.Sprintf("message %.30q was never sent", p.Data))
				return
			}
			g := int(p.Data[1] - '0')
			got[g] = append(got[g], sent{p.Data, p.Binary})
		}
	}
	if !ended {
		stats["net_undecided_end_marker_not_seen_in_30s"]++
		return
	}
	for g := 0; g < 2; g++ {
		for i := range sentBy[g] {
			if i >= len(got[g]) {
				add("C01", "net-message-lost", fmt.Sprintf("sender %d: %d of %d messages had arrived when the END marker did", g, len(got[g]), len(sentBy[g])))
				break
			}
			if !bytes.Equal(got[g][i].data, sentBy[g][i].data) || got[g][i].bin != sentBy[g][i].bin {
				add("C01", "net-message-mismatch", fmt.Sprintf("sender %d message %d: sent %d bytes binary=%v %.20q, received %d bytes binary=%v %.20q", g, i, len(sentBy[g][i].data), sentBy[g][i].bin, sentBy[g][i].data, len(got[g][i].data), got[g][i].bin, got[g][i].data))
				break
			}
		}
		if len(got[g]) > len(sentBy[g]) {
			add("C01", "net-message-duplicated", fmt.Sprintf("sender %d: %d messages received, %d sent", g, len(got[g]), len(sentBy[g])))
		}
		stats["net_messages_outbound_checked"] += int64(len(sentBy[g]))
	}
	// inbound: data requests, several packets each
	var expect []expMsg
	for p := 0; p < 4; p++ {
		var pk []refcodec.Packet
		for k := 1 + rng.IntN(4); k > 0; k-- {
			sz := []int{0, 1, 50, 2000, 40000}[rng.IntN(5)]
			d := make([]byte, sz)
			for i := range d {
				d[i] = byte('A' + rng.IntN(26))
			}
			bin := rng.IntN(3) == 0
			pk = append(pk, refcodec.Packet{Type: refcodec.Message, Data: d, Binary: bin})
			expect = append(expect, expMsg{d, bin})
		}
		ctx, cancel := bg(20 * time.Second)
		r := w.do(ctx, "POST", "EIO=4&transport=polling&sid="+sid, map[string]string{"Content-Type": "text/plain;charset=UTF-8"}, refcodec.V4Payload(pk))
		cancel()
		stats["net_data_requests"]++
		if r.err != nil || r.status != 200 || string(r.body) != "ok" {
			add("C11", "net-data-request-not-acknowledged", fmt.Sprintf("data request answered %d %.40q err=%v", r.status, r.body, r.err))
			return
		}
		// 'ok' only after every packet of the payload was processed
		w.mu.Lock()
		n := len(w.msgs[sid])
		w.mu.Unlock()
		if n != len(expect) {
			add("C11", "net-ok-before-processing", fmt.Sprintf("the data request was acknowledged when %d of %d submitted messages had been delivered", n, len(expect)))
			return
		}
	}
	w.mu.Lock()
	in := append([]expMsg(nil), w.msgs[sid]...)
	w.mu.Unlock()
	for i := range expect {
		if i >= len(in) || !bytes.Equal(in[i].data, expect[i].data) || in[i].binary != expect[i].binary {
			add("C02", "net-inbound-mismatch", fmt.Sprintf("message event #%d differs from the submitted message (%d delivered, %d submitted)", i, len(in), len(expect)))
			break
		}
	}
	stats["net_messages_inbound_checked"] += int64(len(expect))
	// overlapping poll: the first one pending, a second one arrives
	first := make(chan netResp, 1)
	go func() {
		ctx, cancel := bg(30 * time.Second)
		defer cancel()
		first <- w.do(ctx, "GET", "EIO=4&transport=polling&sid="+sid, nil, nil)
	}()
	if !w.waitWritable(sid, true) {
		stats["net_undecided_poll_did_not_become_pending"]++
		return
	}
	ctx, cancel := bg(20 * time.Second)
	second := w.do(ctx, "GET", "EIO=4&transport=polling&sid="+sid, nil, nil)
	cancel()
	stats["net_overlapping_polls"]++
	if second.err == nil && second.status != 400 {
		add("C11", "net-overlapping-poll-not-refused", fmt.Sprintf("a second poll while the first was outstanding was answered %d %.40q", second.status, second.body))
	}
	if cl := w.waitClosed(sid); cl == nil {
		if second.err == nil {
			add("C11", "net-overlap-session-not-closed", "20 s after an overlapping poll was refused the session is still open")
		}
	} else if len(cl) != 1 || cl[0] != "transport error" {
		add("C11", "net-overlap-close-reason", fmt.Sprintf("overlapping poll: close events %v, want one 'transport error'", cl))
	}
	select {
	case fr := <-first:
		if fr.err != nil && second.err == nil {
			// the pending poll must be answered, not dropped
			add("C11", "net-pending-poll-not-answered", fmt.Sprintf("the poll that was pending when the session closed ended with %v instead of a response", fr.err))
		}
	case <-time.After(25 * time.Second):
		add("C11", "net-pending-poll-not-answered", "the poll that was pending when the session closed was still unanswered 25 s later")
	}
	// a request naming the closed session
	ctx, cancel = bg(20 * time.Second)
	r := w.do(ctx, "GET", "EIO=4&transport=polling&sid="+sid, nil, nil)
	cancel()
	if r.err == nil && (r.status != 400 || !strings.Contains(string(r.body), `"code":1`)) {
		add("C04", "net-closed-session-still-addressable", fmt.Sprintf("a poll naming the closed session was answered %d %.60q", r.status, r.body))
	}

	// ---- B: graceful close with a pending poll and buffered data ----
	sid2, _, _ := w.handshake()
	if s2 := w.sock(sid2); s2 != nil {
		pend := make(chan []refcodec.Packet, 1)
		go func() {
			ctx, cancel := bg(30 * time.Second)
			defer cancel()
			ps, _, _ := w.pollOnce(ctx, sid2)
			pend <- ps
		}()
		if w.waitWritable(sid2, true) {
			s2.Send(types.NewStringBufferString("bye-1"), nil, nil)
			s2.Send(types.NewStringBufferString("bye-2"), nil, nil)
			s2.Close(false)
			var all []string
			closeSeen := false
			select {
			case ps := <-pend:
				for _, p := range ps {
					all = append(all, string(p.Type)+string(p.Data))
				}
			case <-time.After(25 * time.Second):
				add("C12", "net-pending-poll-not-released", "graceful close: the pending poll was still unanswered 25 s later")
			}
			for try := 0; try < 3 && !closeSeen; try++ {
				for _, x := range all {
					if x == "1" {
						closeSeen = true
					}
				}
				if closeSeen {
					break
				}
				ctx, cancel := bg(20 * time.Second)
				ps, r, _ := w.pollOnce(ctx, sid2)
				cancel()
				if r.err != nil || r.status != 200 {
					break
				}
				for _, p := range ps {
					all = append(all, string(p.Type)+string(p.Data))
				}
			}
			stats["net_graceful_closes"]++
			joined := strings.Join(all, ",")
			i1, i2, ic := strings.Index(joined, "4bye-1"), strings.Index(joined, "4bye-2"), strings.LastIndex(joined, "1")
			if i1 < 0 || i2 < i1 || (closeSeen && ic < i2) {
				add("C12", "net-packets-lost-on-graceful-close", fmt.Sprintf("Send bye-1, bye-2, Close(false) with a poll pending: the client received [%s]", joined))
			}
			if cl := w.waitClosed(sid2); cl == nil || len(cl) != 1 || cl[0] != "forced close" {
				add("C12", "net-graceful-close-reason", fmt.Sprintf("graceful close: close events %v, want one 'forced close'", cl))
			}
		}
	}

	// ---- C: the client gives up on a pending poll (HTTP/2, HTTP/3: a stream reset, the connection stays) ----
	sid3, _, _ := w.handshake()
	if s3 := w.sock(sid3); s3 != nil {
		ctx, cancel := context.WithCancel(context.Background())
		gone := make(chan struct{})
		go func() { w.do(ctx, "GET", "EIO=4&transport=polling&sid="+sid3, nil, nil); close(gone) }()
		if w.waitWritable(sid3, true) {
			cancel()
			<-gone
			stats["net_aborted_polls"]++
			// whatever the session does about it, the same connection must keep serving others
			ctx2, cancel2 := bg(20 * time.Second)
			r := w.do(ctx2, "POST", "EIO=4&transport=polling&sid="+sid3, map[string]string{"Content-Type": "text/plain;charset=UTF-8"}, []byte("4after-abort"))
			cancel2()
			if r.err != nil {
				add("C09", "net-connection-unusable-after-abort", fmt.Sprintf("after the client gave up on a pending poll a data request on the same client failed: %v", r.err))
			}
		}
		cancel()
	}

	// ---- D: shutdown with pending polls ----
	var sids []string
	for i := 0; i < 3; i++ {
		if x, _, _ := w.handshake(); x != "" {
			sids = append(sids, x)
		}
	}
	res := make(chan netResp, len(sids))
	for _, x := range sids {
		go func(x string) {
			ctx, cancel := bg(40 * time.Second)
			defer cancel()
			res <- w.do(ctx, "GET", "EIO=4&transport=polling&sid="+x, nil, nil)
		}(x)
	}
	allPending := true
	for _, x := range sids {
		allPending = allPending && w.waitWritable(x, true)
	}
	if allPending && len(sids) > 0 {
		done := make(chan struct{})
		go func() { w.hs.Close(nil); close(done) }()
		bad := ""
		for range sids {
			select {
			case p := <-res:
				if p.err != nil || p.status != 200 || (string(p.body) != "1" && string(p.body) != "6") {
					bad = fmt.Sprintf("status %d body %.30q err %v", p.status, p.body, p.err)
				}
			case <-time.After(30 * time.Second):
				stats["net_undecided_shutdown_poll_timeout"]++
			}
		}
		select {
		case <-done:
		case <-time.After(30 * time.Second):
			stats["net_undecided_shutdown_did_not_return"]++
		}
		stats["net_shutdowns_with_pending_polls"]++
		if bad != "" {
			key := "net-pending-poll-not-released"
			if proto == "h3" && strings.Contains(bad, "H3_NO_ERROR") {
				// witness shape of the recorded finding: the server closed the QUIC connection (no
				// error code) under the response it had just written
				key = "net-shutdown-closes-quic-connection-under-the-response"
			}
			add("C12", key, fmt.Sprintf("HttpServer.Close with %d polls outstanding: a pending poll was not released with a close or noop packet: %s", len(sids), bad))
		}
		time.Sleep(20 * time.Millisecond)
		w.mu.Lock()
		for _, x := range sids {
			if len(w.closes[x]) != 1 {
				add("C12", "net-shutdown-close-events", fmt.Sprintf("HttpServer.Close: session %s has close events %v", x, w.closes[x]))
			}
		}
		w.mu.Unlock()
		if w.eng.Clients().Len() != 0 || w.eng.ClientsCount() != 0 {
			add("C04", "net-table-not-empty-after-shutdown", fmt.Sprintf("after HttpServer.Close: %d entries, count %d", w.eng.Clients().Len(), w.eng.ClientsCount()))
		}
	}
	return
}

var netLogOnce sync.Once
var netLog lockedWriter

type lockedWriter struct {
	mu sync.Mutex
	b  bytes.Buffer
}

func (l *lockedWriter) Write(p []byte) (int, error) {
	l.mu.Lock()
	defer l.mu.Unlock()
	if l.b.Len() < 1<<20 {
		l.b.Write(p)
	}
	return len(p), nil
}

func (l *lockedWriter) String() string {
	l.mu.Lock()
	defer l.mu.Unlock()
	return l.b.String()
}

// netLanes runs the scenario k times per protocol and reports the findings of the check's own
// property.  A handler panic recovered by net/http (it logs "http: panic serving") is a finding of
// whatever property is being checked.
func netLanes(r *rep.Report, k int) {
	netLogOnce.Do(func() { log.SetOutput(&netLog) })
	rng := r.Rand(77)
	for i := 0; i < k; i++ {
		for _, proto := range []string{"h1", "h2", "h3"} {
			fs, stats, skip := netScenario(proto, rng)
			if skip != "" {
				r.Obs("net_lane_skipped:"+proto, 1)
				r.Assume("R-net lane (" + proto + ") skipped: " + skip)
				continue
			}
			r.Case("net/"+proto, stats["net_handshakes"] > 0)
			r.Obs("net_scenarios:"+proto, 1)
			for kk, v := range stats {
				r.Obs(kk, v)
			}
			for _, f := range fs {
				if f.Prop == r.Property {
					r.Violation(f.Key, f.Msg, map[string]any{"lane": "R-net: engine behind a listening types.HttpServer, " + proto, "seed": r.Seed})
				} else {
					r.Obs("net_findings_of_other_properties:"+f.Prop, 1)
				}
			}
			if l := netLog.String(); strings.Contains(l, "panic serving") && strings.Contains(l, "zishang520/engine.io/v2") {
				r.Violation("net-handler-panic:"+proto, l[:min(len(l), 1500)], map[string]any{"lane": "R-net " + proto})
			}
		}
	}
}

// TestNetSmoke runs the scenario once per protocol and prints every finding (development aid; not
// part of any registered check).
func TestNetSmoke(t *testing.T) {
	rng := rep.New(t, "NET").Rand(1)
	for _, proto := range []string{"h1", "h2", "h3"} {
		fs, stats, skip := netScenario(proto, rng)
		t.Logf("%s skip=%q stats=%v", proto, skip, stats)
		for _, f := range fs {
			t.Errorf("%s %s %s: %s", proto, f.Prop, f.Key, f.Msg)
		}
	}
}
