package checks

import (
	"fmt"
	"math/rand/v2"
	"strings"
	"sync"
	"testing"
	"time"

	"github.com/zishang520/engine.io/v2/config"
	"github.com/zishang520/engine.io/v2/types"

	"verifh/fakenet"
	"verifh/refcodec"
	"verifh/rep"
	"verifh/rig"
)

type c07Case struct {
	Rev       int      `json:"rev"`
	Transport string   `json:"transport"`
	PI        int64    `json:"ping_interval_ns"`
	PT        int64    `json:"ping_timeout_ns"`
	Rounds    []string `json:"rounds"` // v4: intime0 | half | justbefore | exact | late | never | dup ; v3: ping gaps as "gap:<fraction>" | stop
	Unsol     bool     `json:"unsolicited_pong"`
	Traffic   bool     `json:"other_traffic"`
	GatePing  bool     `json:"gate_between_ping_and_timeout"`
	Mode      string   `json:"mode"` // timing | wrongdir | upgrade-eio-mismatch
	Seed      string   `json:"seed"`
}

func genC07(rng *rand.Rand) c07Case {
	ms := int64(time.Millisecond)
	durs := []int64{1 * ms, 5 * ms, 20 * ms, 100 * ms, 300 * ms, 5000 * ms, 25000 * ms}
	c := c07Case{Rev: 4, Mode: "timing", PI: durs[rng.IntN(len(durs))], PT: durs[rng.IntN(len(durs))]}
	switch rng.IntN(3) {
	case 0:
		c.PT = c.PI
	case 1:
		if c.PT > c.PI {
			c.PI, c.PT = c.PT, c.PI
		}
	}
	c.Transport = []string{"polling", "websocket", "webtransport"}[rng.IntN(3)]
	if c.Transport != "webtransport" && rng.IntN(3) == 0 {
		c.Rev = 3
	}
	n := 1 + rng.IntN(6)
	for i := 0; i < n; i++ {
		if c.Rev == 4 {
			c.Rounds = append(c.Rounds, []string{"intime0", "half", "justbefore", "exact", "late", "never", "dup", "intime0", "half"}[rng.IntN(9)])
		} else {
			c.Rounds = append(c.Rounds, []string{"gap:0.1", "gap:0.5", "gap:1.0", "gap:1.5", "gap:exact", "stop"}[rng.IntN(6)])
		}
	}
	c.Unsol = c.Rev == 4 && rng.IntN(4) == 0
	c.Traffic = rng.IntN(2) == 0
	return c
}

type hbEvent struct {
	at   time.Duration
	kind string // ping | heartbeat | close:<reason> | pongwire
	seq  int64
}

func runC07(c c07Case, rng *rand.Rand, r *rep.Report) (key, msg string, stats map[string]int64) {
	stats = map[string]int64{}
	PI, PT := time.Duration(c.PI), time.Duration(c.PT)
	var pan any
	func() {
		defer func() { pan = recover() }()
		rig.Bubble(r.T(), func() {
			so := &config.ServerOptions{}
			so.SetAllowEIO3(true)
			so.SetTransports(types.NewSet("polling", "websocket", "webtransport"))
			so.SetPingInterval(PI)
			so.SetPingTimeout(PT)
			w := rig.NewWorld(rig.Options{Server: so})
			defer w.Finish()
			cfg := rig.ClientCfg{Rev: c.Rev, Transport: c.Transport, NoAutoPong: true}
			cl, err := w.Connect(cfg)
			rig.Wait()
			sock := w.Socket(0)
			if err != nil || sock == nil {
				key, msg = "c07-handshake-failed", fmt.Sprint(err)
				return
			}
			sid := sock.Id()
			openAt := w.Tap.Of(sid, "connection")[0].At
			var mu sync.Mutex
			round := 0
			expectClose := false
			stopAll := false
			sendPong := func() { cl.Send(refcodec.Packet{Type: refcodec.Pong}) }
			if c.Rev == 4 {
				cl.OnPacket = func(rv rig.Recv) {
					if rv.P.Type != refcodec.Ping {
						return
					}
					mu.Lock()
					i := round
					round++
					mu.Unlock()
					kind := "intime0"
					if i < len(c.Rounds) {
						kind = c.Rounds[i]
					} else {
						kind = "never"
					}
					if c.GatePing {
						kind = "intime0"
					}
					// the server created the ping at its packetCreate time; on polling it may have
					// waited in the buffer, so delays are measured from the server's send time
					var created time.Duration
					if e, ok := w.Tap.Last(sid, "packetCreate", "ping:"); ok {
						created = e.At
					}
					wait := func(d time.Duration) {
						if rem := created + d - w.Tap.Now(); rem > 0 {
							time.Sleep(rem)
						}
					}
					go func() {
						switch kind {
						case "intime0":
							sendPong()
						case "half":
							wait(PT / 2)
							sendPong()
						case "justbefore":
							wait(PT - time.Nanosecond)
							sendPong()
						case "exact":
							wait(PT)
							sendPong()
						case "late":
							wait(PT + time.Nanosecond)
							sendPong()
						case "dup":
							sendPong()
							sendPong()
						case "never":
						}
					}()
				}
			}
			cl.StartReader()
			if c.GatePing {
				// hold the server's ping callback between its two steps (send the ping, arm the
				// timeout - in whichever order the code has them) while the client may answer
				w.Gate.Arm("socket.ping.between", 1)
				go func() {
					time.Sleep(PI)
					for i := 0; i < 50 && len(w.Gate.Parked()) == 0; i++ {
						time.Sleep(time.Nanosecond)
					}
					if len(w.Gate.Parked()) > 0 {
						mu.Lock()
						stats["gate:ping_callback_held_between_send_and_timeout"]++
						mu.Unlock()
					}
					time.Sleep(PT / 4)
					w.Gate.ReleaseAll()
				}()
			}
			horizon := openAt
			if c.Rev == 4 {
				// run long enough for all rounds plus one expiry
				for _, rd := range c.Rounds {
					horizon += PI
					switch rd {
					case "half":
						horizon += PT / 2
					case "justbefore", "exact", "late", "never":
						horizon += PT
					}
				}
				horizon += PI + PT + time.Millisecond
				if c.GatePing {
					horizon = openAt + 3*(PI+PT)
					if horizon > openAt+60*PI {
						horizon = openAt + 60*PI
					}
				}
				if c.Unsol {
					go func() {
						time.Sleep(PI / 3)
						sendPong()
					}()
					horizon += PI
				}
			} else {
				go func() {
					last := openAt
					for _, rd := range c.Rounds {
						if rd == "stop" {
							break
						}
						var gap time.Duration
						switch rd {
						case "gap:exact":
							gap = PI + PT
						default:
							var f float64
							fmt.Sscanf(rd, "gap:%f", &f)
							gap = time.Duration(float64(PI+PT) * f)
						}
						if rem := last + gap - w.Tap.Now(); rem > 0 {
							time.Sleep(rem)
						}
						mu.Lock()
						s := stopAll
						mu.Unlock()
						if s {
							return
						}
						last = w.Tap.Now()
						if cl.Send(refcodec.Packet{Type: refcodec.Ping}) != nil {
							return
						}
					}
				}()
				horizon += time.Duration(len(c.Rounds)+2)*(PI+PT)*3/2 + time.Millisecond
			}
			if c.Traffic {
				go func() {
					for i := 0; i < 5; i++ {
						time.Sleep(PI/3 + time.Microsecond)
						if sock.ReadyState() != "open" {
							return
						}
						sock.Send(types.NewStringBufferString("traffic"), nil, nil)
						cl.Send(refcodec.Text(refcodec.Message, "client-traffic"))
					}
				}()
			}
			_ = expectClose
			time.Sleep(horizon - w.Tap.Now())
			rig.Wait()
			mu.Lock()
			stopAll = true
			mu.Unlock()
			key, msg = judgeC07(c, w, sid, cl, openAt, horizon, stats)
			cl.Stop()
		})
	}()
	if pan != nil {
		return "c07-panic", fmt.Sprint(pan), stats
	}
	return
}

func judgeC07(c c07Case, w *rig.World, sid string, cl *rig.Client, openAt, horizon time.Duration, stats map[string]int64) (string, string) {
	PI, PT := time.Duration(c.PI), time.Duration(c.PT)
	evs := w.Tap.Of(sid)
	var trace []string
	add := func(e rig.Event, what string) { trace = append(trace, fmt.Sprintf("%v %s", e.At-openAt, what)) }
	if c.GatePing {
		// the injected hold shifts instants; the client answers every ping at once, so the
		// only judgement is that it is never closed
		for _, e := range evs {
			if e.Kind == "close" {
				return "c07-responsive-client-closed", fmt.Sprintf("gate lane: client answered every ping immediately, session closed with %q at open+%v (PI=%v PT=%v)", e.Str, e.At-openAt, PI, PT)
			}
			if e.Kind == "packetCreate" && e.Str == "ping:" {
				stats["pings"]++
			}
		}
		return "", ""
	}
	if c.Rev == 4 {
		nextPing := openAt + PI
		havePing := true
		var deadline, coincidence time.Duration
		haveDeadline := false
		closed := false
		for _, e := range evs {
			switch {
			case e.Kind == "packetCreate" && e.Str == "ping:":
				add(e, "ping")
				stats["pings"]++
				if !havePing || e.At != nextPing {
					return "c07-ping-at-wrong-time", fmt.Sprintf("ping sent at open+%v; expected %v (PI=%v PT=%v) trace: %s", e.At-openAt, map[bool]any{true: nextPing - openAt, false: "none pending"}[havePing], PI, PT, strings.Join(trace, "; "))
				}
				havePing = false
				deadline, haveDeadline = e.At+PT, true
			case e.Kind == "heartbeat":
				add(e, "pong accepted")
				stats["pongs_accepted"]++
				if haveDeadline && e.At == deadline {
					// processed at exactly the deadline instant: the expiry may win as well
					coincidence = deadline
					stats["pong_at_exact_deadline"]++
				}
				haveDeadline = false
				nextPing, havePing = e.At+PI, true
			case e.Kind == "close":
				add(e, "close:"+e.Str)
				closed = true
				stats["closes:"+e.Str]++
				if e.Str != "ping timeout" {
					return "c07-closed-for-other-reason:" + e.Str, fmt.Sprintf("session closed with %q in a heartbeat-only history; trace: %s", e.Str, strings.Join(trace, "; "))
				}
				if !haveDeadline && coincidence == e.At && coincidence != 0 {
					break
				}
				if !haveDeadline {
					return "c07-responsive-client-closed", fmt.Sprintf("'ping timeout' at open+%v although the last ping was answered in time (PI=%v PT=%v); trace: %s", e.At-openAt, PI, PT, strings.Join(trace, "; "))
				}
				if e.At != deadline {
					return "c07-timeout-at-wrong-time", fmt.Sprintf("'ping timeout' at open+%v, deadline was open+%v (PI=%v PT=%v); trace: %s", e.At-openAt, deadline-openAt, PI, PT, strings.Join(trace, "; "))
				}
			}
			if closed {
				break
			}
		}
		if !closed {
			if haveDeadline && deadline < horizon {
				return "c07-no-timeout-at-deadline", fmt.Sprintf("no pong was accepted before open+%v yet the session is still open at open+%v; trace: %s", deadline-openAt, horizon-openAt, strings.Join(trace, "; "))
			}
			if havePing && nextPing < horizon {
				return "c07-ping-missing", fmt.Sprintf("no ping at open+%v (PI=%v); trace: %s", nextPing-openAt, PI, strings.Join(trace, "; "))
			}
		}
		return "", ""
	}
	// revision 3: client pings; server pongs; close exactly PI+PT after the last ping (or open)
	last := openAt
	var prevDeadline, closeAt time.Duration
	closed := false
	pongsCreated := 0
	pingsAccepted := 0
	atClose := 0 // heartbeat-related events at the very instant of the close
	for _, e := range evs {
		switch {
		case e.Kind == "heartbeat":
			pingsAccepted++
			if closed {
				if e.At == closeAt {
					atClose++
				}
				continue
			}
			add(e, "ping accepted")
			if e.At == last+PI+PT {
				// a ping processed at exactly the expiry instant: the expiry may win as well
				prevDeadline = e.At
				stats["ping_at_exact_deadline"]++
			}
			last = e.At
		case e.Kind == "packetCreate" && e.Str == "pong:":
			pongsCreated++
		case e.Kind == "packetCreate" && e.Str == "ping:":
			return "c07-server-pinged-v3-session", "the server sent a ping on a revision-3 session"
		case e.Kind == "close" && !closed:
			add(e, "close:"+e.Str)
			closed = true
			closeAt = e.At
			stats["closes:"+e.Str]++
			if e.Str != "ping timeout" {
				return "c07-closed-for-other-reason:" + e.Str, fmt.Sprintf("session closed with %q; trace: %s", e.Str, strings.Join(trace, "; "))
			}
			if e.At == prevDeadline && prevDeadline != 0 {
				break
			}
			if e.At != last+PI+PT {
				return "c07-timeout-at-wrong-time", fmt.Sprintf("v3 'ping timeout' at open+%v, expected last ping (open+%v) + PI+PT = open+%v; trace: %s", e.At-openAt, last-openAt, last+PI+PT-openAt, strings.Join(trace, "; "))
			}
		}
	}
	stats["v3_pings_accepted"] += int64(pingsAccepted)
	coincided := closed && (prevDeadline == closeAt || atClose > 0)
	diff := pingsAccepted - pongsCreated
	if diff != 0 && !(coincided && diff >= -1 && diff <= 1) {
		return "c07-v3-ping-not-answered", fmt.Sprintf("%d client pings accepted, %d pongs created; trace: %s", pingsAccepted, pongsCreated, strings.Join(trace, "; "))
	}
	wire := 0
	for _, rv := range cl.Received() {
		if rv.P.Type == refcodec.Pong {
			wire++
		}
	}
	if !closed && wire != pingsAccepted {
		return "c07-v3-pong-not-on-wire", fmt.Sprintf("%d client pings accepted, %d pongs received by the client", pingsAccepted, wire)
	}
	if !closed && last+PI+PT < horizon {
		return "c07-no-timeout-at-deadline", fmt.Sprintf("v3 session still open at open+%v, last ping at open+%v, PI+PT=%v", horizon-openAt, last-openAt, PI+PT)
	}
	return "", ""
}

// runC07AfterUpgrade: the heartbeat of a session that has completed an upgrade (well away from
// any ping deadline): the peer answers once more on the new transport and then goes silent.
func runC07AfterUpgrade(rev int, target string, PI, PT time.Duration, r *rep.Report) (key, msg string) {
	rig.Bubble(r.T(), func() {
		so := &config.ServerOptions{}
		so.SetAllowEIO3(true)
		so.SetTransports(types.NewSet("polling", "websocket", "webtransport"))
		so.SetPingInterval(PI)
		so.SetPingTimeout(PT)
		w := rig.NewWorld(rig.Options{Server: so})
		defer w.Finish()
		cl, err := w.Connect(rig.ClientCfg{Rev: rev, Transport: "polling", NoAutoPong: rev == 3})
		rig.Wait()
		if err != nil {
			key, msg = "c07-handshake-failed", err.Error()
			return
		}
		sid := cl.Sid
		sock := w.SocketByID(sid)
		cl.StartReader()
		time.Sleep(PI / 20)
		if err := cl.UpgradeTo(target, nil); err != nil {
			key, msg = "c07-upgrade-failed", err.Error()
			return
		}
		rig.Wait()
		if !sock.Upgraded() {
			key, msg = "c07-upgrade-failed", "upgrade did not complete"
			return
		}
		var deadline time.Duration
		if rev == 3 {
			// one client ping on the new transport, answered by a pong; then silence
			time.Sleep(PI / 2)
			at := w.Tap.Now()
			cl.Send(refcodec.Packet{Type: refcodec.Ping})
			time.Sleep(time.Millisecond)
			rig.Wait()
			pong := false
			for _, rv := range cl.Received() {
				if rv.P.Type == refcodec.Pong && rv.At >= at {
					pong = true
				}
			}
			if !pong {
				key, msg = "c07-v3-ping-not-answered", fmt.Sprintf("revision-3 session upgraded to %s: the client's ping at %v was not answered with a pong", target, at)
				return
			}
			deadline = at + PI + PT
		} else {
			// the first server ping is answered (automatically), the second is not
			time.Sleep(PI + PT/2)
			cl.SetNoAutoPong(true)
			rig.Wait()
			var pings []rig.Event
			for _, e := range w.Tap.Of(sid, "packetCreate") {
				if strings.HasPrefix(e.Str, "ping:") {
					pings = append(pings, e)
				}
			}
			hb := w.Tap.Of(sid, "heartbeat")
			if len(pings) != 1 || len(hb) == 0 {
				key, msg = "c07-ping-at-wrong-time", fmt.Sprintf("revision-4 session upgraded to %s at about PI/20: %d pings and %d accepted pongs by open+PI+PT/2%s", target, len(pings), len(hb), w.Tap.Dump(40))
				return
			}
			// next ping one interval after the accepted pong, expiry one timeout after that ping
			deadline = hb[len(hb)-1].At + PI + PT
		}
		time.Sleep(deadline - w.Tap.Now() - time.Nanosecond)
		rig.Wait()
		if ev := w.Tap.Of(sid, "close"); len(ev) > 0 {
			key, msg = "c07-closed-before-deadline", fmt.Sprintf("revision-%d session upgraded to %s: closed (%s) at %v, before its deadline %v", rev, target, ev[0].Str, ev[0].At, deadline)
			return
		}
		time.Sleep(2 * time.Nanosecond)
		rig.Wait()
		time.Sleep(time.Millisecond)
		rig.Wait()
		ev := w.Tap.Of(sid, "close")
		if len(ev) != 1 || ev[0].Str != "ping timeout" || ev[0].At != deadline {
			key, msg = "c07-no-timeout-at-deadline", fmt.Sprintf("revision-%d session upgraded to %s, peer silent after one more heartbeat: expected a 'ping timeout' close at exactly %v; close events %v (state %s)", rev, target, deadline, ev, sock.ReadyState())
		}
		cl.Stop()
	})
	return
}

// runC07FailedUpgrade: an upgrade attempt that does not complete (the candidate vanishes, sends
// something else than the upgrade packet, or lets the upgrade timeout pass) must leave the
// heartbeat of the session alone: a silent peer is still closed exactly at its deadline.
func runC07FailedUpgrade(rev int, fail string, PI, PT time.Duration, r *rep.Report) (key, msg string) {
	rig.Bubble(r.T(), func() {
		so := &config.ServerOptions{}
		so.SetAllowEIO3(true)
		so.SetTransports(types.NewSet("polling", "websocket"))
		so.SetPingInterval(PI)
		so.SetPingTimeout(PT)
		so.SetUpgradeTimeout(PT / 8)
		w := rig.NewWorld(rig.Options{Server: so})
		defer w.Finish()
		cl, err := w.Connect(rig.ClientCfg{Rev: rev, Transport: "polling", NoAutoPong: true})
		rig.Wait()
		if err != nil {
			key, msg = "c07-handshake-failed", err.Error()
			return
		}
		sid := cl.Sid
		sock := w.SocketByID(sid)
		openAt := w.Tap.Of(sid, "connection")[0].At
		cl.StartReader()
		var deadline time.Duration
		if rev == 4 {
			// the attempt falls between the server's ping and its deadline
			time.Sleep(openAt + PI + PT/4 - w.Tap.Now())
			deadline = openAt + PI + PT
		} else {
			time.Sleep(PI / 4)
			deadline = openAt + PI + PT
		}
		rig.Wait()
		cand := w.Candidate(sid, rev)
		if cand.DialCandidateWS() != nil {
			key, msg = "c07-candidate-dial-failed", "the candidate WebSocket could not be opened"
			return
		}
		time.Sleep(time.Millisecond)
		cand.WSWriteRaw(false, []byte("2probe"))
		time.Sleep(time.Millisecond)
		rig.Wait()
		switch fail {
		case "candidate-vanishes":
			cand.Stop()
		case "message-instead-of-upgrade":
			cand.WSWriteRaw(false, []byte("4not-yet"))
		case "upgrade-timeout":
			// nothing: the upgrade timeout (PT/8) passes
		}
		time.Sleep(PT/8 + 2*time.Millisecond)
		rig.Wait()
		if sock.Upgraded() || sock.Upgrading() {
			key, msg = "c07-failed-upgrade-lane", fmt.Sprintf("after the failed attempt (%s): Upgraded()=%v Upgrading()=%v", fail, sock.Upgraded(), sock.Upgrading())
			return
		}
		time.Sleep(deadline - w.Tap.Now() - time.Nanosecond)
		rig.Wait()
		if ev := w.Tap.Of(sid, "close"); len(ev) > 0 {
			key, msg = "c07-closed-before-deadline", fmt.Sprintf("revision-%d polling session, failed upgrade attempt (%s): closed (%s) at %v, before its deadline %v", rev, fail, ev[0].Str, ev[0].At, deadline)
			return
		}
		time.Sleep(2 * time.Nanosecond)
		rig.Wait()
		time.Sleep(time.Millisecond)
		rig.Wait()
		ev := w.Tap.Of(sid, "close")
		if len(ev) != 1 || ev[0].Str != "ping timeout" || ev[0].At != deadline {
			key, msg = "c07-no-timeout-at-deadline", fmt.Sprintf("revision-%d polling session with a silent peer, one upgrade attempt that failed (%s) before the deadline: expected a 'ping timeout' close at exactly %v; close events %v (state %s)", rev, fail, deadline, ev, sock.ReadyState())
		}
		cl.Stop()
	})
	return
}

// wrong-direction heartbeats and the revision mismatch between a session and its upgrade transport
func runC07Direction(mode string, rev int, transport string, r *rep.Report) (key, msg string) {
	var pan any
	func() {
		defer func() { pan = recover() }()
		rig.Bubble(r.T(), func() {
			so := &config.ServerOptions{}
			so.SetAllowEIO3(true)
			so.SetTransports(types.NewSet("polling", "websocket", "webtransport"))
			so.SetPingInterval(10 * time.Second)
			so.SetPingTimeout(5 * time.Second)
			w := rig.NewWorld(rig.Options{Server: so})
			defer w.Finish()
			canary, err := w.Connect(rig.ClientCfg{Rev: 4, Transport: "websocket"})
			if err != nil {
				key, msg = "c07-handshake-failed", err.Error()
				return
			}
			canary.StartReader()
			cl, err := w.Connect(rig.ClientCfg{Rev: rev, Transport: transport, NoAutoPong: true, CandidateRev: map[bool]int{true: 7 - rev, false: 0}[mode == "upgrade-eio-mismatch"]})
			rig.Wait()
			if err != nil {
				key, msg = "c07-handshake-failed", err.Error()
				return
			}
			cl.StartReader()
			sock := w.SocketByID(cl.Sid)
			if mode == "upgrade-eio-mismatch" {
				if err := cl.UpgradeTo("websocket", nil); err != nil {
					key, msg = "c07-upgrade-failed", err.Error()
					return
				}
				rig.Wait()
			}
			wrong := refcodec.Packet{Type: refcodec.Ping}
			if rev == 3 {
				wrong = refcodec.Packet{Type: refcodec.Pong}
			}
			if mode == "upgrade-eio-mismatch" {
				// frames on the upgraded transport are written in the candidate's revision
				b, d := refcodec.EncodeFrame(7-rev, wrong, false)
				cl.WSWriteRaw(b, d)
			} else {
				cl.Send(wrong)
			}
			time.Sleep(10 * time.Millisecond)
			rig.Wait()
			ev := w.Tap.Of(cl.Sid, "close")
			if len(ev) != 1 || ev[0].Str != "transport error" {
				key, msg = "c07-wrong-direction-heartbeat", fmt.Sprintf("%s: a %s from the client on a revision-%d session (%s): close events %v, state %s; expected one 'transport error' close", mode, map[byte]string{'2': "ping", '3': "pong"}[wrong.Type], rev, transport, ev, sock.ReadyState())
				return
			}
			// no other effect: the canary still works
			cs := w.SocketByID(canary.Sid)
			cs.Send(types.NewStringBufferString("still-here"), nil, nil)
			time.Sleep(time.Millisecond)
			rig.Wait()
			ok := false
			for _, m := range canary.Messages() {
				if string(m.P.Data) == "still-here" {
					ok = true
				}
			}
			if !ok || cs.ReadyState() != "open" {
				key, msg = "c07-wrong-direction-side-effect", "another session was disturbed by a wrong-direction heartbeat"
			}
			cl.Stop()
			canary.Stop()
		})
	}()
	if pan != nil {
		return "c07-panic", fmt.Sprint(pan)
	}
	return
}

// runC07Closing: a polling session with a buffered packet and no poll pending is closed
// gracefully by the application while the client stays silent: the graceful close cannot
// complete, so the heartbeat deadline must end the session - exactly on time.
func runC07Closing(rev int, PI, PT time.Duration, r *rep.Report) (key, msg string) {
	rig.Bubble(r.T(), func() {
		so := &config.ServerOptions{}
		so.SetAllowEIO3(true)
		so.SetPingInterval(PI)
		so.SetPingTimeout(PT)
		w := rig.NewWorld(rig.Options{Server: so})
		defer w.Finish()
		cl, err := w.Connect(rig.ClientCfg{Rev: rev, Transport: "polling", NoAutoPong: true})
		rig.Wait()
		sock := w.Socket(0)
		if err != nil || sock == nil {
			key, msg = "c07-handshake-failed", fmt.Sprint(err)
			return
		}
		openAt := w.Tap.Of(sock.Id(), "connection")[0].At
		sock.Send(types.NewStringBufferString("buffered"), nil, nil)
		sock.Close(false)
		time.Sleep(3*(PI+PT) + time.Second)
		rig.Wait()
		ev := w.Tap.Of(sock.Id(), "close")
		want := openAt + PI + PT
		if len(ev) == 0 {
			key, msg = "c07-no-timeout-at-deadline", fmt.Sprintf("revision %d session in state %s (graceful close pending, client silent): no close by open+%v, deadline was open+%v", rev, sock.ReadyState(), w.Tap.Now()-openAt, want-openAt)
			return
		}
		if ev[0].Str != "ping timeout" || ev[0].At != want {
			key, msg = "c07-timeout-at-wrong-time", fmt.Sprintf("revision %d closing session: closed with %q at open+%v, expected 'ping timeout' at open+%v", rev, ev[0].Str, ev[0].At-openAt, want-openAt)
		}
		cl.Stop()
	})
	return
}

func TestC07(t *testing.T) {
	r := rep.New(t, "C07")
	defer r.Flush()
	if r.Lane == 1%r.Lanes {
		// peers that have stopped reading, then the session ends (real time, judged at rest)
		stalledEndings(r, r.N(4, 64))
	}
	r.Rule("virtual-time sessions: PI, PT in {1 ms .. 25 s} incl. equal / PI<PT / PT<PI x transport x revision x 1-6 heartbeat rounds with the client's answer placed at 0, PT/2, PT-1ns, PT, PT+1ns, never, duplicated, unsolicited (v4) or client pings at fractions of PI+PT incl. exactly PI+PT (v3), with and without concurrent traffic; offline checker over exact virtual timestamps of ping packetCreate, heartbeat and close events; plus sessions that are gracefully closing with a buffered packet and a silent client (expiry still exact), plus the heartbeat of sessions that completed an upgrade (one more exchange on the new transport, then silence: expiry exact), wrong-direction heartbeats and a session whose upgrade transport was opened with another EIO value; distinct = (revision, transport, PI/PT relation, rounds)")
	r.Assume("a pong (v4) or ping (v3) processed at exactly the deadline instant may legitimately go either way; every other instant is exact")
	r.Assume("the instant a ping is 'sent' is its packetCreate event; on polling it may wait in the buffer for the next poll")
	n := r.N(5000, 600000)
	for i := 0; i < n; i++ {
		if !r.Only(i) {
			continue
		}
		rng := r.CaseRand(7, i)
		c := genC07(rng)
		if i%12 == 5 && c.Rev == 4 {
			c.GatePing = true
			c.Rounds = []string{"intime0", "intime0"}
			c.Unsol = false
		}
		c.Seed = fmt.Sprintf("seed=%d lane=%d case=%d", r.Seed, r.Lane, i)
		key, msg, stats := runC07(c, rng, r)
		rel := "PI=PT"
		if c.PI < c.PT {
			rel = "PI<PT"
		} else if c.PI > c.PT {
			rel = "PI>PT"
		}
		r.Case(fmt.Sprintf("v%d/%s/%s/%v/%v/%v", c.Rev, c.Transport, rel, c.Rounds, c.Unsol, c.Traffic), stats["pings"]+stats["v3_pings_accepted"] > 0)
		for k, v := range stats {
			r.Obs(k, v)
		}
		r.Obs("sessions", 1)
		if i < 2 {
			r.Sample(c)
		}
		if key != "" {
			r.Violation(key, msg, c)
		}
	}
	nc := r.N(40, 2000)
	for i := 0; i < nc; i++ {
		rng := r.CaseRand(77, i)
		PI := time.Duration(1+rng.IntN(200)) * time.Millisecond
		PT := time.Duration(1+rng.IntN(200)) * time.Millisecond
		rev := 4
		if rng.IntN(3) == 0 {
			rev = 3
		}
		key, msg := runC07Closing(rev, PI, PT, r)
		r.Case(fmt.Sprintf("closing-silent/v%d/%v/%v", rev, PI, PT), true)
		r.Obs("closing_sessions_checked", 1)
		if key != "" {
			r.Violation(key, msg, map[string]any{"lane": "silent polling client, buffered packet, Close(false): heartbeat deadline must still close the session", "rev": rev, "PI": PI.String(), "PT": PT.String()})
		}
	}
	for i := 0; i < r.N(12, 600); i++ {
		for _, tr := range []string{"websocket", "webtransport"} {
			rev := 4
			if tr == "websocket" && i%3 == 0 {
				rev = 3
			}
			PI := []time.Duration{50 * time.Millisecond, time.Second, 25 * time.Second}[i%3]
			PT := []time.Duration{40 * time.Millisecond, 2 * time.Second, 20 * time.Second}[(i/3)%3]
			key, msg := runC07Stalled(rev, tr, PI, PT, r)
			r.Case(fmt.Sprintf("stalled-peer/v%d/%s/%v/%v", rev, tr, PI, PT), true)
			r.Obs("stalled_peers_checked", 1)
			if key != "" {
				r.Violation(key, msg, map[string]any{"lane": "client stopped reading, server writer blocked on a full connection", "rev": rev, "transport": tr, "PI": PI.String(), "PT": PT.String()})
			}
		}
	}
	for i := 0; i < r.N(8, 400); i++ {
		for _, rev := range []int{4, 3} {
			for _, fail := range []string{"candidate-vanishes", "message-instead-of-upgrade", "upgrade-timeout"} {
				PI := []time.Duration{time.Second, 3 * time.Second, 10 * time.Second}[i%3]
				PT := []time.Duration{400 * time.Millisecond, time.Second, 5 * time.Second}[(i/3)%3]
				key, msg := runC07FailedUpgrade(rev, fail, PI, PT, r)
				r.Case(fmt.Sprintf("failed-upgrade/v%d/%s/%v/%v", rev, fail, PI, PT), true)
				r.Obs("heartbeats_across_failed_upgrade_checked", 1)
				if key != "" {
					r.Violation(key, msg, map[string]any{"lane": "upgrade attempt that fails between a ping and its deadline, then silence", "rev": rev, "fail": fail, "PI": PI.String(), "PT": PT.String()})
				}
			}
		}
	}
	nd := r.N(16, 400)
	for i := 0; i < nd; i++ {
		for _, d := range []struct {
			mode string
			rev  int
			tr   string
		}{{"after-upgrade", 3, "websocket"}, {"after-upgrade", 4, "websocket"}, {"after-upgrade", 4, "webtransport"}, {"wrongdir", 4, "polling"}, {"wrongdir", 4, "websocket"}, {"wrongdir", 4, "webtransport"}, {"wrongdir", 3, "polling"}, {"wrongdir", 3, "websocket"}, {"upgrade-eio-mismatch", 4, "polling"}, {"upgrade-eio-mismatch", 3, "polling"}} {
			r.Begin(fmt.Sprintf("dir-%d-%s-%d-%s", i, d.mode, d.rev, d.tr), d)
			var key, msg string
			if d.mode == "after-upgrade" {
				// the upgrade (started at PI/20) takes up to ~110 ms of virtual time: the fast-poll noop period
				PI := []time.Duration{time.Second, 3 * time.Second, 10 * time.Second}[i%3]
				PT := []time.Duration{60 * time.Millisecond, 400 * time.Millisecond, time.Second}[(i/3)%3]
				key, msg = runC07AfterUpgrade(d.rev, d.tr, PI, PT, r)
				r.Obs("heartbeats_after_upgrade_checked", 1)
			} else {
				key, msg = runC07Direction(d.mode, d.rev, d.tr, r)
			}
			r.End(fmt.Sprintf("dir-%d-%s-%d-%s", i, d.mode, d.rev, d.tr))
			r.Case(fmt.Sprintf("%s/v%d/%s", d.mode, d.rev, d.tr), true)
			r.Obs("direction_cases", 1)
			if key != "" {
				r.Violation(key, msg, d)
			}
		}
	}
}

// runC07Stalled: the client has stopped reading and its connection is full, so the transport's
// writer goroutine is blocked in the middle of a batch and the server's ping cannot even be
// written.  The dead-peer timing must not depend on that: revision 4 - ping created at open+PI,
// 'ping timeout' at exactly ping+PT; revision 3 - 'ping timeout' at exactly open+PI+PT.
func runC07Stalled(rev int, transport string, PI, PT time.Duration, r *rep.Report) (key, msg string) {
	rig.Bubble(r.T(), func() {
		so := &config.ServerOptions{}
		so.SetAllowEIO3(true)
		so.SetTransports(types.NewSet("polling", "websocket", "webtransport"))
		so.SetPingInterval(PI)
		so.SetPingTimeout(PT)
		w := rig.NewWorld(rig.Options{Server: so})
		defer w.Finish()
		cl, err := w.Connect(rig.ClientCfg{Rev: rev, Transport: transport, NoAutoPong: true})
		rig.Wait()
		sock := w.Socket(0)
		if err != nil || sock == nil {
			key, msg = "c07-handshake-failed", fmt.Sprint(err)
			return
		}
		sid := sock.Id()
		openAt := w.Tap.Of(sid, "connection")[0].At
		var nc *fakenet.Conn
		if cl.WS != nil {
			nc, _ = cl.WS.UnderlyingConn().(*fakenet.Conn)
		} else if cl.WTStream != nil {
			nc = cl.WTStream.Conn
		}
		if nc == nil {
			r.Inconclusive("stalled-peer lane: no in-memory connection to stall")
			return
		}
		nc.LimitReceiveBuffer(1)
		nc.StallReads(true)
		sock.Send(types.NewStringBufferString("fill-0"), nil, nil)
		sock.Send(types.NewStringBufferString("fill-1"), nil, nil)
		sock.Send(types.NewStringBufferString("fill-2"), nil, nil)
		time.Sleep(PI + PT + PT + time.Second)
		rig.Wait()
		cls := w.Tap.Of(sid, "close")
		want := openAt + PI + PT
		if len(cls) != 1 || cls[0].Str != "ping timeout" {
			var rs []string
			for _, e := range cls {
				rs = append(rs, e.Str)
			}
			key, msg = "c07-no-timeout-at-deadline", fmt.Sprintf("v%d %s client that stopped reading (server writer blocked on a full connection), PI %v PT %v: close events %v by open+%v, want one 'ping timeout' at open+%v; session %s", rev, transport, PI, PT, rs, PI+2*PT+time.Second, PI+PT, sock.ReadyState())
			return
		}
		if cls[0].At != want {
			key, msg = "c07-timeout-at-wrong-time", fmt.Sprintf("v%d %s client that stopped reading (server writer blocked on a full connection): 'ping timeout' at open+%v, expected open+%v (PI %v, PT %v)", rev, transport, cls[0].At-openAt, PI+PT, PI, PT)
			return
		}
		if rev == 4 {
			if e, ok := w.Tap.Last(sid, "packetCreate", "ping:"); !ok || e.At != openAt+PI {
				key, msg = "c07-ping-at-wrong-time", fmt.Sprintf("v4 %s client that stopped reading: ping created at open+%v (found %v), expected open+%v", transport, e.At-openAt, ok, PI)
				return
			}
		}
		nc.StallReads(false)
		cl.Stop()
	})
	return
}
