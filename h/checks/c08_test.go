package checks

import (
	"fmt"
	"strings"
	"sync"
	"testing"
	"time"

	"github.com/zishang520/engine.io/v2/config"
	"github.com/zishang520/engine.io/v2/types"

	"verifh/refcodec"
	"verifh/rep"
	"verifh/rig"
)

var c08Alphabet = []string{"probe", "ping", "pong", "message", "upgrade", "noop", "garbage", "disconnect"}

type c08Case struct {
	Script    []string `json:"script"`
	Candidate string   `json:"candidate"` // websocket | webtransport
	Timing    string   `json:"timing"`    // plain | during-send | across-heartbeat | session-closing | timeout
	Lane      string   `json:"lane"`      // script | two-candidates | probe-before-listeners
	Seed      string   `json:"seed"`
}

func symbolFrame(sym string) (bool, []byte) {
	switch sym {
	case "probe":
		return false, []byte("2probe")
	case "ping":
		return false, []byte("2")
	case "pong":
		return false, []byte("3")
	case "message":
		return false, []byte("4hello-cand")
	case "upgrade":
		return false, []byte("5")
	case "noop":
		return false, []byte("6")
	case "garbage":
		return false, []byte("9zz")
	}
	return false, nil
}

// c08Model: what the script must lead to.
type c08Exp struct {
	switched      bool
	sessionClosed bool // after the switch a later symbol legitimately closes the session
	closeReasons  []string
	candMessages  int // messages sent on the candidate after the switch (must be delivered)
}

func c08Model(script []string) c08Exp {
	var e c08Exp
	candAlive := true
	for _, s := range script {
		if e.sessionClosed {
			break
		}
		if !e.switched {
			if !candAlive {
				break // nothing more can be said on a closed candidate
			}
			switch s {
			case "probe":
			case "upgrade":
				e.switched = true
			case "disconnect":
				candAlive = false
			default:
				candAlive = false // the server closes the candidate
			}
			continue
		}
		switch s {
		case "message":
			e.candMessages++
		case "probe", "ping":
			e.sessionClosed, e.closeReasons = true, []string{"transport error"}
		case "garbage":
			e.sessionClosed, e.closeReasons = true, []string{"parse error", "transport error"}
		case "disconnect":
			e.sessionClosed, e.closeReasons = true, []string{"transport close", "transport error"}
		}
	}
	return e
}

func runC08(c c08Case, r *rep.Report) (key, msg string, stats map[string]int64) {
	stats = map[string]int64{}
	var pan any
	upTimeout := 300 * time.Millisecond
	func() {
		defer func() { pan = recover() }()
		rig.Bubble(r.T(), func() {
			so := &config.ServerOptions{}
			so.SetTransports(types.NewSet("polling", "websocket", "webtransport"))
			so.SetUpgradeTimeout(upTimeout)
			pi := 20 * time.Second
			if c.Timing == "across-heartbeat" {
				pi = 120 * time.Millisecond
			}
			so.SetPingInterval(pi)
			so.SetPingTimeout(pi)
			w := rig.NewWorld(rig.Options{Server: so})
			defer w.Finish()
			cl, err := w.Connect(rig.ClientCfg{Rev: 4, Transport: "polling"})
			rig.Wait()
			sock := w.Socket(0)
			if err != nil || sock == nil {
				key, msg = "c08-handshake-failed", fmt.Sprint(err)
				return
			}
			sid := sock.Id()
			cl.StartReader()
			time.Sleep(time.Millisecond)
			rig.Wait()

			switch c.Lane {
			case "two-candidates":
				// both candidates pass the server's "already upgrading?" test before either registers
				w.Gate.Arm("server.onWebSocket.beforeMaybeUpgrade", 2)
				c1 := w.Candidate(sid, 4)
				c2 := w.Candidate(sid, 4)
				e1 := make(chan error, 1)
				e2 := make(chan error, 1)
				go func() { e1 <- c1.DialCandidateWS() }()
				go func() { e2 <- c2.DialCandidateWS() }()
				time.Sleep(time.Millisecond)
				rig.Wait()
				held := len(w.Gate.Parked())
				stats[fmt.Sprintf("gate:candidates_past_the_gate_test=%d", held)]++
				w.Gate.ReleaseAll()
				<-e1
				<-e2
				time.Sleep(time.Millisecond)
				rig.Wait()
				// both send a probe; at most one may be entertained (answered)
				answered := 0
				for _, cc := range []*rig.Client{c1, c2} {
					if cc.WS == nil {
						continue
					}
					cc.WSWriteRaw(false, []byte("2probe"))
				}
				time.Sleep(5 * time.Millisecond)
				rig.Wait()
				for _, cc := range []*rig.Client{c1, c2} {
					if cc.WS == nil {
						continue
					}
					cc.WS.SetReadDeadline(time.Now().Add(time.Millisecond))
					if mt, data, err := cc.WS.ReadMessage(); err == nil && mt == 1 && string(data) == "3probe" {
						answered++
					}
				}
				if held == 2 && answered > 1 {
					key, msg = "c08-two-candidates-entertained", "two candidate transports for one session were both answered with a probe pong"
					return
				}
				for _, cc := range []*rig.Client{c1, c2} {
					if cc.WS != nil {
						cc.WS.Close()
					}
				}
				time.Sleep(upTimeout + 50*time.Millisecond)
				rig.Wait()
			case "retry-within-timeout":
				// candidate 1 fails; candidate 2 starts while candidate 1's upgrade timer is still
				// armed and is still in progress when that timer's instant passes; candidate 3 then
				// must be refused and candidate 2 must still be able to complete
				c1 := w.Candidate(sid, 4)
				if c1.DialCandidateWS() != nil {
					key, msg = "c08-candidate-refused", "first candidate refused"
					return
				}
				time.Sleep(time.Millisecond)
				c1.WSWriteRaw(false, []byte("4oops"))
				time.Sleep(upTimeout / 2)
				rig.Wait()
				c2 := w.Candidate(sid, 4)
				if err := c2.DialCandidateWS(); err != nil {
					key, msg = "c08-later-upgrade-refused", "a candidate after a failed one was refused: "+err.Error()
					return
				}
				time.Sleep(time.Millisecond)
				c2.WSWriteRaw(false, []byte("2probe"))
				time.Sleep(time.Millisecond)
				rig.Wait()
				if mt, d, err := c2.WS.ReadMessage(); err != nil || mt != 1 || string(d) != "3probe" {
					key, msg = "c08-conformant-upgrade-not-completed", fmt.Sprintf("second candidate's probe not answered: %v %q", err, d)
					return
				}
				// pass the instant at which candidate 1's timer would have fired
				time.Sleep(upTimeout/2 + 20*time.Millisecond)
				rig.Wait()
				stats["retry_within_timeout_cases"]++
				if !sock.Upgrading() {
					key, msg = "c08-upgrading-mark-lost", "while the second candidate is being entertained (probe answered, upgrade timeout not reached) the session no longer reports Upgrading() - a timer of the failed first candidate fired"
					return
				}
				c3 := w.Candidate(sid, 4)
				if c3.DialCandidateWS() == nil {
					time.Sleep(time.Millisecond)
					c3.WSWriteRaw(false, []byte("2probe"))
					time.Sleep(2 * time.Millisecond)
					rig.Wait()
					c3.WS.SetReadDeadline(time.Now().Add(time.Millisecond))
					if mt, d, err := c3.WS.ReadMessage(); err == nil && mt == 1 && string(d) == "3probe" {
						key, msg = "c08-two-candidates-entertained", "a third candidate was answered with a probe pong while the second is being entertained"
						return
					}
				}
				cl.Pause()
				c2.WSWriteRaw(false, []byte("5"))
				time.Sleep(5 * time.Millisecond)
				rig.Wait()
				if n := len(w.Tap.Of(sid, "upgrade")); n != 1 || !sock.Upgraded() || sock.Transport().Name() != "websocket" {
					key, msg = "c08-conformant-upgrade-not-completed", fmt.Sprintf("retry within the first candidate's timeout: upgrade events %d, Upgraded()=%v, transport %s", n, sock.Upgraded(), sock.Transport().Name())
					return
				}
				c2.Cfg.Transport = "websocket"
				c2.StartReader()
				sock.Send(types.NewStringBufferString("after-retry"), nil, nil)
				time.Sleep(upTimeout + 100*time.Millisecond)
				rig.Wait()
				ok := false
				for _, m := range c2.Messages() {
					if string(m.P.Data) == "after-retry" {
						ok = true
					}
				}
				if !ok || sock.ReadyState() != "open" {
					key, msg = "c08-upgraded-session-unusable", fmt.Sprintf("after a retry upgrade: message delivered %v, session %s", ok, sock.ReadyState())
					return
				}
				c2.Stop()
				return
			case "probe-before-listeners":
				// the probe is on the wire before the session has attached its listeners
				w.Gate.Arm("socket.MaybeUpgrade.enter", 1)
				cand := w.Candidate(sid, 4)
				ec := make(chan error, 1)
				go func() { ec <- cand.DialCandidateWS() }()
				time.Sleep(time.Millisecond)
				rig.Wait()
				if len(w.Gate.Parked()) == 1 {
					stats["gate:session_held_before_attaching_upgrade_listeners"]++
				}
				<-ec
				if cand.WS == nil {
					key, msg = "c08-candidate-refused", "candidate connection refused"
					w.Gate.ReleaseAll()
					return
				}
				cand.WSWriteRaw(false, []byte("2probe"))
				time.Sleep(time.Millisecond)
				rig.Wait()
				w.Gate.ReleaseAll()
				time.Sleep(10 * time.Millisecond)
				rig.Wait()
				cand.WS.SetReadDeadline(time.Now().Add(time.Millisecond))
				mt, data, err := cand.WS.ReadMessage()
				if err != nil || mt != 1 || string(data) != "3probe" {
					key, msg = "c08-probe-lost-before-listeners", fmt.Sprintf("a probe that arrived before the session attached its upgrade listeners was never answered (read: %v %q)", err, data)
					cand.WS.Close()
					return
				}
				cand.WS.Close()
				time.Sleep(upTimeout + 50*time.Millisecond)
				rig.Wait()
			default:
				exp := c08Model(c.Script)
				cand := w.Candidate(sid, 4)
				var derr error
				if c.Candidate == "websocket" {
					derr = cand.DialCandidateWS()
				} else {
					derr = cand.OpenCandidateWT()
				}
				if derr != nil {
					key, msg = "c08-candidate-refused", derr.Error()
					return
				}
				time.Sleep(time.Millisecond)
				rig.Wait()
				write := func(b bool, d []byte) error {
					if c.Candidate == "websocket" {
						return cand.WSWriteRaw(b, d)
					}
					return cand.WTWriteRaw(b, d)
				}
				switch c.Timing {
				case "during-send":
					for i := 0; i < 5; i++ {
						sock.Send(types.NewStringBufferString(fmt.Sprintf("pre%d", i)), nil, nil)
					}
				case "session-closing":
					sock.Send(types.NewStringBufferString("last"), nil, nil)
				}
				probed := false
				paused := false
				candAlive := true
				switched := false
				for _, sym := range c.Script {
					if sym == "disconnect" {
						if c.Candidate == "websocket" {
							cand.WS.Close()
						} else {
							cand.WTStream.CloseBoth()
						}
						candAlive = false
					} else {
						if sym == "upgrade" && !paused && probed && candAlive && !switched {
							// a conformant client stops polling (its pending poll is released by the
							// server's noop) before it sends the upgrade packet
							cl.Pause()
							paused = true
						}
						b, d := symbolFrame(sym)
						write(b, d)
						switch {
						case switched || !candAlive:
						case sym == "probe":
							probed = true
						case sym == "upgrade":
							switched = true
							// from now on the candidate is the session's transport: read it (and answer pings)
							cand.Cfg.Transport = c.Candidate
							cand.StartReader()
						default:
							candAlive = false
						}
					}
					if c.Timing == "across-heartbeat" {
						time.Sleep(50 * time.Millisecond)
					} else {
						time.Sleep(time.Millisecond)
					}
					rig.Wait()
				}
				_ = probed
				if c.Timing == "timeout" || true {
					time.Sleep(upTimeout + 150*time.Millisecond)
					rig.Wait()
				}
				stats["scripts"]++
				ups := w.Tap.Of(sid, "upgrade")
				closes := w.Tap.Of(sid, "close")
				name := sock.Transport().Name()
				// messages sent on the candidate
				candMsgs := 0
				for _, e := range w.Tap.Of(sid, "message") {
					if e.Str == "hello-cand" {
						candMsgs++
					}
				}
				if exp.switched {
					stats["scripts_expected_to_switch"]++
					if len(ups) != 1 || !sock.Upgraded() || name != c.Candidate {
						key, msg = "c08-conformant-upgrade-not-completed", fmt.Sprintf("script %v: upgrade events %d, Upgraded()=%v, transport %s", c.Script, len(ups), sock.Upgraded(), name)
						return
					}
					if sock.Upgrading() {
						key, msg = "c08-still-upgrading-after-switch", fmt.Sprintf("script %v", c.Script)
						return
					}
					if candMsgs != exp.candMessages && !exp.sessionClosed {
						key, msg = "c08-messages-across-switch", fmt.Sprintf("script %v: %d messages sent on the new transport after the switch, %d delivered", c.Script, exp.candMessages, candMsgs)
						return
					}
					if exp.sessionClosed {
						ok := false
						for _, rs := range exp.closeReasons {
							if len(closes) == 1 && closes[0].Str == rs {
								ok = true
							}
						}
						if !ok {
							key, msg = "c08-after-switch-close", fmt.Sprintf("script %v: expected one close with reason in %v, got %v", c.Script, exp.closeReasons, closes)
						}
						return
					}
					if len(closes) != 0 {
						key, msg = "c08-session-lost-after-upgrade:"+closes[0].Str, fmt.Sprintf("script %v: session closed (%s) after a completed upgrade", c.Script, closes[0].Str)
						return
					}
					// traffic on the new transport, both directions
					sock.Send(types.NewStringBufferString("after-upgrade"), nil, nil)
					cand.Send(refcodec.Text(refcodec.Message, "from-client"))
					time.Sleep(5 * time.Millisecond)
					rig.Wait()
					okS := false
					for _, m := range cand.Messages() {
						if string(m.P.Data) == "after-upgrade" {
							okS = true
						}
					}
					okC := false
					for _, e := range w.Tap.Of(sid, "message") {
						if e.Str == "from-client" {
							okC = true
						}
					}
					if !okS || !okC {
						key, msg = "c08-upgraded-session-unusable", fmt.Sprintf("script %v: server->client %v, client->server %v on the new transport", c.Script, okS, okC)
						return
					}
					// a second switch must never happen
					if len(w.Tap.Of(sid, "upgrade")) != 1 {
						key, msg = "c08-second-switch", "more than one upgrade event"
					}
					// the switch must not cost the session its heartbeat: a conformant client gives the
					// session up when no ping arrives for pingInterval+pingTimeout.  Two and a half
					// intervals later (the client answers every ping) the server must have gone on
					// pinging and the session must still be open
					hb := len(w.Tap.Of(sid, "heartbeat"))
					time.Sleep(2*pi + pi/2)
					rig.Wait()
					stats["upgraded_sessions_followed_for_2.5_ping_intervals"]++
					if key == "" && (sock.ReadyState() != "open" || len(w.Tap.Of(sid, "heartbeat")) <= hb) {
						key, msg = "c08-heartbeat-stopped-after-switch", fmt.Sprintf("script %v on a %s candidate: %v after the completed upgrade (ping interval %v, the client answers every ping) the session is %s and %d further heartbeats were exchanged: the server stopped pinging the upgraded session, a conformant client drops it", c.Script, c.Candidate, 2*pi+pi/2, pi, sock.ReadyState(), len(w.Tap.Of(sid, "heartbeat"))-hb)
					}
					cand.Stop()
					return
				}
				// no switch expected
				stats["scripts_expected_to_fail"]++
				if candMsgs > 0 {
					key, msg = "c08-message-from-candidate-delivered", fmt.Sprintf("script %v: a message sent on a candidate that had not completed an upgrade was delivered", c.Script)
					return
				}
				if len(ups) != 0 || sock.Upgraded() || name != "polling" {
					key, msg = "c08-switched-without-upgrade-packet", fmt.Sprintf("script %v: upgrade events %d, Upgraded()=%v, transport %s", c.Script, len(ups), sock.Upgraded(), name)
					return
				}
				if len(closes) != 0 || sock.ReadyState() != "open" {
					r := ""
					if len(closes) > 0 {
						r = closes[0].Str
					}
					key, msg = "c08-failed-upgrade-cost-the-session:"+r, fmt.Sprintf("script %v on a %s candidate: session is %s (%s)", c.Script, c.Candidate, sock.ReadyState(), r)
					return
				}
				if sock.Upgrading() {
					key, msg = "c08-still-upgrading-after-failure", fmt.Sprintf("script %v: Upgrading() still true %v after the candidate failed / the upgrade timeout", c.Script, upTimeout+150*time.Millisecond)
					return
				}
				// the candidate must be closed by now
				if c.Candidate == "websocket" && cand.WS != nil {
					cand.WS.SetReadDeadline(time.Now().Add(time.Millisecond))
					closed := false
					for i := 0; i < 10; i++ {
						if _, _, err := cand.WS.ReadMessage(); err != nil {
							closed = !strings.Contains(err.Error(), "timeout")
							break
						}
					}
					if !closed {
						key, msg = "c08-failed-candidate-left-open", fmt.Sprintf("script %v: the candidate connection is still open after the upgrade timeout", c.Script)
						return
					}
				}
				// usable on the original transport
				if paused {
					cl.Resume()
				}
				sock.Send(types.NewStringBufferString("still-polling"), nil, nil)
				res := cl.Post(refcodec.Text(refcodec.Message, "client-still-polling"))
				time.Sleep(150 * time.Millisecond)
				rig.Wait()
				okS, okC := false, false
				for _, m := range cl.Messages() {
					if string(m.P.Data) == "still-polling" {
						okS = true
					}
				}
				for _, e := range w.Tap.Of(sid, "message") {
					if e.Str == "client-still-polling" {
						okC = true
					}
				}
				if !okS || !okC || res.Status != 200 {
					key, msg = "c08-session-unusable-after-failed-upgrade", fmt.Sprintf("script %v: server->client %v, client->server %v (POST %d), client loop %q", c.Script, okS, okC, res.Status, cl.Ended())
					return
				}
				// a later, conformant attempt completes
				if err := cl.UpgradeTo("websocket", nil); err != nil {
					key, msg = "c08-later-upgrade-refused", fmt.Sprintf("script %v, then a conformant upgrade: %v", c.Script, err)
					return
				}
				time.Sleep(5 * time.Millisecond)
				rig.Wait()
				if !sock.Upgraded() || sock.Transport().Name() != "websocket" {
					key, msg = "c08-later-upgrade-refused", fmt.Sprintf("script %v, then a conformant upgrade: Upgraded()=%v transport %s", c.Script, sock.Upgraded(), sock.Transport().Name())
					return
				}
				stats["later_upgrades_completed"]++
			}
			// lanes two-candidates / probe-before-listeners: the session must have survived
			if c.Lane != "script" && c.Lane != "" {
				if sock.ReadyState() != "open" || sock.Upgrading() {
					key, msg = "c08-failed-upgrade-cost-the-session:", fmt.Sprintf("lane %s: session %s, Upgrading()=%v", c.Lane, sock.ReadyState(), sock.Upgrading())
				}
			}
			cl.Stop()
			if key == "" {
				sock.Close(true)
				w.StopCandidates()
				w.Shutdown()
				time.Sleep(45 * time.Second)
				rig.Wait()
				var stuck []string
				for _, st := range rig.Leftovers() {
					if strings.Contains(st, "zishang520/engine.io/v2") {
						stuck = append(stuck, rig.TopFrames(st, 4))
					}
				}
				if len(stuck) > 0 {
					key, msg = "c08-goroutine-left-behind", fmt.Sprintf("script %v: %d goroutine(s) of the server still alive 45 s after the session and all connections were closed: %s", c.Script, len(stuck), strings.Join(stuck[:min(2, len(stuck))], " | "))
				}
			}
		})
	}()
	if pan != nil {
		return "c08-panic", fmt.Sprint(pan), stats
	}
	return
}

// runC08FlushVsUpgrade: a flush has taken its batch for the pending poll and is held before it
// hands it over (hook socket.doFlush.batchTaken); a candidate completes the whole upgrade
// meanwhile.  The batch must reach the client exactly once, and before what is sent afterwards.
func runC08FlushVsUpgrade(r *rep.Report) (key, msg string, held bool) {
	rig.Bubble(r.T(), func() {
		so := &config.ServerOptions{}
		so.SetTransports(types.NewSet("polling", "websocket"))
		so.SetPingInterval(20 * time.Second)
		w := rig.NewWorld(rig.Options{Server: so})
		defer w.Finish()
		cl, err := w.Connect(rig.ClientCfg{Rev: 4, Transport: "polling"})
		rig.Wait()
		sock := w.Socket(0)
		if err != nil || sock == nil {
			key, msg = "c08-handshake-failed", fmt.Sprint(err)
			return
		}
		cl.StartReader() // a poll is pending
		cand := w.Candidate(sock.Id(), 4)
		if e := cand.DialCandidateWS(); e != nil {
			key, msg = "c08-handshake-failed", e.Error()
			return
		}
		time.Sleep(time.Millisecond)
		cand.WSWriteRaw(false, []byte("2probe"))
		if mt, d, e := cand.WS.ReadMessage(); e != nil || string(d) != "3probe" {
			r.Inconclusive(fmt.Sprintf("flush-vs-upgrade: no probe pong (%d %q %v)", mt, d, e))
			return
		}
		w.Gate.Arm("socket.doFlush.batchTaken", 1)
		go sock.Send(types.NewStringBufferString("m1"), nil, nil)
		rig.Settle()
		if len(w.Gate.Parked()) != 1 {
			r.Inconclusive("flush-vs-upgrade: the flush was not held with its batch")
			w.Gate.ReleaseAll()
			return
		}
		held = true
		// the held goroutine owns the session's flush lock: settle on real time
		cand.WSWriteRaw(false, []byte("5"))
		for i := 0; i < 20 && !sock.Upgraded(); i++ {
			rig.Settle()
		}
		if !sock.Upgraded() {
			r.Inconclusive("flush-vs-upgrade: the upgrade did not complete while the flush was held")
			w.Gate.ReleaseAll()
			return
		}
		w.Gate.ReleaseAll()
		rig.Settle()
		sock.Send(types.NewStringBufferString("m2"), nil, nil)
		// everything that arrives, on either transport
		var mu sync.Mutex
		var got []string
		go func() {
			for {
				_, d, e := cand.WS.ReadMessage()
				if e != nil {
					return
				}
				if len(d) > 0 && d[0] == '4' {
					mu.Lock()
					got = append(got, "ws:"+string(d[1:]))
					mu.Unlock()
				}
			}
		}()
		time.Sleep(300 * time.Millisecond)
		rig.Wait()
		for _, m := range cl.Messages() {
			got = append([]string{"poll:" + string(m.P.Data)}, got...)
		}
		mu.Lock()
		all := strings.Join(got, ",")
		mu.Unlock()
		n1 := strings.Count(all, ":m1")
		i1, i2 := strings.Index(all, ":m1"), strings.Index(all, ":m2")
		if n1 != 1 || strings.Count(all, ":m2") != 1 || i1 > i2 {
			key, msg = "c08-message-lost-across-upgrade", fmt.Sprintf("m1 was taken by a flush for the pending poll, the upgrade to websocket completed before the hand-over, m2 was sent afterwards: the client received [%s] (session %s, transport %s)", all, sock.ReadyState(), sock.Transport().Name())
			return
		}
		if sock.ReadyState() != "open" {
			key, msg = "c08-failed-upgrade-cost-the-session:", "session closed: "+sock.ReadyState()
		}
		cl.Stop()
	})
	return
}

func TestC08(t *testing.T) {
	r := rep.New(t, "C08")
	defer r.Flush()
	// journalled cases that have not ended after a minute of real time are examined (rep.Guard)
	r.Guard(60 * time.Second)
	r.Rule("all candidate scripts over {probe ping, other ping, pong, message, upgrade, noop, garbage, disconnect} up to length 3 (585; length 4 = 4681 in thorough) x candidate {WebSocket, in-memory WebTransport} x timing {plain, during a burst of sends, across heartbeats}, each compared with a reference upgrade state machine: switch iff an upgrade packet arrives on a live candidate, at most once; otherwise candidate closed, session open on polling, not upgrading, usable both ways, and a later conformant upgrade completes; messages on a candidate before the switch never delivered; traffic both ways after a switch; gate lanes: two candidates past the server's gate test, probe on the wire before the session attached its listeners; switch lane: a second candidate connects from inside the switch to the first (listener on the old transport's close event / on the upgrade event) and must be closed, one upgrade event, first candidate usable; retry lane: a second candidate entertained across the instant of the failed first candidate's upgrade timer while a third must be refused; real WebTransport over loopback QUIC (fresh session, upgrade, second/late/unknown-sid candidates); after every script no server goroutine may survive 45 s past the end; distinct = (script, candidate, timing)")
	r.Assume("the upgrade probe normally reaches the server after MaybeUpgrade has attached its listeners (1 ms of virtual latency); the opposite order is the dedicated lane 'probe-before-listeners'")
	var scripts [][]string
	var rec func(prefix []string, depth int)
	maxLen := 3
	if r.Thorough() {
		maxLen = 4
	}
	rec = func(prefix []string, depth int) {
		if len(prefix) > 0 {
			scripts = append(scripts, append([]string(nil), prefix...))
		}
		if depth == maxLen {
			return
		}
		for _, a := range c08Alphabet {
			rec(append(prefix, a), depth+1)
		}
	}
	rec(nil, 0)
	timings := []string{"plain", "during-send", "across-heartbeat"}
	i := 0
	for si, sc := range scripts {
		for ci, cand := range []string{"websocket", "webtransport"} {
			// quick: each script once, alternating candidate and timing; thorough: both candidates
			if !r.Thorough() && (si+ci)%2 != 0 {
				continue
			}
			// quick: one timing class per script; thorough: every script under all three
			tms := []string{timings[(si+ci)%3]}
			if r.Thorough() {
				tms = timings
			}
			for _, tm := range tms {
				idx := i
				i++
				if !r.Mine(idx) || !r.Only(idx) {
					continue
				}
				c := c08Case{Script: sc, Candidate: cand, Timing: tm, Lane: "script"}
				c.Seed = fmt.Sprintf("seed=%d lane=%d case=%d", r.Seed, r.Lane, idx)
				r.Begin(fmt.Sprint(idx), c)
				key, msg, stats := runC08(c, r)
				r.End(fmt.Sprint(idx))
				r.Case(fmt.Sprintf("%v/%s/%s", c.Script, c.Candidate, c.Timing), true)
				for k, v := range stats {
					r.Obs(k, v)
				}
				if idx < 2 {
					r.Sample(c)
				}
				if key != "" {
					r.Violation(key, msg, c)
				}
			}
		}
	}
	if r.Lane == 0 {
		quicLanes(r, "gating")
	}
	if r.Lane == 2%r.Lanes {
		for k := 0; k < r.N(8, 200); k++ {
			key, msg, held := runC08FlushVsUpgrade(r)
			r.Case("flush-vs-upgrade", held)
			if held {
				r.Obs("gate:flush_held_with_batch_while_the_upgrade_completes", 1)
			}
			if key != "" {
				r.Violation(key, msg, map[string]any{"lane": "flush holds its batch while the upgrade completes (hook socket.doFlush.batchTaken)"})
			}
		}
	}
	if r.Lane == 3%r.Lanes {
		for k := 0; k < r.N(8, 200); k++ {
			for _, win := range []string{"old-transport-close", "upgrade-event"} {
				key, msg, reached := runC08CandidateDuringSwitch(win, r)
				r.Case("candidate-during-switch/"+win, reached)
				if reached {
					r.Obs("second_candidate_placed_inside_the_switch:"+win, 1)
				}
				if key != "" {
					r.Violation(key, msg, map[string]any{"lane": "a second candidate connects while the session is switching to the first", "window": win})
				}
			}
		}
	}
	if r.Lane == 1%r.Lanes {
		// the session closes while a candidate is entertained and the upgrade packet lands during
		// the close (a slow application close listener keeps the window open)
		for k := 0; k < r.N(4, 100); k++ {
			for _, cause := range []string{"close-true", "peer-disconnect", "server-close", "transport-error"} {
				key, msg := runC03UpgradeAfterClose(cause, r)
				r.Case("upgrade-during-close/"+cause, true)
				r.Obs("upgrade_during_close_cases", 1)
				if key != "" {
					if !strings.HasPrefix(key, "c08-") {
						key = "c08-switch-on-closed-session"
					}
					r.Violation(key, msg, map[string]any{"lane": "upgrade packet lands while the session is closing", "cause": cause})
				}
			}
		}
	}
	if r.Thorough() {
		r.Exhaustive("all 4681 candidate scripts over the 8-symbol alphabet up to length 4, on both candidate kinds and under all three timing classes")
	}
	ng := r.N(24, 800)
	for k := 0; k < ng; k++ {
		for _, lane := range []string{"two-candidates", "probe-before-listeners", "retry-within-timeout"} {
			c := c08Case{Lane: lane, Candidate: "websocket"}
			key, msg, stats := runC08(c, r)
			r.Case("gate/"+lane, true)
			for kk, v := range stats {
				r.Obs(kk, v)
			}
			if key != "" {
				r.Violation(key, msg, c)
			}
		}
	}
}

// runC08CandidateDuringSwitch: while the session is switching to candidate 1 (inside the teardown
// of the old transport, or inside the 'upgrade' event that announces the new one) a second
// candidate for the same session connects and tries the whole dance.  The windows are reached
// through the public API only: a listener on the old transport's own 'close' event (emitted
// synchronously while the session clears its old transport) and a listener on the session's
// 'upgrade' event; the listener holds the switching goroutine until candidate 2 has been dealt with.
func runC08CandidateDuringSwitch(window string, r *rep.Report) (key, msg string, reached bool) {
	rig.Bubble(r.T(), func() {
		so := &config.ServerOptions{}
		so.SetTransports(types.NewSet("polling", "websocket"))
		so.SetPingInterval(20 * time.Second)
		w := rig.NewWorld(rig.Options{Server: so})
		defer w.Finish()
		cl, err := w.Connect(rig.ClientCfg{Rev: 4, Transport: "polling"})
		rig.Wait()
		sock := w.Socket(0)
		if err != nil || sock == nil {
			key, msg = "c08-handshake-failed", fmt.Sprint(err)
			return
		}
		sid := sock.Id()
		cl.StartReader()
		cand := w.Candidate(sid, 4)
		if e := cand.DialCandidateWS(); e != nil {
			key, msg = "c08-handshake-failed", e.Error()
			return
		}
		time.Sleep(time.Millisecond)
		cand.WSWriteRaw(false, []byte("2probe"))
		if _, d, e := cand.WS.ReadMessage(); e != nil || string(d) != "3probe" {
			r.Inconclusive(fmt.Sprintf("candidate-during-switch: no probe pong (%q %v)", d, e))
			return
		}
		cl.Pause()
		time.Sleep(150 * time.Millisecond)
		rig.Wait()
		cand2 := w.Candidate(sid, 4)
		var second string // what happened to candidate 2
		var mu sync.Mutex
		intruder := func(...any) {
			mu.Lock()
			already := reached
			reached = true
			mu.Unlock()
			if already {
				return
			}
			done := make(chan string, 1)
			go func() {
				if e := cand2.DialCandidateWS(); e != nil {
					done <- "refused at the handshake: " + e.Error()
					return
				}
				cand2.WSWriteRaw(false, []byte("2probe"))
				_, d, e := cand2.WS.ReadMessage()
				if e != nil {
					done <- "closed"
					return
				}
				if string(d) == "3probe" {
					cand2.WSWriteRaw(false, []byte("5"))
				}
				done <- "answered " + string(d)
			}()
			select {
			case second = <-done:
			case <-time.After(2 * time.Second):
				second = "neither answered nor closed within 2 s"
			}
		}
		switch window {
		case "old-transport-close":
			sock.Transport().Once("close", intruder)
		case "upgrade-event":
			sock.Once("upgrade", intruder)
		}
		cand.WSWriteRaw(false, []byte("5"))
		time.Sleep(3 * time.Second)
		rig.Wait()
		if !reached {
			r.Inconclusive("candidate-during-switch: window " + window + " was not reached")
			return
		}
		ups := w.Tap.Of(sid, "upgrade")
		if len(ups) != 1 {
			key, msg = "c08-second-switch", fmt.Sprintf("a second candidate that connected while the session was switching to the first one (window %s; it was %s): %d upgrade events", window, second, len(ups))
			return
		}
		if strings.HasPrefix(second, "answered 3probe") {
			key, msg = "c08-two-candidates-entertained", fmt.Sprintf("a second candidate that connected while the session was switching to the first one (window %s) was answered with a probe pong", window)
			return
		}
		if sock.ReadyState() != "open" || !sock.Upgraded() || sock.Upgrading() || sock.Transport().Name() != "websocket" {
			key, msg = "c08-conformant-upgrade-not-completed", fmt.Sprintf("second candidate during the switch (window %s; it was %s): session %s, Upgraded()=%v, Upgrading()=%v, transport %s", window, second, sock.ReadyState(), sock.Upgraded(), sock.Upgrading(), sock.Transport().Name())
			return
		}
		// the first candidate is the session's transport, both ways
		cand.Cfg.Transport = "websocket"
		cand.StartReader()
		sock.Send(types.NewStringBufferString("after-upgrade"), nil, nil)
		cand.Send(refcodec.Text(refcodec.Message, "from-client"))
		time.Sleep(5 * time.Millisecond)
		rig.Wait()
		okS, okC := false, false
		for _, m := range cand.Messages() {
			if string(m.P.Data) == "after-upgrade" {
				okS = true
			}
		}
		for _, e := range w.Tap.Of(sid, "message") {
			if e.Str == "from-client" {
				okC = true
			}
		}
		if !okS || !okC {
			key, msg = "c08-upgraded-session-unusable", fmt.Sprintf("second candidate during the switch (window %s; it was %s): server->client %v, client->server %v on the first candidate's connection", window, second, okS, okC)
			return
		}
		// the second candidate must be closed by now
		if cand2.WS != nil && second != "closed" {
			cand2.WS.SetReadDeadline(time.Now().Add(time.Millisecond))
			closed := false
			for i := 0; i < 10; i++ {
				if _, _, err := cand2.WS.ReadMessage(); err != nil {
					closed = !strings.Contains(err.Error(), "timeout")
					break
				}
			}
			if !closed {
				key, msg = "c08-failed-candidate-left-open", fmt.Sprintf("the second candidate (window %s; it was %s) is still open 3 s later", window, second)
				return
			}
		}
		cand.Stop()
		cl.Stop()
	})
	return
}
