package checks

import (
	"encoding/base64"
	"fmt"
	"github.com/zishang520/engine.io/v2/engine"
	"math/rand/v2"
	"net/http/httptest"
	"strings"
	"sync"
	"sync/atomic"
	"syscall"
	"testing"
	"time"

	"github.com/zishang520/engine.io/v2/config"
	"github.com/zishang520/engine.io/v2/types"

	"verifh/fakenet"
	"verifh/refcodec"
	"verifh/rep"
	"verifh/rig"
)

type c09Step struct {
	Kind string `json:"kind"` // http | frame | wsdial | candidate | bigpoll | bomb
	Desc string `json:"desc"`
	// http
	Method  string            `json:"method,omitempty"`
	Query   string            `json:"query,omitempty"`
	Header  map[string]string `json:"header,omitempty"`
	BodyB64 string            `json:"body_b64,omitempty"`
	Chunked bool              `json:"chunked,omitempty"`
	// frames
	Binary bool `json:"binary,omitempty"`
}

type c09Case struct {
	PMD    bool      `json:"permessage_deflate"`
	Victim string    `json:"victim_transport"`
	Rev    int       `json:"rev"`
	Steps  []c09Step `json:"steps"`
	Seed   string    `json:"seed"`
}

// realNow is the CPU time (user+system) this lane's process has consumed: a lane runs its
// cases one after the other, so the increase during a step is the work that step caused,
// whatever else the machine is doing.  (time.Now is virtual inside a bubble.)
func realNow() time.Duration {
	var ru syscall.Rusage
	syscall.Getrusage(syscall.RUSAGE_SELF, &ru)
	return time.Duration(ru.Utime.Sec+ru.Stime.Sec)*time.Second + time.Duration(ru.Utime.Usec+ru.Stime.Usec)*time.Microsecond
}

func randBytes(rng *rand.Rand, n int) []byte {
	b := make([]byte, n)
	for i := range b {
		b[i] = byte(rng.UintN(256))
	}
	return b
}

// hostileBody mutates a valid payload or invents one.
func hostileBody(rng *rand.Rand, rev int, allowSpin bool) ([]byte, string, string) {
	valid := [][]byte{
		[]byte("4hello"), []byte("4hello\x1e4world\x1e2"), []byte("6"), []byte("1"), []byte("2probe"), []byte("3"), []byte("5"), []byte("0{}"),
		[]byte("6:4hello5:4worl"), []byte("1:61:2"), []byte("2:4€"), []byte("bAQID"), []byte("4:b4AQ=="),
		refcodec.V3PayloadBinary([]refcodec.Packet{refcodec.Bin(refcodec.Message, []byte{1, 2, 3}), refcodec.Text(refcodec.Message, "x")}),
		[]byte("d=4hello"), []byte("d=6%3A4hello"), []byte("d=%zz"), []byte("x=1&d=&d=4a"),
	}
	ct := []string{"text/plain;charset=UTF-8", "application/octet-stream", "application/x-www-form-urlencoded", "", "text/html", "application/json", "multipart/form-data; boundary=x"}[rng.IntN(7)]
	switch rng.IntN(12) {
	case 0:
		return randBytes(rng, rng.IntN(300)), ct, "random bytes"
	case 1:
		return nil, ct, "empty body"
	case 2:
		// inflated / truncated decimal length prefix (v3 string payload)
		n := []string{"99999", "0", "-1", "00000000000000000001", "9223372036854775808", "1e9", " 5", "5 "}[rng.IntN(8)]
		return []byte(n + ":4hello"), "text/plain;charset=UTF-8", "v3 length prefix " + n
	case 3:
		// binary payload with a declared length larger than the data
		digits := 1 + rng.IntN(5)
		if allowSpin {
			digits = 7
		}
		b := []byte{0}
		for i := 0; i < digits; i++ {
			b = append(b, 9)
		}
		b = append(b, 0xff)
		b = append(b, "4hello"...)
		return b, "application/octet-stream", fmt.Sprintf("v3 binary payload, string packet, declared length 10^%d-1, 6 bytes of data", digits)
	case 4:
		// every possible first byte
		return append([]byte{byte(rng.UintN(256))}, []byte("rest")...), ct, "arbitrary packet type byte"
	case 5:
		return []byte("4\xff\xfe\xc3\x28 invalid utf8"), ct, "invalid UTF-8"
	case 6:
		return []byte("b" + strings.Repeat("!", 1+rng.IntN(20))), ct, "invalid base64"
	case 7:
		// long run of separators / colons
		return []byte(strings.Repeat([]string{"\x1e", ":", "0:", "\x00\xff", "b"}[rng.IntN(5)], 1+rng.IntN(3000))), ct, "repeated delimiter"
	case 8:
		// binary payload pieces
		b := []byte{byte(rng.UintN(3))}
		for i := rng.IntN(4); i > 0; i-- {
			b = append(b, byte(rng.UintN(11)))
		}
		b = append(b, 0xff)
		b = append(b, randBytes(rng, rng.IntN(20))...)
		return b, "application/octet-stream", "binary payload with odd digits"
	}
	v := append([]byte(nil), valid[rng.IntN(len(valid))]...)
	switch rng.IntN(4) {
	case 0:
		if len(v) > 0 {
			v[rng.IntN(len(v))] ^= byte(1 << rng.UintN(8))
		}
	case 1:
		if len(v) > 1 {
			v = v[:rng.IntN(len(v))]
		}
	case 2:
		v = append(v, v...)
	}
	return v, ct, "mutated valid payload"
}

// hostileJSONPBody: form bodies for a JSONP session whose d field is full of backslashes, escapes
// that are not the two the protocol defines, percent-escapes and separators.
func hostileJSONPBody(rng *rand.Rand) ([]byte, string, string) {
	al := []string{"\\", "\\n", "\\\\n", "\\\\", "\\\"", "\\u2028", "\\x", "n", "4", "a", "\n", "%5C", "%5Cn", "%0A", "%", "+", "&d=", ";", "=", "C:\\dir\\name", "\\\\\\n"}
	var sb strings.Builder
	sb.WriteString([]string{"d=", "d=4", "d=6:4", "x=1&d=4", "d=4a&d="}[rng.IntN(5)])
	for k := 1 + rng.IntN(12); k > 0; k-- {
		sb.WriteString(al[rng.IntN(len(al))])
	}
	if rng.IntN(4) == 0 {
		sb.WriteString("\\") // a trailing backslash
	}
	ct := []string{"application/x-www-form-urlencoded", "text/plain;charset=UTF-8", ""}[rng.IntN(3)]
	return []byte(sb.String()), ct, "JSONP form body with backslashes and odd escapes"
}

func hostileQuery(rng *rand.Rand, sid, otherSid string, rev int) string {
	pick := func(xs ...string) string { return xs[rng.IntN(len(xs))] }
	var qs []string
	if t := pick("polling", "polling", "websocket", "webtransport", "", "POLLING", "poll%00ing", "polling&transport=websocket"); t != "" {
		qs = append(qs, "transport="+t)
	}
	if e := pick(fmt.Sprint(rev), "4", "3", "", "5", "-1", "4.0", "%34"); e != "" {
		qs = append(qs, "EIO="+e)
	}
	switch rng.IntN(6) {
	case 0:
	case 1:
		qs = append(qs, "sid="+otherSid)
	case 2:
		qs = append(qs, "sid="+strings.Repeat("A", 1+rng.IntN(5000)))
	case 3:
		qs = append(qs, "sid="+sid, "sid=zzz")
	default:
		qs = append(qs, "sid="+sid)
	}
	if rng.IntN(4) == 0 {
		qs = append(qs, "j="+pick("0", "abc", strings.Repeat("7", 20000), "-1", "%00", "1&j=2"))
	}
	if rng.IntN(4) == 0 {
		qs = append(qs, "b64="+pick("1", "0", "", "true"))
	}
	if rng.IntN(8) == 0 {
		qs = append(qs, strings.Repeat("x", 1+rng.IntN(3000))+"=1")
	}
	rng.Shuffle(len(qs), func(i, j int) { qs[i], qs[j] = qs[j], qs[i] })
	return strings.Join(qs, "&")
}

// hostileAcceptEncoding: header values a parser of "coding;q=weight" lists can trip over.
func hostileAcceptEncoding(rng *rand.Rand) string {
	vs := []string{
		strings.Repeat("gzip,", 500), "gzip;", "br;q", "gzip;q=", ";", ",,,", "gzip;q=abc", "deflate ; q = 0.5 ; x", "zstd;;q=1", "*", "gzip;q=0", "gzip;q=1.0000000000000000000001",
		"gzip;q=-1", "gzip;=", "=;gzip", "gzip\x00", " ", "gzip ;", "br;q=0.5;q", "identity;q=0, *;q=0", "deflate;q=1e999", strings.Repeat(";", 3000), "gzip;q=0.5,br;", "zstd; q",
	}
	return vs[rng.IntN(len(vs))]
}

func genC09(rng *rand.Rand, allowSpin bool) c09Case {
	c := c09Case{Rev: 4, Victim: []string{"polling", "polling", "websocket", "webtransport", "jsonp"}[rng.IntN(5)]}
	if c.Victim != "webtransport" && rng.IntN(3) == 0 {
		c.Rev = 3
	}
	c.PMD = rng.IntN(3) == 0
	n := 1 + rng.IntN(8)
	for i := 0; i < n; i++ {
		var st c09Step
		if c.PMD && c.Victim == "websocket" && rng.IntN(3) == 0 {
			st.Kind = "bomb"
			st.Binary = rng.IntN(2) == 0
			st.Desc = "compressed websocket message that inflates to megabytes"
			c.Steps = append(c.Steps, st)
			continue
		}
		if (c.Victim == "websocket" || c.Victim == "webtransport") && rng.IntN(6) == 0 {
			st.Kind = "stall"
			st.Desc = "the client stops reading while the application keeps sending (the server's writer blocks on a full connection)"
			c.Steps = append(c.Steps, st)
			continue
		}
		switch x := rng.IntN(10); {
		case x < 5:
			st.Kind = "http"
			st.Method = []string{"POST", "POST", "GET", "PUT", "DELETE", "OPTIONS", "HEAD", "PATCH"}[rng.IntN(8)]
			body, ct, desc := hostileBody(rng, c.Rev, allowSpin && i == 0)
			if c.Victim == "jsonp" && rng.IntN(2) == 0 {
				body, ct, desc = hostileJSONPBody(rng)
			}
			st.BodyB64 = base64.StdEncoding.EncodeToString(body)
			st.Header = map[string]string{}
			if ct != "" {
				st.Header["Content-Type"] = ct
			}
			if rng.IntN(6) == 0 {
				st.Header["Origin"] = []string{"null", "http://a\tb", strings.Repeat("o", 5000), "http://[::1"}[rng.IntN(4)]
			}
			if rng.IntN(6) == 0 {
				st.Header["Accept-Encoding"] = hostileAcceptEncoding(rng)
			}
			st.Chunked = rng.IntN(4) == 0
			st.Desc = desc
			st.Query = "?" // filled at run time (needs the session id)
		case x < 8:
			st.Kind = "frame"
			st.Binary = rng.IntN(2) == 0
			body, _, desc := hostileBody(rng, c.Rev, false)
			if rng.IntN(3) == 0 {
				// every packet type in every phase
				body = []byte{"0123456789b"[rng.IntN(11)]}
				body = append(body, []string{"", "probe", "{}", "{\"sid\":\"x\"}", "null"}[rng.IntN(5)]...)
				desc = "packet type in the wrong phase"
			}
			st.BodyB64 = base64.StdEncoding.EncodeToString(body)
			st.Desc = desc
		case x < 9 && rng.IntN(2) == 0:
			st.Kind = "bigpoll"
			st.Header = map[string]string{"Accept-Encoding": hostileAcceptEncoding(rng)}
			st.Desc = "poll for a compressible response with a hostile Accept-Encoding"
		case x < 9:
			st.Kind = "candidate"
			st.Desc = "upgrade candidate with another EIO value, then heartbeats"
		default:
			st.Kind = "wsdial"
			st.Desc = "websocket handshake with hostile query"
		}
		c.Steps = append(c.Steps, st)
	}
	return c
}

func runC09(c c09Case, rng *rand.Rand, r *rep.Report) (key, msg string, stats map[string]int64) {
	stats = map[string]int64{}
	var pan any
	func() {
		defer func() { pan = recover() }()
		rig.Bubble(r.T(), func() {
			so := &config.ServerOptions{}
			so.SetAllowEIO3(true)
			so.SetTransports(types.NewSet("polling", "websocket", "webtransport"))
			so.SetPingInterval(5 * time.Second)
			so.SetPingTimeout(5 * time.Second)
			so.SetUpgradeTimeout(time.Second)
			so.SetMaxHttpBufferSize(100000)
			if c.PMD {
				so.SetPerMessageDeflate(&types.PerMessageDeflate{Threshold: 1024})
			}
			w := rig.NewWorld(rig.Options{Server: so})
			defer w.Finish()
			canary, err := w.Connect(rig.ClientCfg{Rev: 4, Transport: "polling"})
			if err != nil {
				key, msg = "c09-handshake-failed", err.Error()
				return
			}
			canary.StartReader()
			// "another session's id" in hostile requests is a decoy's, never the canary's: whoever
			// knows a session id can act for that session by design
			decoy, derr := w.Connect(rig.ClientCfg{Rev: 4, Transport: "polling"})
			if derr != nil {
				key, msg = "c09-handshake-failed", derr.Error()
				return
			}
			vcfg := rig.ClientCfg{Rev: c.Rev, Transport: c.Victim, WSCompress: c.PMD}
			if c.Victim == "jsonp" {
				vcfg = rig.ClientCfg{Rev: c.Rev, Transport: "polling", JSONP: true, J: "7", B64: c.Rev == 3}
			}
			victim, err := w.Connect(vcfg)
			rig.Wait()
			if err != nil {
				key, msg = "c09-handshake-failed", err.Error()
				return
			}
			victim.StartReader()
			time.Sleep(time.Millisecond)
			rig.Wait()
			for si, st := range c.Steps {
				body, _ := base64.StdEncoding.DecodeString(st.BodyB64)
				t0 := realNow()
				switch st.Kind {
				case "http":
					q := hostileQuery(rng, victim.Sid, decoy.Sid, c.Rev)
					h := map[string][]string{}
					for k, v := range st.Header {
						h[k] = []string{v}
					}
					x := w.Start(rig.ReqSpec{Method: st.Method, Target: "/engine.io/?" + q, Header: h, Body: body, Chunked: st.Chunked})
					if _, ok := x.WaitFor(3 * time.Second); !ok {
						// a poll may legitimately stay pending; anything else must be answered
						isPoll := st.Method == "GET" && strings.Contains(q, "sid=")
						if !isPoll {
							stats["http_requests_unanswered_after_3s"]++
						}
						x.Abort()
					}
					stats["hostile_http_requests"]++
				case "bomb":
					// a few kilobytes on the wire, megabytes once inflated
					if victim.WS != nil {
						big := make([]byte, 6<<20)
						for i := range big {
							big[i] = 'a'
						}
						if !st.Binary {
							big[0] = '4'
						}
						victim.WSWriteRaw(st.Binary, big)
					}
					stats["compressed_bombs"]++
					time.Sleep(time.Millisecond)
					rig.Wait()
					for _, e := range w.Tap.Of(victim.Sid, "message") {
						if len(e.Str) > 100000 {
							key, msg = "c09-work-out-of-proportion:inflated-message", fmt.Sprintf("step %d: a compressed websocket message of a few kilobytes on the wire was inflated to %d bytes and delivered (maxHttpBufferSize 100000)", si, len(e.Str))
							return
						}
					}
				case "stall":
					// from now on the victim takes no delivery and its connection holds 2 KiB: the
					// server-side writer goroutine blocks in the middle of a frame with a batch in flight
					var nc *fakenet.Conn
					if victim.WS != nil {
						nc, _ = victim.WS.UnderlyingConn().(*fakenet.Conn)
					} else if victim.WTStream != nil {
						nc = victim.WTStream.Conn
					}
					if vs := w.SocketByID(victim.Sid); nc != nil && vs != nil && vs.ReadyState() == "open" {
						nc.LimitReceiveBuffer(2048)
						nc.StallReads(true)
						for k := 0; k < 6; k++ {
							vs.Send(types.NewStringBufferString(strings.Repeat("echo ", 4000)), nil, nil)
						}
						stats["victims_stalled_with_a_blocked_writer"]++
					}
				case "bigpoll":
					// the decoy session has no reader of its own: a response above the compression
					// threshold waits for this poll
					if ds := w.SocketByID(decoy.Sid); ds != nil && ds.ReadyState() == "open" {
						ds.Send(types.NewStringBufferString(strings.Repeat("compress me ", 150+rng.IntN(300))), nil, nil)
					}
					x := w.Start(rig.ReqSpec{Method: "GET", Target: "/engine.io/?EIO=4&transport=polling&sid=" + decoy.Sid, Header: map[string][]string{"Accept-Encoding": {st.Header["Accept-Encoding"]}}})
					if _, ok := x.WaitFor(3 * time.Second); !ok {
						x.Abort()
					}
					stats["hostile_polls_for_compressible_responses"]++
				case "frame":
					switch c.Victim {
					case "websocket":
						if victim.WS != nil {
							victim.WSWriteRaw(st.Binary, body)
						}
					case "webtransport":
						victim.WTWriteRaw(st.Binary, body)
					default:
						// polling victim: deliver the frame bytes as a data request
						victim.W.Start(rig.ReqSpec{Method: "POST", Target: "/engine.io/?EIO=" + fmt.Sprint(c.Rev) + "&transport=polling&sid=" + victim.Sid,
							Header: map[string][]string{"Content-Type": {"text/plain;charset=UTF-8"}}, Body: body}).WaitFor(2 * time.Second)
					}
					stats["hostile_frames"]++
				case "candidate":
					cand := w.Candidate(victim.Sid, c.Rev)
					cand.Cfg.CandidateRev = 7 - c.Rev
					if cand.DialCandidateWS() == nil {
						time.Sleep(time.Millisecond)
						frames := []string{"2probe", "5", "2", "3", "2", "4x", "3", "1"}
						switch rng.IntN(4) {
						case 0:
							frames = []string{"2probe", "2", "3", "5", "2", "3", "4x", "1"}
						case 1:
							frames = []string{"2probe", "2probe", "2probe", "2probe", "2probe"}
						}
						for _, f := range frames {
							cand.WSWriteRaw(false, []byte(f))
							time.Sleep(time.Millisecond)
						}
					}
					stats["hostile_candidates"]++
				case "wsdial":
					cc := w.Candidate("", c.Rev)
					cc.Cfg.Extra = hostileQuery(rng, victim.Sid, decoy.Sid, c.Rev)
					cc.DialCandidateWS()
					if cc.WS != nil {
						cc.WSWriteRaw(false, body)
						cc.WS.Close()
					}
					stats["hostile_ws_dials"]++
				}
				time.Sleep(time.Millisecond)
				rig.Wait()
				d := realNow() - t0
				stats["max:step_cpu_ms:"+st.Kind] = max(stats["max:step_cpu_ms:"+st.Kind], int64(d/time.Millisecond))
				// a bomb step is not judged by CPU time: the harness itself deflates 6 MB in this
				// process to build it; its oracle is the size of what gets delivered
				if st.Kind != "bomb" && d > 1500*time.Millisecond && len(body) <= 65536 {
					key, msg = classifyC09(st, "c09-work-out-of-proportion"), fmt.Sprintf("step %d (%s, %d bytes) cost %v of CPU time", si, st.Desc, len(body), d)
					return
				}
			}
			// the canary session is undisturbed
			cs := w.SocketByID(canary.Sid)
			if cs == nil || cs.ReadyState() != "open" {
				st := "?"
				if cs != nil {
					st = cs.ReadyState()
				}
				key, msg = "c09-other-session-disturbed", fmt.Sprintf("the canary session is %s after the hostile script; client loop %q", st, canary.Ended())
				return
			}
			cs.Send(types.NewStringBufferString("canary-out"), nil, nil)
			res := canary.Post(refcodec.Text(refcodec.Message, "canary-in"))
			time.Sleep(50 * time.Millisecond)
			rig.Wait()
			okOut, okIn := false, false
			for _, m := range canary.Messages() {
				if string(m.P.Data) == "canary-out" {
					okOut = true
				}
			}
			for _, e := range w.Tap.Of(canary.Sid, "message") {
				if e.Str == "canary-in" {
					okIn = true
				}
			}
			stats["canary_round_trips"]++
			if !okOut || !okIn || res.Status != 200 {
				key, msg = "c09-other-session-disturbed", fmt.Sprintf("canary round trip failed: out %v in %v POST %d", okOut, okIn, res.Status)
				return
			}
			// recovered handler panics are still panics of the system under test
			if el := w.ErrorLog(); strings.Contains(el, "panic serving") {
				key, msg = "c09-handler-panic", el[:min(len(el), 1500)]
				return
			}
			// everything goes away; no goroutine of the server may stay behind
			victim.Stop()
			decoy.Stop()
			canary.Stop()
			w.Shutdown()
			time.Sleep(90 * time.Second)
			rig.Wait()
			var stuck []string
			for _, s := range rig.Leftovers() {
				if strings.Contains(s, "zishang520/engine.io/v2") {
					stuck = append(stuck, rig.TopFrames(s, 5))
				}
			}
			if len(stuck) > 0 {
				key, msg = "c09-goroutine-left-behind", fmt.Sprintf("%d server goroutine(s) still blocked 90 s after every connection was closed: %s", len(stuck), strings.Join(stuck[:min(3, len(stuck))], " | "))
			}
		})
	}()
	if pan != nil {
		return "c09-panic", fmt.Sprint(pan), stats
	}
	return
}

func classifyC09(st c09Step, key string) string {
	if strings.HasPrefix(st.Desc, "v3 binary payload, string packet, declared length") {
		return "v3-binary-payload-inflated-length-spin"
	}
	return key
}

func TestC09(t *testing.T) {
	r := rep.New(t, "C09")
	defer r.Flush()
	if r.Lane == 2%r.Lanes {
		otherClientsStorm(r, r.N(16, 640))
	}
	if r.Lane == 3%r.Lanes {
		// the engine behind a types.HttpServer listening itself: HTTP/1.1, HTTP/2 (TLS) and HTTP/3 (QUIC) on loopback
		netLanes(r, r.N(4, 64))
	}
	r.Rule("grammar-based hostile client scripts (1-8 steps) against a server that also carries a canary session: HTTP requests with mutated methods, transport/EIO/sid/j/b64 query values (absent, repeated, garbage, huge, another session's id), content types, odd Origin/Accept-Encoding headers, bodies that are random, empty, bit-flipped/truncated/doubled valid payloads, inflated or malformed v3 length prefixes, invalid UTF-8/base64, delimiter floods, chunked; WebSocket/WebTransport frames of every packet type in every phase; upgrade candidates opened with another EIO value followed by heartbeats; hostile WebSocket handshakes; clients that stop reading while the application keeps sending (the server's writer blocked on a full connection) followed by whatever comes next in the script (candidates that re-upgrade the session, frames, closes); 13 hostile first messages and a stream-less session on a real WebTransport server (QUIC on loopback); oracle: the process survives (each case journalled before it runs), handler panics recovered by net/http are counted, no step of <=64 KiB costs more than 1.5 s of CPU time, the canary still round-trips, and 90 s after everything closed no server goroutine is left in the bubble; distinct = script signature")
	r.Assume("not coverage-guided: breadth comes from the grammar and the seed; 'out of proportion' is operationalised as > 1.5 s of process CPU time for an input of at most 64 KiB, read again at the same step in two replays of the script (a single reading is a measurement, not a fact)")
	// a script that has not finished after a minute of real time (normal: milliseconds) is examined
	// for a goroutine spinning in library code (rep.Guard)
	r.Guard(60 * time.Second)
	n := r.N(1200, 150000)
	for i := 0; i < n; i++ {
		if !r.Only(i) {
			continue
		}
		rng := r.CaseRand(9, i)
		c := genC09(rng, false)
		c.Seed = fmt.Sprintf("seed=%d lane=%d case=%d", r.Seed, r.Lane, i)
		r.Begin(fmt.Sprint(i), c)
		key, msg, stats := runC09(c, rng, r)
		r.End(fmt.Sprint(i))
		if strings.HasPrefix(key, "c09-work-out-of-proportion") && !strings.Contains(key, "inflated-message") {
			// CPU time is a measurement, not a logical fact: on a loaded machine (and with the CPU
			// accounting of a virtual machine) a single reading can be off by orders of magnitude.
			// Work that is out of proportion to the input is a property of the input: the same
			// script, replayed twice from its own PRNG stream, must show it again at the same step.
			step := strings.SplitN(msg, " (", 2)[0]
			confirmed := 0
			for k := 0; k < 2; k++ {
				k2, m2, _ := runC09(c, r.CaseRand(9, i), r)
				if k2 == key && strings.HasPrefix(m2, step+" (") {
					confirmed++
				}
			}
			if confirmed < 2 {
				r.Obs("cpu_time_readings_not_confirmed_by_replay", 1)
				key, msg = "", ""
			} else {
				msg += " (confirmed by two replays of the script)"
			}
		}
		var sig []string
		for _, st := range c.Steps {
			sig = append(sig, st.Kind[:1]+":"+st.Method+":"+st.Desc)
		}
		r.Case(fmt.Sprintf("%s/v%d/%s", c.Victim, c.Rev, strings.Join(sig, ",")), true)
		for k, v := range stats {
			if strings.HasPrefix(k, "max:") {
				r.ObsMax(k[4:], v)
				continue
			}
			r.Obs(k, v)
		}
		if i < 2 {
			r.Sample(c)
		}
		if key != "" {
			r.Violation(key, msg, c)
		}
	}
	if r.Lane == 0 {
		quicLanes(r, "hostile")
	}
	// known-finding lane: the parser dependency loops once per declared unit
	if r.Lane == 0 {
		rng := r.CaseRand(99, 0)
		c := c09Case{Rev: 3, Victim: "polling", Steps: []c09Step{{Kind: "http", Method: "POST", Header: map[string]string{"Content-Type": "application/octet-stream"},
			Desc: "v3 binary payload, string packet, declared length 10^7-1, 6 bytes of data", BodyB64: base64.StdEncoding.EncodeToString(append(append([]byte{0, 9, 9, 9, 9, 9, 9, 9}, 0xff), "4hello"...))}}}
		// the hostile query generator is random: pin the step to the victim's session
		c.Seed = "known-lane"
		r.Begin("known-spin", c)
		key, msg, _ := runC09Spin(c, rng, r)
		r.End("known-spin")
		r.Case("known-lane/spin", true)
		if key != "" {
			r.Violation(key, msg, c)
		}
	}
}

// runC09Spin posts one v3 binary payload whose declared length is far larger than its data.
func runC09Spin(c c09Case, rng *rand.Rand, r *rep.Report) (key, msg string, stats map[string]int64) {
	rig.Bubble(r.T(), func() {
		so := &config.ServerOptions{}
		so.SetAllowEIO3(true)
		w := rig.NewWorld(rig.Options{Server: so})
		defer w.Finish()
		v, err := w.Connect(rig.ClientCfg{Rev: 3, Transport: "polling"})
		if err != nil {
			key, msg = "c09-handshake-failed", err.Error()
			return
		}
		body, _ := base64.StdEncoding.DecodeString(c.Steps[0].BodyB64)
		// the smallest of three readings: a single CPU-time reading can be inflated by the machine
		d := time.Duration(1 << 62)
		for k := 0; k < 3; k++ {
			t0 := realNow()
			w.Start(rig.ReqSpec{Method: "POST", Target: "/engine.io/?EIO=3&transport=polling&sid=" + v.Sid, Header: map[string][]string{"Content-Type": {"application/octet-stream"}}, Body: body}).WaitFor(5 * time.Second)
			d = min(d, realNow()-t0)
		}
		r.Obs("spin_lane_real_ms", int64(d/time.Millisecond))
		if d > 500*time.Millisecond {
			key, msg = "v3-binary-payload-inflated-length-spin", fmt.Sprintf("a %d-byte revision-3 binary payload declaring a 9999999-unit string packet cost %v of CPU time", len(body), d)
		}
		v.Stop()
	})
	return
}

// otherClientsStorm: an established session keeps exchanging messages while other clients connect,
// send and leave and while hostile clients hammer the server with requests naming session ids it
// does not know (real time, real goroutines, recording response writers).  Whatever those do, the
// established session must stay reachable: every data request of the canary is acknowledged and
// delivered.
func otherClientsStorm(r *rep.Report, rounds int) {
	for round := 0; round < rounds; round++ {
		so := &config.ServerOptions{}
		so.SetPingInterval(time.Hour)
		so.SetPingTimeout(time.Hour)
		eng := engine.NewServer(so)
		var delivered atomic.Int64
		eng.On("connection", func(a ...any) {
			a[0].(engine.Socket).On("message", func(...any) { delivered.Add(1) })
		})
		hs := func() string {
			rec := httptest.NewRecorder()
			eng.ServeHTTP(rec, httptest.NewRequest("GET", "http://h/engine.io/?EIO=4&transport=polling", nil))
			body := rec.Body.String()
			k := strings.Index(body, `"sid":"`)
			if k < 0 {
				return ""
			}
			sid := body[k+7:]
			return sid[:strings.Index(sid, `"`)]
		}
		post := func(sid string) (int, string) {
			rec := httptest.NewRecorder()
			eng.ServeHTTP(rec, httptest.NewRequest("POST", "http://h/engine.io/?EIO=4&transport=polling&sid="+sid, strings.NewReader("4m")))
			return rec.Code, rec.Body.String()
		}
		canary := hs()
		if canary == "" {
			r.Inconclusive("other-clients storm: handshake failed")
			eng.Close()
			return
		}
		var wg sync.WaitGroup
		stop := make(chan struct{})
		for g := 0; g < 6; g++ {
			wg.Add(2)
			go func() {
				defer wg.Done()
				for {
					select {
					case <-stop:
						return
					default:
					}
					if sid := hs(); sid != "" {
						post(sid)
						if s, ok := eng.Clients().Load(sid); ok {
							s.Close(true)
						}
					}
				}
			}()
			go func(g int) {
				defer wg.Done()
				for k := 0; ; k++ {
					select {
					case <-stop:
						return
					default:
					}
					post(fmt.Sprintf("no-such-session-%d-%d", g, k))
				}
			}(g)
		}
		bad := ""
		sent := int64(0)
		for k := 0; k < 400 && bad == ""; k++ {
			code, body := post(canary)
			sent++
			if code != 200 || body != "ok" {
				bad = fmt.Sprintf("data request #%d of the established session was answered %d %.60q", k, code, body)
			}
		}
		close(stop)
		wg.Wait()
		r.Case("other-clients-storm", true)
		r.Obs("canary_data_requests_during_connect_churn_and_unknown_sid_requests", sent)
		eng.Close()
		if bad != "" {
			r.Violation("c09-other-session-disturbed", "while other clients connect, send and leave and others send requests naming unknown session ids: "+bad, map[string]any{"lane": "established session next to connect churn and unknown-sid requests (real time)", "round": round})
			return
		}
	}
}
