package checks

import (
	"fmt"
	"math/rand/v2"
	"sort"
	"strings"
	"sync"
	"sync/atomic"
	"testing"
	"time"

	"github.com/zishang520/engine.io/v2/utils"

	"verifh/rep"
	"verifh/rig"
)

type tOp struct {
	At    int    `json:"at_ms"`
	Timer int    `json:"timer"`
	Op    string `json:"op"` // refresh | stop | clear | stop2 (two concurrent cancels) | clearnil
	Sync  bool   `json:"wait_first"`
}

type tSpec struct {
	Interval bool `json:"interval"`
	Create   int  `json:"create_ms"`
	Period   int  `json:"period_ms"`
}

type tCase struct {
	Timers []tSpec `json:"timers"`
	Ops    []tOp   `json:"ops"`
	Seed   string  `json:"seed"`
}

func genTimerCase(rng *rand.Rand) tCase {
	var c tCase
	nt := 1 + rng.IntN(3)
	periods := []int{2, 3, 5, 10, 4}
	for i := 0; i < nt; i++ {
		c.Timers = append(c.Timers, tSpec{Interval: rng.IntN(3) == 0, Create: rng.IntN(6), Period: periods[rng.IntN(len(periods))]})
	}
	for i, ts := range c.Timers {
		nops := rng.IntN(5)
		cancelAt := -1
		var times []int
		for k := 0; k < nops; k++ {
			var at int
			if rng.IntN(2) == 0 {
				// aligned with a due instant of the unrefreshed schedule
				at = ts.Create + ts.Period*(1+rng.IntN(4))
			} else {
				at = ts.Create + rng.IntN(40)
			}
			times = append(times, at)
		}
		sort.Ints(times)
		for _, at := range times {
			op := "stop"
			switch x := rng.IntN(10); {
			case x < 4 && !ts.Interval && cancelAt < 0:
				op = "refresh"
			case x < 2 && ts.Interval && cancelAt < 0:
				// refreshing a pending interval moves its schedule: next tick one period after the refresh
				op = "refresh"
			case x < 6:
				op = "clear"
			case x < 7:
				op = "stop2"
			}
			if op != "refresh" && cancelAt < 0 {
				cancelAt = at
			}
			c.Ops = append(c.Ops, tOp{At: at, Timer: i, Op: op, Sync: rng.IntN(2) == 0})
		}
		if ts.Interval && cancelAt < 0 {
			// every interval is cancelled in the end, after its last (refresh) operation
			last := ts.Create
			if len(times) > 0 {
				last = times[len(times)-1]
			}
			c.Ops = append(c.Ops, tOp{At: last + 1 + rng.IntN(45), Timer: i, Op: "clear", Sync: rng.IntN(2) == 0})
		}
	}
	if rng.IntN(5) == 0 {
		c.Ops = append(c.Ops, tOp{At: rng.IntN(30), Timer: -1, Op: "clearnil"})
	}
	sort.SliceStable(c.Ops, func(a, b int) bool { return c.Ops[a].At < c.Ops[b].At })
	return c
}

// timerModel computes, per timer, the instants (ms) at which a callback is required and
// those at which it is optional (an operation hit the due instant exactly).
func timerModel(c tCase) (req, opt []map[int]bool) {
	req = make([]map[int]bool, len(c.Timers))
	opt = make([]map[int]bool, len(c.Timers))
	for i, ts := range c.Timers {
		req[i], opt[i] = map[int]bool{}, map[int]bool{}
		due := ts.Create + ts.Period // -1 = none
		cancelled := false
		for _, op := range c.Ops {
			if op.Timer != i || cancelled {
				continue
			}
			t := op.At
			if t < ts.Create {
				continue // generator never does this
			}
			if ts.Interval {
				for due < t {
					req[i][due] = true
					due += ts.Period
				}
				if due == t {
					opt[i][due] = true
				}
				if op.Op == "refresh" {
					due = t + ts.Period
					continue
				}
				cancelled = true
				continue
			}
			if due >= 0 {
				if t > due {
					req[i][due] = true
					due = -1
				} else if t == due {
					opt[i][due] = true
					due = -1
				}
			}
			switch op.Op {
			case "refresh":
				due = t + ts.Period
			default:
				cancelled = true
				due = -1
			}
		}
		if !cancelled && !ts.Interval && due >= 0 {
			req[i][due] = true
		}
	}
	return
}

type tEvent struct {
	Timer int `json:"timer"`
	At    int `json:"at_ms"`
}

func runTimerCase(c tCase, r *rep.Report) (key, msg string) {
	var mu sync.Mutex
	var events []tEvent
	var leftovers []string
	hang := ""
	var panicked any
	func() {
		defer func() { panicked = recover() }()
		rig.Bubble(r.T(), func() {
			start := time.Now()
			now := func() int { return int(time.Since(start) / time.Millisecond) }
			timers := make([]*utils.Timer, len(c.Timers))
			// merge creations and ops into one schedule
			type step struct {
				at     int
				create int
				op     *tOp
			}
			var steps []step
			for i, ts := range c.Timers {
				steps = append(steps, step{at: ts.Create, create: i})
			}
			for i := range c.Ops {
				steps = append(steps, step{at: c.Ops[i].At, create: -1, op: &c.Ops[i]})
			}
			sort.SliceStable(steps, func(a, b int) bool {
				if steps[a].at != steps[b].at {
					return steps[a].at < steps[b].at
				}
				return steps[a].create >= 0 && steps[b].create < 0
			})
			end := 0
			for _, st := range steps {
				if d := st.at - now(); d > 0 {
					time.Sleep(time.Duration(d) * time.Millisecond)
				}
				if st.create >= 0 {
					i := st.create
					ts := c.Timers[i]
					fn := func() {
						mu.Lock()
						events = append(events, tEvent{i, now()})
						mu.Unlock()
					}
					if ts.Interval {
						timers[i] = utils.SetInterval(fn, time.Duration(ts.Period)*time.Millisecond)
					} else {
						timers[i] = utils.SetTimeout(fn, time.Duration(ts.Period)*time.Millisecond)
					}
					if e := st.at + ts.Period; e > end {
						end = e
					}
					continue
				}
				op := st.op
				if op.Timer >= 0 {
					if e := op.At + 2*c.Timers[op.Timer].Period; e > end {
						end = e
					}
				}
				if op.Sync {
					rig.Wait()
				}
				var calls []func()
				switch op.Op {
				case "clearnil":
					calls = append(calls, func() { utils.ClearTimeout(nil); utils.ClearInterval(nil) })
				case "refresh":
					tm := timers[op.Timer]
					calls = append(calls, func() { tm.Refresh() })
					if e := op.At + c.Timers[op.Timer].Period; e > end {
						end = e
					}
				case "stop":
					tm := timers[op.Timer]
					calls = append(calls, func() { tm.Stop() })
				case "clear":
					tm := timers[op.Timer]
					if c.Timers[op.Timer].Interval {
						calls = append(calls, func() { utils.ClearInterval(tm) })
					} else {
						calls = append(calls, func() { utils.ClearTimeout(tm) })
					}
				case "stop2":
					tm := timers[op.Timer]
					calls = append(calls, func() { tm.Stop() }, func() { utils.ClearTimeout(tm) })
				}
				done := make([]bool, len(calls))
				for k, f := range calls {
					k, f := k, f
					go func() {
						f()
						mu.Lock()
						done[k] = true
						mu.Unlock()
					}()
				}
				rig.Wait()
				mu.Lock()
				for k := range done {
					if !done[k] && hang == "" {
						hang = fmt.Sprintf("%s on timer %d at %d ms did not return", op.Op, op.Timer, op.At)
					}
				}
				mu.Unlock()
				if hang != "" {
					break
				}
			}
			if hang == "" {
				if d := end + 30 - now(); d > 0 {
					time.Sleep(time.Duration(d) * time.Millisecond)
				}
				rig.Wait()
			}
			leftovers = rig.Leftovers()
			// best-effort cleanup so that the bubble can exit
			for _, tm := range timers {
				if tm != nil {
					go tm.Stop()
				}
			}
			rig.Wait()
		})
	}()
	if panicked != nil {
		return "timer-panic", fmt.Sprintf("panic: %v", panicked)
	}
	if hang != "" {
		return "timer-cancel-hangs", hang
	}
	req, opt := timerModel(c)
	seen := make([]map[int]int, len(c.Timers))
	for i := range seen {
		seen[i] = map[int]int{}
	}
	for _, e := range events {
		seen[e.Timer][e.At]++
	}
	for i := range c.Timers {
		kind := "timeout"
		if c.Timers[i].Interval {
			kind = "interval"
		}
		for at, n := range seen[i] {
			if n > 1 {
				return kind + "-callback-twice", fmt.Sprintf("timer %d: %d callbacks at %d ms", i, n, at)
			}
			if !req[i][at] && !opt[i][at] {
				// classify: after cancel?
				cancelAt := -1
				for _, op := range c.Ops {
					if op.Timer == i && op.Op != "refresh" {
						cancelAt = op.At
						break
					}
				}
				if cancelAt >= 0 && at > cancelAt {
					return kind + "-callback-after-cancel", fmt.Sprintf("timer %d (%s, period %d ms) cancelled at %d ms, callback ran at %d ms", i, kind, c.Timers[i].Period, cancelAt, at)
				}
				return kind + "-callback-at-wrong-time", fmt.Sprintf("timer %d (%s, created %d, period %d): callback at %d ms is not a due instant (required %v)", i, kind, c.Timers[i].Create, c.Timers[i].Period, at, keys(req[i]))
			}
		}
		for at := range req[i] {
			if seen[i][at] == 0 {
				return kind + "-callback-missing", fmt.Sprintf("timer %d (%s, created %d, period %d): no callback at due instant %d ms; saw %v", i, kind, c.Timers[i].Create, c.Timers[i].Period, at, seen[i])
			}
		}
	}
	if len(leftovers) > 0 {
		var tops []string
		for _, s := range leftovers {
			tops = append(tops, rig.TopFrames(s, 3))
		}
		return "timer-goroutine-left-behind", fmt.Sprintf("%d goroutine(s) still in the bubble after every timer fired or was cancelled: %s", len(leftovers), strings.Join(tops, " | "))
	}
	return "", ""
}

func keys(m map[int]bool) []int {
	var out []int
	for k := range m {
		out = append(out, k)
	}
	sort.Ints(out)
	return out
}

// gateIntervalCase places a cancel between an interval's tick and its re-arm.
func gateIntervalCase(period int, extra int, r *rep.Report) (key, msg string, reached bool) {
	var mu sync.Mutex
	var ticks []int
	var cancelReturned = -1
	var leftovers []string
	rig.Bubble(r.T(), func() {
		start := time.Now()
		now := func() int { return int(time.Since(start) / time.Millisecond) }
		g := rig.NewGate()
		tm := utils.SetInterval(func() {
			mu.Lock()
			ticks = append(ticks, now())
			mu.Unlock()
		}, time.Duration(period)*time.Millisecond)
		g.Watch(tm)
		defer g.Unwatch(tm)
		// let `extra` ticks pass unhindered, then park the loop after the next tick
		time.Sleep(time.Duration(period*extra)*time.Millisecond + time.Millisecond/2)
		g.Arm("timer.interval.afterTick", 1)
		time.Sleep(time.Duration(period) * time.Millisecond)
		rig.Wait()
		ps := g.Parked()
		if len(ps) != 1 {
			g.ReleaseAll()
			go tm.Stop()
			rig.Wait()
			return
		}
		reached = true
		done := false
		go func() { utils.ClearInterval(tm); mu.Lock(); done = true; cancelReturned = now(); mu.Unlock() }()
		rig.Wait()
		mu.Lock()
		d := done
		mu.Unlock()
		g.ReleaseAll()
		if !d {
			key, msg = "timer-cancel-hangs", "ClearInterval issued between tick and re-arm did not return"
		}
		time.Sleep(time.Duration(period*8) * time.Millisecond)
		rig.Wait()
		leftovers = rig.Leftovers()
		go tm.Stop()
		rig.Wait()
	})
	if key != "" || !reached {
		return
	}
	for _, t := range ticks {
		if t > cancelReturned {
			return "interval-callback-after-cancel", fmt.Sprintf("interval (period %d ms) cancelled at %d ms between a tick and its re-arm; callbacks at %v", period, cancelReturned, ticks), true
		}
	}
	if len(leftovers) > 0 {
		return "timer-goroutine-left-behind", fmt.Sprintf("%d goroutine(s) left after cancel between tick and re-arm: %s", len(leftovers), rig.TopFrames(leftovers[0], 3)), true
	}
	return "", "", true
}

// gateStopCase parks a canceller between the runtime timer's Stop and the signal to the
// timer goroutine, issues a second cancel meanwhile, and checks both return and nothing fires.
func gateStopCase(interval bool, period int, r *rep.Report) (key, msg string, reached bool) {
	var mu sync.Mutex
	var ticks []int
	var leftovers []string
	returned := 0
	rig.Bubble(r.T(), func() {
		start := time.Now()
		now := func() int { return int(time.Since(start) / time.Millisecond) }
		g := rig.NewGate()
		fn := func() { mu.Lock(); ticks = append(ticks, now()); mu.Unlock() }
		var tm *utils.Timer
		if interval {
			tm = utils.SetInterval(fn, time.Duration(period)*time.Millisecond)
		} else {
			tm = utils.SetTimeout(fn, time.Duration(period)*time.Millisecond)
		}
		g.Watch(tm)
		defer g.Unwatch(tm)
		time.Sleep(time.Millisecond)
		g.Arm("timer.Stop.afterStop", 1)
		for k := 0; k < 2; k++ {
			go func() { tm.Stop(); mu.Lock(); returned++; mu.Unlock() }()
			rig.Wait()
		}
		reached = len(g.Parked()) == 1
		// time passes while the first canceller is held
		time.Sleep(time.Duration(3*period) * time.Millisecond)
		g.ReleaseAll()
		rig.Wait()
		time.Sleep(time.Duration(3*period) * time.Millisecond)
		rig.Wait()
		leftovers = rig.Leftovers()
	})
	if !reached {
		return
	}
	if returned != 2 {
		return "timer-cancel-hangs", fmt.Sprintf("%d of 2 concurrent cancels returned", returned), true
	}
	if len(ticks) > 0 {
		return "timeout-callback-after-cancel", fmt.Sprintf("timer cancelled at 1 ms (period %d) still ran at %v", period, ticks), true
	}
	if len(leftovers) > 0 {
		return "timer-goroutine-left-behind", fmt.Sprintf("%d goroutine(s) left after concurrent cancels: %s", len(leftovers), rig.TopFrames(leftovers[0], 3)), true
	}
	return "", "", true
}

// callbackCase: what the callback itself does.  behaviour: self-cancel (the k-th callback cancels
// its own timer), self-refresh (a timeout's callback refreshes its own timer k times), slow (every
// callback sleeps 2.5 periods; another goroutine cancels while one is asleep).
func callbackCase(interval bool, behaviour string, period, k int, r *rep.Report) (key, msg string) {
	var mu sync.Mutex
	var starts []int
	cancelIssued, cancelReturned := -1, -1
	var leftovers []string
	rig.Bubble(r.T(), func() {
		start := time.Now()
		now := func() int { return int(time.Since(start) / time.Millisecond) }
		P := time.Duration(period) * time.Millisecond
		// published through an atomic: the first callback may run before the constructor's result
		// has been stored by this goroutine
		var tmP atomic.Pointer[utils.Timer]
		n := 0
		fn := func() {
			mu.Lock()
			n++
			mine := n
			starts = append(starts, now())
			mu.Unlock()
			switch behaviour {
			case "self-cancel":
				if mine == k {
					mu.Lock()
					cancelIssued = now()
					mu.Unlock()
					if interval {
						utils.ClearInterval(tmP.Load())
					} else {
						utils.ClearTimeout(tmP.Load())
					}
					mu.Lock()
					cancelReturned = now()
					mu.Unlock()
				}
			case "self-refresh":
				if mine <= k {
					tmP.Load().Refresh()
				}
			case "slow":
				time.Sleep(P*5/2 + time.Millisecond/4)
			}
		}
		var tm *utils.Timer
		if interval {
			tm = utils.SetInterval(fn, P)
		} else {
			tm = utils.SetTimeout(fn, P)
		}
		tmP.Store(tm)
		if behaviour == "slow" {
			// cancel from here while the k-th callback is asleep (a quarter period after it started)
			time.Sleep(P*time.Duration(k) + P/4)
			mu.Lock()
			cancelIssued = now()
			mu.Unlock()
			done := make(chan struct{})
			go func() {
				if interval {
					utils.ClearInterval(tm)
				} else {
					utils.ClearTimeout(tm)
				}
				mu.Lock()
				cancelReturned = now()
				mu.Unlock()
				close(done)
			}()
			rig.Wait()
			select {
			case <-done:
			default:
				mu.Lock()
				st := append([]int(nil), starts...)
				mu.Unlock()
				key, msg = "timer-cancel-hangs", fmt.Sprintf("cancel issued at %d ms while callback #%d (started at %v, sleeping 2.5 periods) is running did not return promptly", now(), k, st)
			}
		}
		time.Sleep(P * 12)
		rig.Wait()
		mu.Lock()
		if key == "" && behaviour == "self-cancel" && cancelIssued >= 0 && cancelReturned < 0 {
			key, msg = "timer-cancel-hangs", fmt.Sprintf("cancel issued by callback #%d of its own timer at %d ms never returned", k, cancelIssued)
		}
		mu.Unlock()
		leftovers = rig.Leftovers()
		go tm.Stop()
		rig.Wait()
	})
	if key != "" {
		return
	}
	kind := "timeout"
	if interval {
		kind = "interval"
	}
	// expected start instants
	var want []int
	switch {
	case !interval && behaviour == "self-refresh":
		for i := 1; i <= k+1; i++ {
			want = append(want, i*period)
		}
	case !interval:
		want = []int{period}
	case behaviour == "self-cancel":
		for i := 1; i <= k; i++ {
			want = append(want, i*period)
		}
	case behaviour == "slow":
		for i := 1; i <= k; i++ {
			want = append(want, i*period)
		}
	}
	if fmt.Sprint(starts) != fmt.Sprint(want) {
		what := kind + "-callback-missing"
		if len(starts) > len(want) {
			what = kind + "-callback-after-cancel"
		}
		return what, fmt.Sprintf("%s (period %d ms), callback behaviour %s (k=%d): callbacks started at %v ms, expected %v ms (cancel issued %d, returned %d)", kind, period, behaviour, k, starts, want, cancelIssued, cancelReturned)
	}
	if behaviour != "self-refresh" && cancelIssued >= 0 && cancelReturned != cancelIssued {
		return "timer-cancel-hangs", fmt.Sprintf("%s cancel issued at %d ms returned at %d ms (callbacks %v)", kind, cancelIssued, cancelReturned, starts)
	}
	if len(leftovers) > 0 {
		return "timer-goroutine-left-behind", fmt.Sprintf("%d goroutine(s) left: %s", len(leftovers), rig.TopFrames(leftovers[0], 3))
	}
	return "", ""
}

// dueInstantCancels: 2-3 concurrent cancels issued from other goroutines at exactly the due
// instant of a timeout or interval (the runtime timer is firing while they run).  Every one of
// them must return; nothing may fire afterwards; no goroutine may stay behind.
func dueInstantCancels(interval bool, period, cancellers, ticks int, r *rep.Report) (key, msg string) {
	var leftovers []string
	rig.Bubble(r.T(), func() {
		var mu sync.Mutex
		fired := 0
		fn := func() { mu.Lock(); fired++; mu.Unlock() }
		P := time.Duration(period) * time.Millisecond
		var tm *utils.Timer
		if interval {
			tm = utils.SetInterval(fn, P)
		} else {
			tm = utils.SetTimeout(fn, P)
		}
		time.Sleep(P * time.Duration(ticks))
		done := make([]bool, cancellers)
		for k := 0; k < cancellers; k++ {
			k := k
			go func() {
				if k%2 == 0 {
					tm.Stop()
				} else {
					utils.ClearTimeout(tm)
				}
				mu.Lock()
				done[k] = true
				mu.Unlock()
			}()
		}
		rig.Wait()
		mu.Lock()
		returned := 0
		for _, d := range done {
			if d {
				returned++
			}
		}
		before := fired
		mu.Unlock()
		if returned != cancellers {
			stuck := ""
			for _, g := range rig.Leftovers() {
				if strings.Contains(g, "utils.(*Timer).Stop") {
					stuck = rig.TopFrames(g, 3)
				}
			}
			key, msg = "timer-cancel-hangs", fmt.Sprintf("%d concurrent cancels at the due instant (%d x %d ms): only %d returned; %s", cancellers, ticks, period, returned, stuck)
			return
		}
		time.Sleep(P * 4)
		rig.Wait()
		mu.Lock()
		after := fired
		mu.Unlock()
		if after != before {
			key, msg = "timeout-callback-after-cancel", fmt.Sprintf("%d callback(s) started after %d concurrent cancels at the due instant had returned", after-before, cancellers)
			return
		}
		leftovers = rig.Leftovers()
	})
	if key == "" && len(leftovers) > 0 {
		return "timer-goroutine-left-behind", fmt.Sprintf("%d goroutine(s) left after concurrent cancels at the due instant: %s", len(leftovers), rig.TopFrames(leftovers[0], 3))
	}
	return
}

// concurrentRefreshes: several goroutines refresh one timeout at the same moment (the timer has
// fired, is pending, or was cancelled).  Whatever their order, the callback is due one period
// after the refreshes, runs exactly once, and after the final cancel no goroutine of the timer
// remains.
func concurrentRefreshes(state string, period, refreshers int, r *rep.Report) (key, msg string) {
	var leftovers []string
	rig.Bubble(r.T(), func() {
		var mu sync.Mutex
		var at []time.Duration
		t0 := time.Now()
		fn := func() { mu.Lock(); at = append(at, time.Since(t0)); mu.Unlock() }
		P := time.Duration(period) * time.Millisecond
		tm := utils.SetTimeout(fn, P)
		switch state {
		case "fired":
			time.Sleep(P + P/2)
		case "pending":
			time.Sleep(P / 2)
		case "cancelled":
			time.Sleep(P / 2)
			tm.Stop()
		}
		rig.Wait()
		mu.Lock()
		before := len(at)
		mu.Unlock()
		start := time.Since(t0)
		var wg sync.WaitGroup
		for k := 0; k < refreshers; k++ {
			wg.Add(1)
			go func() { defer wg.Done(); tm.Refresh() }()
		}
		wg.Wait()
		rig.Wait()
		time.Sleep(P - time.Nanosecond)
		rig.Wait()
		mu.Lock()
		early := len(at) - before
		mu.Unlock()
		if early != 0 {
			key, msg = "timer-refresh-fired-early", fmt.Sprintf("timeout (%s) refreshed by %d goroutines at %v: %d callback(s) before one full period had passed", state, refreshers, start, early)
			return
		}
		time.Sleep(time.Nanosecond + P/4)
		rig.Wait()
		mu.Lock()
		ran := len(at) - before
		mu.Unlock()
		if ran != 1 {
			key, msg = "timer-refresh-callback-count", fmt.Sprintf("timeout (%s) refreshed by %d goroutines at %v: %d callbacks one period later, expected exactly one", state, refreshers, start, ran)
			return
		}
		done := make(chan struct{})
		go func() { tm.Stop(); close(done) }()
		rig.Wait()
		select {
		case <-done:
		default:
			key, msg = "timer-cancel-hangs", fmt.Sprintf("cancel after %d concurrent refreshes of a %s timeout did not return", refreshers, state)
			return
		}
		time.Sleep(4 * P)
		rig.Wait()
		mu.Lock()
		late := len(at) - before - ran
		mu.Unlock()
		if late != 0 {
			key, msg = "timeout-callback-after-cancel", fmt.Sprintf("%d callback(s) after the cancel that followed %d concurrent refreshes", late, refreshers)
			return
		}
		leftovers = rig.Leftovers()
	})
	if key == "" && len(leftovers) > 0 {
		return "timer-goroutine-left-behind", fmt.Sprintf("%d goroutine(s) left after %d concurrent refreshes of a %s timeout, one firing and a cancel: %s", len(leftovers), refreshers, state, rig.TopFrames(leftovers[0], 3))
	}
	return
}

func TestC19(t *testing.T) {
	r := rep.New(t, "C19")
	defer r.Flush()
	r.Rule("virtual-time (synctest) sequences of SetTimeout/SetInterval/Refresh/Stop/ClearTimeout/ClearInterval on 1-3 timers, operations placed on and off the due instants, issued from other goroutines, with repeated and concurrent cancels; each run compared with a reference schedule (required / optional-at-coincidence / forbidden instants), cancel-return watchdog and bubble leftover scan; gate lanes hold the interval loop between tick and re-arm and a canceller between runtime Stop and its signal; a storm of 2-3 concurrent cancels at exactly the due instant (the runtime timer is firing while they run); a callback-behaviour lane (the callback cancels or refreshes its own timer; callbacks that outlast 2.5 periods with a cancel from another goroutine while one is running); distinct = (timer kinds, op multiset, number of coincident ops, outcome)")
	r.Assume("an operation issued at exactly a due instant races with the runtime timer by design: the callback of that instant may or may not run (optional), everything else is exact")
	r.Assume("Refresh is generated for timeouts (pending or fired) and for pending intervals (the schedule restarts: next tick one period after the refresh); it is not generated after a cancel")
	n := r.N(20000, 1500000)
	rng := r.Rand(19)
	for i := 0; i < n; i++ {
		c := genTimerCase(rng)
		c.Seed = fmt.Sprintf("seed=%d lane=%d case=%d", r.Seed, r.Lane, i)
		key, msg := runTimerCase(c, r)
		_, opt := timerModel(c)
		co := 0
		for _, m := range opt {
			co += len(m)
		}
		var sig []string
		for _, ts := range c.Timers {
			if ts.Interval {
				sig = append(sig, "I")
			} else {
				sig = append(sig, "T")
			}
		}
		for _, op := range c.Ops {
			sig = append(sig, op.Op[:2])
		}
		r.Case(fmt.Sprintf("%s/co%d/%s", strings.Join(sig, ""), co, key), len(c.Ops) > 0)
		r.Obs("sequences", 1)
		r.Obs("ops", int64(len(c.Ops)))
		r.Obs("ops_at_exact_due_instant", int64(co))
		if i < 3 {
			r.Sample(c)
		}
		if key != "" {
			r.Violation(key, msg, c)
		}
	}
	if r.Lane == 0 {
		for _, interval := range []bool{true, false} {
			for _, beh := range []string{"self-cancel", "self-refresh", "slow"} {
				if interval && beh == "self-refresh" {
					continue
				}
				for _, period := range []int{1, 4, 10} {
					for k := 1; k <= 3; k++ {
						if !interval && beh != "self-refresh" && k > 1 {
							continue
						}
						key, msg := callbackCase(interval, beh, period, k, r)
						r.Case(fmt.Sprintf("callback/%v/%s/p%d/k%d/%s", interval, beh, period, k, key), true)
						r.Obs("callback_behaviour_cases", 1)
						if key != "" {
							r.Violation("callback:"+key, msg, map[string]any{"lane": "callback behaviour", "interval": interval, "behaviour": beh, "period_ms": period, "k": k})
						}
					}
				}
			}
		}
	}
	nd := r.N(40000, 6000000)
	for i := 0; i < nd; i++ {
		iv, period, nc, ticks := i%2 == 0, 1+i%3, 2+i%2, 1+(i/6)%2
		key, msg := dueInstantCancels(iv, period, nc, ticks, r)
		if i%1000 == 0 {
			r.Case(fmt.Sprintf("due-instant-cancels/%v/%d/%d/%d", iv, period, nc, ticks), true)
		}
		r.Obs("concurrent_cancels_at_due_instant", 1)
		if key != "" {
			r.Violation("due-instant:"+key, msg, map[string]any{"lane": "concurrent cancels at exactly the due instant", "interval": iv, "period_ms": period, "cancellers": nc, "ticks": ticks, "iteration": i})
			break
		}
	}
	nr := r.N(24000, 3000000)
	for i := 0; i < nr; i++ {
		state := []string{"fired", "pending", "cancelled"}[i%3]
		period, k := 2+(i/3)%3, 2+(i/9)%3
		key, msg := concurrentRefreshes(state, period, k, r)
		if i%1000 < 27 {
			r.Case(fmt.Sprintf("concurrent-refreshes/%s/%d/%d", state, period, k), true)
		}
		r.Obs("concurrent_refresh_rounds", 1)
		if key != "" {
			r.Violation("concurrent-refresh:"+key, msg, map[string]any{"lane": "several goroutines refreshing one timeout at the same moment", "state": state, "period_ms": period, "refreshers": k, "iteration": i})
			break
		}
	}
	ng := r.N(40, 2000)
	for i := 0; i < ng; i++ {
		period := []int{1, 2, 5, 100}[rng.IntN(4)]
		extra := rng.IntN(3)
		key, msg, reached := gateIntervalCase(period, extra, r)
		r.Case(fmt.Sprintf("gate-interval/p%d/x%d/%s", period, extra, key), reached)
		if reached {
			r.Obs("gate:interval_cancel_between_tick_and_rearm", 1)
		} else {
			r.Inconclusive("gate lane never reached timer.interval.afterTick")
		}
		if key != "" {
			r.Violation("gate:"+key, msg, map[string]any{"lane": "interval cancel between tick and re-arm (hook timer.interval.afterTick)", "period_ms": period, "free_ticks": extra})
		}
		iv := rng.IntN(2) == 0
		key, msg, reached = gateStopCase(iv, 2+period, r)
		r.Case(fmt.Sprintf("gate-stop/iv%v/p%d/%s", iv, period, key), reached)
		if reached {
			r.Obs("gate:second_cancel_while_first_between_stop_and_signal", 1)
		} else {
			r.Inconclusive("gate lane never reached timer.Stop.afterStop")
		}
		if key != "" {
			r.Violation("gate:"+key, msg, map[string]any{"lane": "second cancel while the first is between runtime Stop and its signal (hook timer.Stop.afterStop)", "interval": iv, "period_ms": 2 + period})
		}
	}
}
