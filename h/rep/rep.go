// Package rep collects what a check lane observed and writes it for the driver.
package rep

import (
	"encoding/json"
	"fmt"
	"math/rand/v2"
	"os"
	"regexp"
	"runtime"
	"sort"
	"strconv"
	"strings"
	"sync"
	"syscall"
	"testing"
	"time"
)

type Finding struct {
	Key  string `json:"key"`
	Msg  string `json:"msg"`
	Case any    `json:"case,omitempty"`
}

type Report struct {
	mu sync.Mutex
	t  testing.TB

	Property string
	Tier     string
	Seed     int64
	Lane     int
	Lanes    int

	evaluations  int64
	distinct     map[string]struct{}
	samples      []any
	observed     map[string]int64
	findings     []Finding
	findingCount map[string]int64
	assumptions  []string
	rule         string
	inconclusive []string
	exhaustive   string
	journal      *os.File
	sets         map[string]map[string]struct{}
	aborted      string
	guard        time.Duration
	watch        map[string]*time.Timer
	idle         map[string]int
}

func envInt(name string, def int64) int64 {
	if v, err := strconv.ParseInt(os.Getenv(name), 10, 64); err == nil {
		return v
	}
	return def
}

func New(t testing.TB, property string) *Report {
	r := &Report{
		t:            t,
		Property:     property,
		Tier:         os.Getenv("VERIF_TIER"),
		Seed:         envInt("VERIF_SEED", 1),
		Lane:         int(envInt("VERIF_LANE", 0)),
		Lanes:        int(envInt("VERIF_LANES", 1)),
		distinct:     map[string]struct{}{},
		observed:     map[string]int64{},
		findingCount: map[string]int64{},
		sets:         map[string]map[string]struct{}{},
	}
	if r.Tier == "" {
		r.Tier = "quick"
	}
	if p := os.Getenv("VERIF_OUT"); p != "" {
		f, err := os.OpenFile(p+".journal", os.O_CREATE|os.O_WRONLY|os.O_APPEND, 0o644)
		if err == nil {
			r.journal = f
		}
	}
	return r
}

// T returns the *testing.T the report was created with.
func (r *Report) T() *testing.T { return r.t.(*testing.T) }

func (r *Report) Thorough() bool { return r.Tier == "thorough" }

// N picks the case count of the tier.
// The numbers are totals over all lanes; the lane's share is returned.
func (r *Report) N(quick, thorough int) int {
	n := quick
	if r.Thorough() {
		n = thorough
	}
	if r.Lanes > 1 {
		n = (n + r.Lanes - 1) / r.Lanes
	}
	return n
}

// Rand returns a PRNG determined by (seed, lane, stream).
func (r *Report) Rand(stream uint64) *rand.Rand {
	return rand.New(rand.NewPCG(uint64(r.Seed)*1000003+uint64(r.Lane), stream))
}

// CaseRand returns the PRNG of case i of a stream: cases are independent, so that a
// single one can be replayed with VERIF_ONLY=<i>.
func (r *Report) CaseRand(stream uint64, i int) *rand.Rand {
	return rand.New(rand.NewPCG(uint64(r.Seed)*1000003+uint64(r.Lane), stream<<32+uint64(i)))
}

// Only reports whether case i should run (VERIF_ONLY unset or equal to i).
func (r *Report) Only(i int) bool {
	v := os.Getenv("VERIF_ONLY")
	return v == "" || v == strconv.Itoa(i)
}

// Mine reports whether case index i belongs to this lane.
func (r *Report) Mine(i int) bool { return r.Lanes <= 1 || i%r.Lanes == r.Lane }

func (r *Report) Rule(s string) { r.mu.Lock(); r.rule = s; r.mu.Unlock() }
func (r *Report) Assume(s string) {
	r.mu.Lock()
	defer r.mu.Unlock()
	for _, a := range r.assumptions {
		if a == s {
			return
		}
	}
	r.assumptions = append(r.assumptions, s)
}

// Case counts one executed case; sig identifies it for distinctness when nontrivial.
func (r *Report) Case(sig string, nontrivial bool) {
	r.mu.Lock()
	r.evaluations++
	if nontrivial {
		r.distinct[sig] = struct{}{}
	}
	partial := r.evaluations%200 == 0
	r.mu.Unlock()
	if partial && os.Getenv("VERIF_DEBUG_MEM") != "" {
		var ms runtime.MemStats
		runtime.ReadMemStats(&ms)
		fmt.Fprintf(os.Stderr, "MEM cases=%d heap_alloc=%dMB heap_sys=%dMB stack_sys=%dMB other_sys=%dMB goroutines=%d\n", r.evaluations, ms.HeapAlloc>>20, ms.HeapSys>>20, ms.StackSys>>20, (ms.Sys-ms.HeapSys-ms.StackSys)>>20, runtime.NumGoroutine())
	}
	if partial && os.Getenv("VERIF_OUT") != "" {
		// keep a partial result on disk: a crash of the system under test must not erase
		// what the lane had observed so far
		r.write(false)
	}
}

func (r *Report) Obs(name string, n int64) {
	r.mu.Lock()
	r.observed[name] += n
	r.mu.Unlock()
}

// ObsMax keeps the maximum of a measured quantity (reported as "max:<name>").
func (r *Report) ObsMax(name string, v int64) {
	r.mu.Lock()
	if v > r.observed["max:"+name] {
		r.observed["max:"+name] = v
	}
	r.mu.Unlock()
}

// ObsSet records membership of v in a named set; its size is reported as "distinct:<name>".
func (r *Report) ObsSet(name, v string) {
	r.mu.Lock()
	s := r.sets[name]
	if s == nil {
		s = map[string]struct{}{}
		r.sets[name] = s
	}
	s[v] = struct{}{}
	r.mu.Unlock()
}

func (r *Report) Sample(v any) {
	r.mu.Lock()
	if len(r.samples) < 4 {
		r.samples = append(r.samples, v)
	}
	r.mu.Unlock()
}

// Exhaustive declares that this run enumerated the named finite space completely.
func (r *Report) Exhaustive(what string) {
	r.mu.Lock()
	r.exhaustive = what
	r.mu.Unlock()
}

func (r *Report) Inconclusive(why string) {
	r.mu.Lock()
	if len(r.inconclusive) < 20 {
		r.inconclusive = append(r.inconclusive, why)
	}
	r.mu.Unlock()
}

// Violation records a property violation.  key classifies it (input class + witness shape).
func (r *Report) Violation(key, msg string, c any) {
	r.mu.Lock()
	r.findingCount[key]++
	if r.findingCount[key] <= 3 && len(r.findings) < 60 {
		r.findings = append(r.findings, Finding{Key: key, Msg: msg, Case: c})
	}
	r.mu.Unlock()
}

func (r *Report) Violationf(key string, c any, format string, a ...any) {
	r.Violation(key, fmt.Sprintf(format, a...), c)
}

// Guard arms a real-time watchdog for every case bracketed by Begin/End from now on: a case that
// has not ended after limit is examined (see runaway).  Only for checks whose cases are client
// inputs to a server - never for lanes in which the harness itself calls library functions in a
// tight loop.  Call it outside any synctest bubble (the timer must run on real time).
func (r *Report) Guard(limit time.Duration) {
	r.mu.Lock()
	r.guard = limit
	if r.watch == nil {
		r.watch = map[string]*time.Timer{}
		r.idle = map[string]int{}
	}
	r.mu.Unlock()
}

var goHdr = regexp.MustCompile(`^goroutine (\d+) \[([^\]]*)\]:`)

func allStacks() string {
	buf := make([]byte, 4<<20)
	for {
		n := runtime.Stack(buf, true)
		if n < len(buf) {
			return string(buf[:n])
		}
		buf = make([]byte, 2*len(buf))
	}
}

// busyInRepo maps goroutine id -> the library function it is executing, for goroutines that are
// running or runnable and whose innermost non-runtime, non-standard-library frame belongs to the
// system under test.
func busyInRepo(dump string) map[string]string {
	out := map[string]string{}
	for _, blk := range strings.Split(dump, "\n\n") {
		lines := strings.Split(blk, "\n")
		m := goHdr.FindStringSubmatch(lines[0])
		if m == nil || !(strings.HasPrefix(m[2], "running") || strings.HasPrefix(m[2], "runnable")) {
			continue
		}
		for _, l := range lines[1:] {
			if strings.HasPrefix(l, "\t") || strings.HasPrefix(l, "created by") {
				continue
			}
			if strings.Contains(l, "verifh/") || strings.Contains(l, "/verifhook.") {
				break // harness code is what runs
			}
			if i := strings.Index(l, "zishang520/engine.io/v2/"); i >= 0 {
				fn := l[i+len("zishang520/engine.io/v2/"):]
				if j := strings.LastIndex(fn, "("); j > 0 {
					fn = fn[:j]
				}
				out[m[1]] = fn
				break
			}
			if strings.Contains(l, "zishang520/engine.io-go-parser") {
				break // the parser dependency has its own (known) findings and lanes
			}
		}
	}
	return out
}

func cpuNow() time.Duration {
	var ru syscall.Rusage
	syscall.Getrusage(syscall.RUSAGE_SELF, &ru)
	return time.Duration(ru.Utime.Sec+ru.Stime.Sec)*time.Second + time.Duration(ru.Utime.Usec+ru.Stime.Usec)*time.Microsecond
}

// runaway is the watchdog's verdict on a case that did not end.  Proof rule (DESIGN 2.5): four
// goroutine dumps 700 ms apart all show the same goroutine running (or runnable) inside the same
// library function, and the process burned at least one core-second meanwhile.  Proved: the case
// is a violation (key runaway:<function>), the partial lane result is written and the process
// ends (a spinning goroutine cannot be stopped).  Not proved: the lane goes on, the
// examination is repeated after another limit, and the driver's lane timeout is the backstop.
func (r *Report) runaway(id string, limit time.Duration, input any) {
	c0 := cpuNow()
	var common map[string]string
	var last string
	for k := 0; k < 4; k++ {
		if k > 0 {
			time.Sleep(700 * time.Millisecond)
		}
		last = allStacks()
		b := busyInRepo(last)
		if common == nil {
			common = b
			continue
		}
		for g, fn := range common {
			if b[g] != fn {
				delete(common, g)
			}
		}
	}
	cpu := cpuNow() - c0
	r.mu.Lock()
	_, still := r.watch[id]
	r.mu.Unlock()
	if !still {
		return // the case ended while it was being examined
	}
	if len(common) == 0 || cpu < time.Second {
		// slow, not proved to be spinning: look again later.  A case during which the whole process
		// sits idle (all goroutines blocked; inside a synctest bubble a goroutine waiting for one of
		// the library's own mutexes freezes virtual time) will never end: after two idle
		// examinations the lane writes what it has and stops, and the driver reports it
		// inconclusive (a frozen bubble is not a proof of a deadlock in the library: the holder of
		// the mutex may merely be waiting for virtual time).
		r.Obs("slow_cases_examined_without_runaway_proof", 1)
		again := limit
		r.mu.Lock()
		if cpu < 100*time.Millisecond {
			r.idle[id]++
			again = 20 * time.Second
		} else {
			r.idle[id] = 0
		}
		frozen := r.idle[id] >= 2
		if _, still := r.watch[id]; still && !frozen {
			r.watch[id] = time.AfterFunc(again, func() { r.runaway(id, limit, input) })
		}
		r.mu.Unlock()
		if frozen {
			var blocked []string
			for _, blk := range strings.Split(last, "\n\n") {
				if strings.Contains(blk, "zishang520/engine.io/v2/") && (strings.Contains(blk, "sync.(*Mutex).Lock") || strings.Contains(blk, "sync.(*RWMutex)") || strings.Contains(blk, "sync.(*WaitGroup).Wait")) {
					ls := strings.Split(blk, "\n")
					var fns []string
					for _, l := range ls[1:] {
						if !strings.HasPrefix(l, "\t") && len(fns) < 8 {
							if j := strings.LastIndex(l, "("); j > 0 {
								l = l[:j]
							}
							fns = append(fns, l)
						}
					}
					blocked = append(blocked, strings.Join(fns, " < "))
				}
			}
			if len(blocked) > 3 {
				blocked = blocked[:3]
			}
			r.Inconclusive(fmt.Sprintf("case %s froze: not finished after %v and the process is idle; goroutines waiting for a lock inside library code: %v", id, limit+20*time.Second, blocked))
			r.mu.Lock()
			r.aborted = "frozen"
			r.mu.Unlock()
			r.write(false)
			fmt.Fprintf(os.Stderr, "CASE-FROZEN case=%s\n%s\n", id, last)
			os.Exit(0)
		}
		return
	}
	var fns []string
	for g, fn := range common {
		fns = append(fns, fn+" (goroutine "+g+")")
	}
	sort.Strings(fns)
	key := "runaway:" + strings.SplitN(fns[0], " ", 2)[0]
	r.Violation(key, fmt.Sprintf("case %s had not finished %v (real time) after it began; four goroutine dumps 700 ms apart all show %s running in the same library function while the process used %v of CPU time: endless computation", id, limit, strings.Join(fns, ", "), cpu.Round(time.Millisecond)), input)
	r.mu.Lock()
	r.aborted = "runaway-proved"
	r.mu.Unlock()
	r.write(false)
	fmt.Fprintf(os.Stderr, "RUNAWAY-PROVED case=%s %s\n%s\n", id, strings.Join(fns, ", "), last)
	os.Exit(0)
}

// Begin/End journal a case that may kill or wedge the process.
func (r *Report) Begin(id string, input any) {
	r.mu.Lock()
	if r.guard > 0 {
		limit := r.guard
		r.watch[id] = time.AfterFunc(limit, func() { r.runaway(id, limit, input) })
	}
	r.mu.Unlock()
	if r.journal == nil {
		return
	}
	b, _ := json.Marshal(map[string]any{"ev": "begin", "id": id, "input": input})
	r.mu.Lock()
	r.journal.Write(append(b, '\n'))
	r.mu.Unlock()
}

func (r *Report) End(id string) {
	r.mu.Lock()
	if t := r.watch[id]; t != nil {
		t.Stop()
		delete(r.watch, id)
		delete(r.idle, id)
	}
	r.mu.Unlock()
	if r.journal == nil {
		return
	}
	b, _ := json.Marshal(map[string]any{"ev": "end", "id": id})
	r.mu.Lock()
	r.journal.Write(append(b, '\n'))
	r.mu.Unlock()
}

func (r *Report) NumFindings() int {
	r.mu.Lock()
	defer r.mu.Unlock()
	return len(r.findingCount)
}

// Flush writes the lane result.
func (r *Report) Flush() { r.write(true) }

func (r *Report) write(done bool) {
	r.mu.Lock()
	defer r.mu.Unlock()
	for name, s := range r.sets {
		r.observed["distinct:"+name] = int64(len(s))
	}
	if done {
		var ms runtime.MemStats
		runtime.ReadMemStats(&ms)
		r.observed["lane_goroutines_at_end"] = int64(runtime.NumGoroutine())
		r.observed["lane_heap_mb_at_end"] = int64(ms.HeapAlloc >> 20)
	}
	dk := make([]string, 0, len(r.distinct))
	for k := range r.distinct {
		dk = append(dk, k)
	}
	sort.Strings(dk)
	out := map[string]any{
		"property":      r.Property,
		"tier":          r.Tier,
		"seed":          r.Seed,
		"lane":          r.Lane,
		"evaluations":   r.evaluations,
		"distinct":      dk,
		"samples":       r.samples,
		"observed":      r.observed,
		"findings":      r.findings,
		"finding_count": r.findingCount,
		"assumptions":   r.assumptions,
		"rule":          r.rule,
		"inconclusive":  r.inconclusive,
		"exhaustive":    r.exhaustive,
		"done":          done,
		"aborted":       r.aborted,
	}
	b, err := json.Marshal(out)
	if err != nil {
		r.t.Fatalf("rep: marshal: %v", err)
	}
	if p := os.Getenv("VERIF_OUT"); p != "" {
		if err := os.WriteFile(p, b, 0o644); err != nil {
			r.t.Fatalf("rep: %v", err)
		}
	} else if done {
		r.t.Logf("evaluations=%d distinct=%d observed=%v", r.evaluations, len(dk), r.observed)
		for k, n := range r.findingCount {
			r.t.Errorf("VIOLATION key=%s count=%d", k, n)
		}
		for _, f := range r.findings {
			cb, _ := json.Marshal(f.Case)
			if len(cb) > 600 {
				cb = append(cb[:600], "..."...)
			}
			r.t.Logf("  %s: %s  case=%s", f.Key, f.Msg, cb)
		}
		for _, s := range r.inconclusive {
			r.t.Logf("  inconclusive: %s", s)
		}
	}
	if done && r.journal != nil {
		r.journal.Close()
	}
}
