// Package rig drives the real engine.io code: synctest bubbles, hook gates, an in-memory
// HTTP/WebSocket/WebTransport rig and protocol client actors.
package rig

import (
	"bytes"
	"fmt"
	"regexp"
	"runtime"
	"strings"
	"sync"
	"sync/atomic"
	"syscall"
	"testing"
	"testing/synctest"
	"time"
)

var hdrRe = regexp.MustCompile(`^goroutine (\d+) \[([^\]]*)\]:`)
var bubRe = regexp.MustCompile(`synctest bubble (\d+)`)

// Leftovers returns the stacks of the other goroutines of the caller's synctest bubble
// (the synctest/testing infrastructure goroutines excluded).  Call it after synctest.Wait.
func Leftovers() []string {
	buf := make([]byte, 1<<20)
	for {
		n := runtime.Stack(buf, true)
		if n < len(buf) {
			buf = buf[:n]
			break
		}
		buf = make([]byte, 2*len(buf))
	}
	blocks := strings.Split(string(buf), "\n\n")
	if len(blocks) == 0 {
		return nil
	}
	m := bubRe.FindStringSubmatch(strings.SplitN(blocks[0], "\n", 2)[0])
	if m == nil {
		return nil
	}
	me := m[1]
	var out []string
	for _, b := range blocks[1:] {
		first := strings.SplitN(b, "\n", 2)[0]
		bm := bubRe.FindStringSubmatch(first)
		if bm == nil || bm[1] != me {
			continue
		}
		if strings.Contains(b, "internal/synctest.Run(") || strings.Contains(b, "synctest.testingSynctestTest(") {
			continue
		}
		out = append(out, b)
	}
	return out
}

// TopFrames summarises a goroutine stack: state and the first few function names.
func TopFrames(stack string, n int) string {
	lines := strings.Split(stack, "\n")
	var fns []string
	state := ""
	if m := hdrRe.FindStringSubmatch(lines[0]); m != nil {
		state = strings.SplitN(m[2], ",", 2)[0]
	}
	for _, l := range lines[1:] {
		if strings.HasPrefix(l, "\t") || strings.HasPrefix(l, "created by") {
			continue
		}
		if i := strings.LastIndex(l, "("); i > 0 {
			l = l[:i]
		}
		fns = append(fns, l)
		if len(fns) >= n {
			break
		}
	}
	return state + ": " + strings.Join(fns, " < ")
}

// Bubble runs f inside a synctest bubble.  A deadlock panic at bubble exit (goroutines
// still blocked when f returned) is recovered and returned; callers are expected to have
// examined Leftovers() themselves before returning from f.
func Bubble(t *testing.T, f func()) (exitErr error) {
	// Run in a helper goroutine: when the race detector has reported something, the testing
	// package fails the bubble's test and calls FailNow (runtime.Goexit) on the caller -
	// that must end the helper, not the whole lane.
	done := make(chan struct{})
	var repanic any
	go func() {
		defer close(done)
		defer func() {
			if p := recover(); p != nil {
				if e, ok := p.(error); ok && strings.Contains(e.Error(), "deadlock") {
					exitErr = e
					return
				}
				repanic = p
			}
		}()
		synctest.Test(t, func(*testing.T) { f() })
	}()
	<-done
	if repanic != nil {
		panic(repanic)
	}
	return exitErr
}

// Wait is synctest.Wait.
func Wait() { synctest.Wait() }

// Settle lets the other goroutines run for a short REAL time.  Unlike Wait it does not
// require them to be durably blocked, so it is usable while a goroutine held at a hook
// point owns one of the code's own mutexes (others then block on that mutex, which
// synctest does not consider durable).
func Settle() {
	for i := 0; i < 12; i++ {
		runtime.Gosched()
		ts := syscall.Timespec{Nsec: 150_000}
		syscall.Nanosleep(&ts, nil)
	}
	// On a busy machine 2 ms may not be enough for the others to get the processor at all: go on
	// until no other goroutine of the process is running or waiting for a processor (a goroutine
	// blocked on a channel, a mutex, a timer or the network is at rest).  Bounded; whoever needs a
	// particular state checks for it afterwards.
	for i := 0; i < 400 && othersBusy(); i++ {
		runtime.Gosched()
		ts := syscall.Timespec{Nsec: 500_000}
		syscall.Nanosleep(&ts, nil)
	}
}

var settleBuf = make([]byte, 1<<20)
var settleMu sync.Mutex
var SettleExtended atomic.Int64

// othersBusy scans a goroutine dump for goroutines, other than the caller, that are running,
// runnable or in a system call.
func othersBusy() bool {
	settleMu.Lock()
	defer settleMu.Unlock()
	n := runtime.Stack(settleBuf, true)
	if n == len(settleBuf) {
		return false // too many goroutines to judge: fall back to the fixed pause
	}
	first := true
	for _, blk := range bytes.Split(settleBuf[:n], []byte("\n\n")) {
		if !bytes.HasPrefix(blk, []byte("goroutine ")) {
			continue
		}
		if first {
			first = false // the caller comes first in the dump
			continue
		}
		i := bytes.IndexByte(blk, '[')
		j := bytes.IndexByte(blk, ']')
		if i < 0 || j < i {
			continue
		}
		st := blk[i+1 : j]
		if bytes.HasPrefix(st, []byte("running")) || bytes.HasPrefix(st, []byte("runnable")) || bytes.HasPrefix(st, []byte("syscall")) {
			if bytes.Contains(blk, []byte("os/signal.signal_recv")) {
				continue
			}
			SettleExtended.Add(1)
			return true
		}
	}
	return false
}

func stacksOf(marker string) map[string]string {
	buf := make([]byte, 4<<20)
	for {
		n := runtime.Stack(buf, true)
		if n < len(buf) {
			buf = buf[:n]
			break
		}
		buf = make([]byte, 2*len(buf))
	}
	out := map[string]string{}
	for _, blk := range strings.Split(string(buf), "\n\n") {
		if !strings.Contains(blk, marker) {
			continue
		}
		lines := strings.SplitN(blk, "\n", 2)
		m := hdrRe.FindStringSubmatch(lines[0])
		if m == nil || len(lines) < 2 {
			continue
		}
		state := strings.SplitN(m[2], ",", 2)[0]
		out[m[1]] = state + "\n" + lines[1]
	}
	return out
}

func processCPU() int64 {
	var ru syscall.Rusage
	syscall.Getrusage(syscall.RUSAGE_SELF, &ru)
	return (ru.Utime.Sec+ru.Stime.Sec)*1e6 + int64(ru.Utime.Usec+ru.Stime.Usec)
}

// Standstill is the proof rule for "this call will never return" on REAL time (never inside a
// bubble).  The goroutines whose stack contains marker are sampled now and again after wait
// (choose wait longer than every timer that exists in the scenario).  Proof: such a goroutine
// is blocked - not running or runnable - inside library code, its stack (frames, arguments,
// program counters) is byte-for-byte the same in both samples, the process as a whole used less
// than 2 % of a core in between (nothing is working towards releasing it), and a heartbeat
// goroutine of the harness kept running all the while (the process was not simply starved).
// Returns a description of the blocked goroutine, or "" when there is no proof.
func Standstill(marker string, wait time.Duration) string {
	StandstillWhyNot = ""
	before := stacksOf(marker)
	if len(before) == 0 {
		StandstillWhyNot = "no goroutine carries the marker"
		return ""
	}
	var beats atomic.Int64
	stop := make(chan struct{})
	go func() {
		for {
			select {
			case <-stop:
				return
			default:
			}
			beats.Add(1)
			ts := syscall.Timespec{Nsec: 10_000_000}
			syscall.Nanosleep(&ts, nil)
		}
	}()
	c0 := processCPU()
	ts := syscall.Timespec{Sec: int64(wait / 1e9), Nsec: int64(wait % 1e9)}
	syscall.Nanosleep(&ts, nil)
	cpu := processCPU() - c0
	close(stop)
	after := stacksOf(marker)
	if cpu > int64(wait/1e3)/50 || beats.Load() < int64(wait/1e6)/40 {
		StandstillWhyNot = fmt.Sprintf("process used %d ms of CPU time in %v, harness heartbeat ran %d times", cpu/1000, wait, beats.Load())
		return ""
	}
	for g, st := range before {
		if after[g] != st || !strings.Contains(st, "zishang520/engine.io/v2/") {
			continue
		}
		state := strings.SplitN(st, "\n", 2)[0]
		if strings.HasPrefix(state, "running") || strings.HasPrefix(state, "runnable") || strings.HasPrefix(state, "syscall") || strings.HasPrefix(state, "sleep") {
			continue
		}
		return "goroutine " + g + " [" + TopFrames("goroutine "+g+" ["+state+"]:\n"+strings.SplitN(st, "\n", 2)[1], 12) + "]"
	}
	for g, st := range before {
		a, ok := after[g]
		StandstillWhyNot += fmt.Sprintf("goroutine %s: still there %v, same stack %v, state %q; ", g, ok, a == st, strings.SplitN(st, "\n", 2)[0])
	}
	return ""
}

// StandstillWhyNot says why the last Standstill call found no proof (diagnostics only).
var StandstillWhyNot string

// AtRest waits (REAL time, at most limit) until no other goroutine of the process is running,
// runnable or in a system call in three consecutive scans 2 ms apart, and reports whether that was
// reached.  Unlike Settle it does not give up silently: a caller whose verdict depends on "whatever
// the code was going to do synchronously has been done" must treat false as undecided.
func AtRest(limit time.Duration) bool {
	deadline := time.Now().Add(limit)
	quiet := 0
	for time.Now().Before(deadline) {
		runtime.Gosched()
		ts := syscall.Timespec{Nsec: 2_000_000}
		syscall.Nanosleep(&ts, nil)
		if othersBusy() {
			quiet = 0
			continue
		}
		quiet++
		if quiet >= 3 {
			return true
		}
	}
	return false
}
