// Package rig drives the real engine.io code: synctest bubbles, hook gates, an in-memory
// HTTP/WebSocket/WebTransport rig and protocol client actors.
package rig

import (
	"regexp"
	"runtime"
	"strings"
	"syscall"
	"testing"
	"testing/synctest"
)

var hdrRe = regexp.MustCompile(`^goroutine (\d+) \[([^\]]*)\]:`)
var bubRe = regexp.MustCompile(`synctest bubble (\d+)`)

// Leftovers returns the stacks of the other goroutines of the caller's synctest bubble
// (the synctest/testing infrastructure goroutines excluded).  Call it after synctest.Wait.
func Leftovers() []string {
	buf := make([]byte, 1<<20)
	for {
		n := runtime.Stack(buf, true)
		if n < len(buf) {
			buf = buf[:n]
			break
		}
		buf = make([]byte, 2*len(buf))
	}
	blocks := strings.Split(string(buf), "\n\n")
	if len(blocks) == 0 {
		return nil
	}
	m := bubRe.FindStringSubmatch(strings.SplitN(blocks[0], "\n", 2)[0])
	if m == nil {
		return nil
	}
	me := m[1]
	var out []string
	for _, b := range blocks[1:] {
		first := strings.SplitN(b, "\n", 2)[0]
		bm := bubRe.FindStringSubmatch(first)
		if bm == nil || bm[1] != me {
			continue
		}
		if strings.Contains(b, "internal/synctest.Run(") || strings.Contains(b, "synctest.testingSynctestTest(") {
			continue
		}
		out = append(out, b)
	}
	return out
}

// TopFrames summarises a goroutine stack: state and the first few function names.
func TopFrames(stack string, n int) string {
	lines := strings.Split(stack, "\n")
	var fns []string
	state := ""
	if m := hdrRe.FindStringSubmatch(lines[0]); m != nil {
		state = strings.SplitN(m[2], ",", 2)[0]
	}
	for _, l := range lines[1:] {
		if strings.HasPrefix(l, "\t") || strings.HasPrefix(l, "created by") {
			continue
		}
		if i := strings.LastIndex(l, "("); i > 0 {
			l = l[:i]
		}
		fns = append(fns, l)
		if len(fns) >= n {
			break
		}
	}
	return state + ": " + strings.Join(fns, " < ")
}

// Bubble runs f inside a synctest bubble.  A deadlock panic at bubble exit (goroutines
// still blocked when f returned) is recovered and returned; callers are expected to have
// examined Leftovers() themselves before returning from f.
func Bubble(t *testing.T, f func()) (exitErr error) {
	// Run in a helper goroutine: when the race detector has reported something, the testing
	// package fails the bubble's test and calls FailNow (runtime.Goexit) on the caller -
	// that must end the helper, not the whole lane.
	done := make(chan struct{})
	var repanic any
	go func() {
		defer close(done)
		defer func() {
			if p := recover(); p != nil {
				if e, ok := p.(error); ok && strings.Contains(e.Error(), "deadlock") {
					exitErr = e
					return
				}
				repanic = p
			}
		}()
		synctest.Test(t, func(*testing.T) { f() })
	}()
	<-done
	if repanic != nil {
		panic(repanic)
	}
	return exitErr
}

// Wait is synctest.Wait.
func Wait() { synctest.Wait() }

// Settle lets the other goroutines run for a short REAL time.  Unlike Wait it does not
// require them to be durably blocked, so it is usable while a goroutine held at a hook
// point owns one of the code's own mutexes (others then block on that mutex, which
// synctest does not consider durable).
func Settle() {
	for i := 0; i < 12; i++ {
		runtime.Gosched()
		ts := syscall.Timespec{Nsec: 150_000}
		syscall.Nanosleep(&ts, nil)
	}
}
