package rig

import (
	"bufio"
	"bytes"
	"context"
	"encoding/json"
	"errors"
	"fmt"
	"io"
	"net"
	"net/http"
	"net/http/httptest"
	"net/url"
	"strconv"
	"strings"
	"sync"
	"sync/atomic"
	"time"

	ws "github.com/gorilla/websocket"
	"github.com/zishang520/engine.io/v2/events"
	"github.com/zishang520/engine.io/v2/transports"
	"github.com/zishang520/engine.io/v2/types"
	webtrans "github.com/zishang520/engine.io/v2/webtransport"

	"verifh/fakenet"
	"verifh/refcodec"
)

// HTTPResult is a raw HTTP response.
type HTTPResult struct {
	Status int
	Header http.Header
	Body   []byte
	Err    error
	// At is the virtual time and Seq the tap sequence number at which the response was complete.
	At  time.Duration
	Seq int64
}

// Exchange is one in-flight HTTP request on its own connection.
type Exchange struct {
	Conn *fakenet.Conn
	done chan struct{}
	Res  HTTPResult
}

func (x *Exchange) Wait() HTTPResult { <-x.done; return x.Res }
func (x *Exchange) Done() bool {
	select {
	case <-x.done:
		return true
	default:
		return false
	}
}

// Abort drops the connection (client disappears mid-request).
func (x *Exchange) Abort() { x.Conn.Close() }

// ReqSpec describes a raw request.
type ReqSpec struct {
	Method  string
	Target  string // path?query
	Header  http.Header
	Body    []byte
	Chunked bool // send the body with Transfer-Encoding: chunked (no Content-Length)
	// RawHead, if set, replaces the generated request head entirely.
	RawHead string
}

// Start sends a request on a fresh connection and reads the response in a goroutine.
func (w *World) Start(spec ReqSpec) *Exchange {
	x := &Exchange{done: make(chan struct{})}
	conn, err := w.Dial()
	if err != nil {
		x.Res.Err = err
		close(x.done)
		return x
	}
	x.Conn = conn
	var b bytes.Buffer
	if spec.RawHead != "" {
		b.WriteString(spec.RawHead)
	} else {
		fmt.Fprintf(&b, "%s %s HTTP/1.1\r\nHost: engine\r\nConnection: close\r\n", spec.Method, spec.Target)
		for k, vs := range spec.Header {
			for _, v := range vs {
				fmt.Fprintf(&b, "%s: %s\r\n", k, v)
			}
		}
		if spec.Chunked {
			b.WriteString("Transfer-Encoding: chunked\r\n")
		} else if spec.Body != nil || spec.Method == "POST" {
			fmt.Fprintf(&b, "Content-Length: %d\r\n", len(spec.Body))
		}
		b.WriteString("\r\n")
	}
	if spec.Chunked {
		body := spec.Body
		for len(body) > 0 {
			n := len(body)
			if n > 1000 {
				n = 1000
			}
			fmt.Fprintf(&b, "%x\r\n", n)
			b.Write(body[:n])
			b.WriteString("\r\n")
			body = body[n:]
		}
		b.WriteString("0\r\n\r\n")
	} else {
		b.Write(spec.Body)
	}
	conn.Write(b.Bytes())
	go func() {
		defer close(x.done)
		resp, err := http.ReadResponse(bufio.NewReader(conn), &http.Request{Method: spec.Method})
		if err != nil {
			x.Res.Err = err
			x.Res.At = w.Tap.Now()
			return
		}
		body, err := io.ReadAll(resp.Body)
		x.Res = HTTPResult{Status: resp.StatusCode, Header: resp.Header, Body: body, Err: err}
		x.Res.Seq = w.Tap.Add(Event{Kind: "client:response", Str: fmt.Sprintf("%s %s -> %d (%d bytes)", spec.Method, spec.Target, resp.StatusCode, len(body))})
		x.Res.At = w.Tap.Now()
		conn.Close()
	}()
	return x
}

// Do performs a request and waits for its response.
func (w *World) Do(spec ReqSpec) HTTPResult { return w.Start(spec).Wait() }

// ClientCfg selects protocol revision, transport and encodings of a client actor.
type ClientCfg struct {
	Rev       int    // 3 or 4
	Transport string // polling | websocket | webtransport
	B64       bool
	// B64OnlyAtHandshake: the b64 flag is sent with the handshake request only; later polling
	// requests omit it (the payload format of a session is fixed when it is created)
	B64OnlyAtHandshake bool
	JSONP              bool
	J                  string // value of the j parameter (JSONP)
	Path               string // default /engine.io/
	Extra              string // extra query string (without leading &)
	Header             http.Header
	AcceptEnc          string
	WSCompress         bool
	// CandidateRev, if non-zero, is the EIO value used when opening an upgrade candidate.
	CandidateRev int
	// OmitEIO leaves the EIO parameter out (the server then assumes revision 3).
	OmitEIO bool
	// ProbeAtOnce: send the upgrade probe immediately after the candidate is open (it may
	// then reach the server before the session has attached its listeners).
	ProbeAtOnce bool
	// NoAutoPong: do not answer pings (v4) automatically in reader loops.
	NoAutoPong bool
	// ChunkedPost: data requests are sent with Transfer-Encoding: chunked (no Content-Length),
	// as HTTP/1.1 clients that stream their body do.
	ChunkedPost bool
}

// Recv is one packet received by a client.
type Recv struct {
	P       refcodec.Packet
	At      time.Duration
	Seq     int64
	Carrier string
}

// OpenInfo is the JSON of the open packet.
type OpenInfo struct {
	Sid          string   `json:"sid"`
	Upgrades     []string `json:"upgrades"`
	PingInterval int64    `json:"pingInterval"`
	PingTimeout  int64    `json:"pingTimeout"`
	MaxPayload   int64    `json:"maxPayload"`
	Raw          string   `json:"-"`
}

// Client is a protocol actor.
type Client struct {
	W    *World
	Cfg  ClientCfg
	Sid  string
	Open OpenInfo

	mu      sync.Mutex
	recv    []Recv
	polls   []HTTPResult
	errs    []string
	stopped bool
	pausing bool
	pinger  bool
	ended   string // why the reader loop ended
	curPoll *Exchange
	npoll   int

	WS             *ws.Conn
	wsMu           sync.Mutex
	postSem        chan struct{}
	WT             *webtrans.Conn
	WTStream       *fakenet.Stream // client side
	WTServerStream *fakenet.Stream
	wtMu           sync.Mutex
	cancel         context.CancelFunc

	readerDone chan struct{}
	// OnPacket, if set, is called for every received packet (reader goroutine).
	OnPacket func(Recv)
}

func (c *Client) path() string {
	if c.Cfg.Path != "" {
		return c.Cfg.Path
	}
	return "/engine.io/"
}

func (c *Client) query(withSid bool, transport string) string {
	rev := c.Cfg.Rev
	if withSid && transport != "polling" && c.Cfg.CandidateRev != 0 {
		rev = c.Cfg.CandidateRev
	}
	q := "EIO=" + strconv.Itoa(rev) + "&transport=" + transport
	if c.Cfg.OmitEIO {
		q = "transport=" + transport
	}
	if c.Cfg.B64 && !(c.Cfg.B64OnlyAtHandshake && withSid && transport == "polling") {
		q += "&b64=1"
	}
	if c.Cfg.JSONP {
		q += "&j=" + url.QueryEscape(c.Cfg.J)
	}
	if withSid {
		q += "&sid=" + c.Sid
	}
	if c.Cfg.Extra != "" {
		q += "&" + c.Cfg.Extra
	}
	return q
}

func (c *Client) hdr() http.Header {
	h := http.Header{}
	for k, v := range c.Cfg.Header {
		h[k] = v
	}
	if c.Cfg.AcceptEnc != "" {
		h.Set("Accept-Encoding", c.Cfg.AcceptEnc)
	}
	return h
}

// DecodePoll decodes a poll response body according to the client's configuration.
func (c *Client) DecodePoll(res HTTPResult) ([]refcodec.Packet, error) {
	body := res.Body
	if ce := res.Header.Get("Content-Encoding"); ce != "" {
		d, err := refcodec.DecodeContent(ce, body)
		if err != nil {
			return nil, fmt.Errorf("content-encoding %s: %w", ce, err)
		}
		body = d
	}
	if c.Cfg.JSONP {
		_, payload, err := refcodec.ParseJSONP(body)
		if err != nil {
			return nil, err
		}
		body = payload
	}
	form := "v4"
	if c.Cfg.Rev == 3 {
		form = "v3s"
		if strings.HasPrefix(res.Header.Get("Content-Type"), "application/octet-stream") {
			form = "v3b"
		}
	}
	return refcodec.DecodePayload(form, body)
}

func (c *Client) record(ps []refcodec.Packet, carrier string) {
	for _, p := range ps {
		r := Recv{P: p, Carrier: carrier}
		r.Seq = c.W.Tap.Add(Event{Kind: "client:packet", Sid: c.Sid, Str: p.String(), Bin: p.Binary})
		r.At = c.W.Tap.Now()
		c.mu.Lock()
		c.recv = append(c.recv, r)
		cb := c.OnPacket
		c.mu.Unlock()
		if cb != nil {
			cb(r)
		}
	}
}

// SetNoAutoPong switches the automatic heartbeat answers off or on.
func (c *Client) SetNoAutoPong(v bool) {
	c.mu.Lock()
	c.Cfg.NoAutoPong = v
	c.mu.Unlock()
}

// Received returns a snapshot of the packets received so far.
func (c *Client) Received() []Recv {
	c.mu.Lock()
	defer c.mu.Unlock()
	return append([]Recv(nil), c.recv...)
}

// Messages returns the received message packets.
func (c *Client) Messages() []Recv {
	var out []Recv
	for _, r := range c.Received() {
		if r.P.Type == refcodec.Message {
			out = append(out, r)
		}
	}
	return out
}

func (c *Client) Errors() []string {
	c.mu.Lock()
	defer c.mu.Unlock()
	return append([]string(nil), c.errs...)
}

func (c *Client) Ended() string {
	c.mu.Lock()
	defer c.mu.Unlock()
	return c.ended
}

func (c *Client) Polls() []HTTPResult {
	c.mu.Lock()
	defer c.mu.Unlock()
	return append([]HTTPResult(nil), c.polls...)
}

func (c *Client) fail(format string, a ...any) {
	c.mu.Lock()
	c.errs = append(c.errs, fmt.Sprintf(format, a...))
	c.mu.Unlock()
}

// Connect performs the handshake.
func (w *World) Connect(cfg ClientCfg) (*Client, error) {
	if cfg.Rev == 0 {
		cfg.Rev = 4
	}
	if cfg.Transport == "" {
		cfg.Transport = "polling"
	}
	c := &Client{W: w, Cfg: cfg, postSem: make(chan struct{}, 1)}
	w.mu.Lock()
	w.clients = append(w.clients, c)
	w.mu.Unlock()
	var first []refcodec.Packet
	switch cfg.Transport {
	case "polling":
		res := w.Do(ReqSpec{Method: "GET", Target: c.path() + "?" + c.query(false, "polling"), Header: c.hdr()})
		if res.Err != nil {
			return c, res.Err
		}
		c.mu.Lock()
		c.polls = append(c.polls, res)
		c.mu.Unlock()
		if res.Status != 200 {
			return c, fmt.Errorf("handshake status %d body %q", res.Status, res.Body)
		}
		ps, err := c.DecodePoll(res)
		if err != nil {
			return c, fmt.Errorf("handshake payload: %w (body %q)", err, res.Body)
		}
		first = ps
	case "websocket":
		if err := c.dialWS(false); err != nil {
			return c, err
		}
		p, err := c.wsRead()
		if err != nil {
			return c, err
		}
		first = []refcodec.Packet{p}
	case "webtransport":
		if err := c.openWT(false); err != nil {
			return c, err
		}
		p, err := c.wtRead()
		if err != nil {
			return c, err
		}
		first = []refcodec.Packet{p}
	}
	if len(first) == 0 || first[0].Type != refcodec.Open {
		return c, fmt.Errorf("first packet is not open: %v", first)
	}
	c.Open.Raw = string(first[0].Data)
	if err := json.Unmarshal(first[0].Data, &c.Open); err != nil {
		return c, fmt.Errorf("open packet json: %w", err)
	}
	c.Sid = c.Open.Sid
	c.record(first, "handshake")
	return c, nil
}

func (c *Client) dialWS(withSid bool) error {
	d := ws.Dialer{
		NetDialContext:    func(ctx context.Context, network, addr string) (net.Conn, error) { return c.W.Dial() },
		EnableCompression: c.Cfg.WSCompress,
		HandshakeTimeout:  0,
	}
	u := "ws://engine" + c.path() + "?" + c.query(withSid, "websocket")
	conn, resp, err := d.Dial(u, c.hdr())
	if err != nil {
		if resp != nil {
			b, _ := io.ReadAll(resp.Body)
			return fmt.Errorf("ws dial: %w (status %d body %q)", err, resp.StatusCode, b)
		}
		return fmt.Errorf("ws dial: %w", err)
	}
	c.mu.Lock()
	c.WS = conn
	c.mu.Unlock()
	return nil
}

func (c *Client) wsRead() (refcodec.Packet, error) {
	mt, data, err := c.WS.ReadMessage()
	if err != nil {
		return refcodec.Packet{}, err
	}
	return refcodec.DecodeFrame(c.Cfg.Rev, mt == ws.BinaryMessage, data)
}

// WSWriteRaw sends one WebSocket message.
func (c *Client) WSWriteRaw(binary bool, data []byte) error {
	c.wsMu.Lock()
	defer c.wsMu.Unlock()
	mt := ws.TextMessage
	if binary {
		mt = ws.BinaryMessage
	}
	return c.WS.WriteMessage(mt, data)
}

// openWT builds an in-memory WebTransport connection and hands its server side to the
// engine the way OnWebTransportSession does after it has read the handshake message.
var wtFragSizes = []int{0, 1, 3, 0, 1000, 2}
var wtFragCounter atomic.Int64

func (c *Client) openWT(upgrade bool) error {
	cs, ss := fakenet.StreamPipe()
	// the byte stream is delivered in pieces of at most n bytes in both directions (QUIC hands
	// over whatever has arrived); n cycles through the list, 0 = unfragmented
	if n := wtFragSizes[int(wtFragCounter.Add(1))%len(wtFragSizes)]; n > 0 {
		cs.Conn.FragmentReads(n)
		ss.Conn.FragmentReads(n)
		c.W.Tap.Add(Event{Kind: "wt:fragmented", Sid: c.Sid, Str: fmt.Sprint(n)})
	}
	c.mu.Lock()
	c.WTStream, c.WTServerStream = cs, ss
	c.WT = webtrans.NewConn(nil, cs, false, 0, 0, nil, nil, nil)
	c.mu.Unlock()
	srvConn := webtrans.NewConn(nil, ss, true, 0, 0, nil, nil, nil)
	srvConn.SetReadLimit(c.W.Eng.Opts().MaxHttpBufferSize())
	c.W.Gate.Watch(ss)
	q := "EIO=4&transport=webtransport"
	if c.Cfg.Extra != "" {
		q += "&" + c.Cfg.Extra
	}
	req := httptest.NewRequest("CONNECT", "https://engine"+c.path()+"?"+q, nil)
	req.Proto = "webtransport"
	cctx, cancel := context.WithCancel(context.Background())
	c.cancel = cancel
	req = req.WithContext(cctx)
	ctx := types.NewHttpContext(httptest.NewRecorder(), req)
	ctx.WebTransport = &types.WebTransportConn{EventEmitter: events.New(), Conn: srvConn}
	if !upgrade {
		ctx.Query().Set("EIO", "4")
		if cm, t := c.W.Eng.Handshake(transports.WEBTRANSPORT, ctx); t == nil {
			return fmt.Errorf("webtransport handshake refused: %+v", cm)
		}
		return nil
	}
	sock, ok := c.W.Eng.Clients().Load(c.Sid)
	if !ok {
		ss.CloseBoth()
		return errors.New("webtransport upgrade: unknown sid")
	}
	if sock.Upgrading() || sock.Upgraded() {
		ss.CloseBoth()
		return errors.New("webtransport upgrade: session upgrading or upgraded")
	}
	t, err := c.W.Eng.CreateTransport(transports.WEBTRANSPORT, ctx)
	if err != nil {
		return err
	}
	t.SetPerMessageDeflate(c.W.Eng.Opts().PerMessageDeflate())
	sock.MaybeUpgrade(t)
	return nil
}

func (c *Client) wtRead() (refcodec.Packet, error) {
	mt, data, err := c.WT.ReadMessage()
	if err != nil {
		return refcodec.Packet{}, err
	}
	return refcodec.DecodeFrame(4, mt == webtrans.BinaryMessage, data)
}

func (c *Client) WTWriteRaw(binary bool, data []byte) error {
	c.wtMu.Lock()
	defer c.wtMu.Unlock()
	mt := webtrans.TextMessage
	if binary {
		mt = webtrans.BinaryMessage
	}
	return c.WT.WriteMessage(mt, data)
}

// payloadForm returns the payload form used for POST bodies.
func (c *Client) payloadForm(ps []refcodec.Packet) (form string, contentType string) {
	if c.Cfg.Rev == 4 {
		return "v4", "text/plain;charset=UTF-8"
	}
	if !c.Cfg.B64 && !c.Cfg.JSONP {
		for _, p := range ps {
			if p.Binary {
				return "v3b", "application/octet-stream"
			}
		}
	}
	return "v3s", "text/plain;charset=UTF-8"
}

// PostStart submits packets on the polling transport without waiting.
func (c *Client) PostStart(ps []refcodec.Packet) *Exchange {
	form, ct := c.payloadForm(ps)
	body := refcodec.EncodePayload(form, ps)
	h := c.hdr()
	if c.Cfg.JSONP {
		body = refcodec.JSONPBody(body)
		ct = "application/x-www-form-urlencoded"
	}
	h.Set("Content-Type", ct)
	return c.W.Start(ReqSpec{Method: "POST", Target: c.path() + "?" + c.query(true, "polling"), Header: h, Body: body, Chunked: c.Cfg.ChunkedPost})
}

// Post submits packets and waits for the acknowledgement.
// A conformant client has at most one data request in flight: calls are serialised.
func (c *Client) Post(ps ...refcodec.Packet) HTTPResult {
	// a channel, not a mutex: waiting for it must be a durable block for the bubble
	c.postSem <- struct{}{}
	defer func() { <-c.postSem }()
	return c.PostStart(ps).Wait()
}

// PollStart issues a poll request.
func (c *Client) PollStart() *Exchange {
	x := c.W.Start(ReqSpec{Method: "GET", Target: c.path() + "?" + c.query(true, "polling"), Header: c.hdr()})
	c.mu.Lock()
	c.curPoll = x
	c.mu.Unlock()
	return x
}

// PollOnce polls and decodes.
func (c *Client) PollOnce() ([]refcodec.Packet, HTTPResult, error) {
	res := c.PollStart().Wait()
	c.mu.Lock()
	c.polls = append(c.polls, res)
	c.npoll++
	n := c.npoll
	c.mu.Unlock()
	if res.Err != nil {
		return nil, res, res.Err
	}
	if res.Status != 200 {
		return nil, res, fmt.Errorf("poll status %d", res.Status)
	}
	ps, err := c.DecodePoll(res)
	if err != nil {
		return ps, res, err
	}
	c.record(ps, fmt.Sprintf("poll#%d", n))
	return ps, res, nil
}

// Send submits packets on whatever transport the client currently uses.
func (c *Client) Send(ps ...refcodec.Packet) error {
	c.mu.Lock()
	tr := c.Cfg.Transport
	c.mu.Unlock()
	c.mu.Lock()
	hasWS, hasWT := c.WS != nil, c.WT != nil
	c.mu.Unlock()
	switch {
	case hasWS && tr == "websocket":
		for _, p := range ps {
			b, d := refcodec.EncodeFrame(c.Cfg.Rev, p, c.Cfg.B64)
			if err := c.WSWriteRaw(b, d); err != nil {
				return err
			}
		}
		return nil
	case hasWT && tr == "webtransport":
		for _, p := range ps {
			b, d := refcodec.EncodeFrame(4, p, c.Cfg.B64)
			if err := c.WTWriteRaw(b, d); err != nil {
				return err
			}
		}
		return nil
	}
	res := c.Post(ps...)
	if res.Err != nil {
		return res.Err
	}
	if res.Status != 200 || string(res.Body) != "ok" {
		return fmt.Errorf("post status %d body %q", res.Status, res.Body)
	}
	return nil
}

// StartReader runs the conformant receive loop of the current transport in a goroutine:
// polls continuously (or reads frames), records packets, answers v4 pings.
func (c *Client) StartReader() {
	c.mu.Lock()
	c.readerDone = make(chan struct{})
	done := c.readerDone
	startPinger := c.Cfg.Rev == 3 && !c.Cfg.NoAutoPong && !c.pinger && c.Open.PingInterval > 0
	if startPinger {
		c.pinger = true
	}
	c.mu.Unlock()
	go func() {
		defer close(done)
		c.readLoop()
	}()
	if startPinger {
		// revision 3: the client pings every pingInterval
		go func() {
			for {
				time.Sleep(time.Duration(c.Open.PingInterval) * time.Millisecond)
				if c.isStopped() || c.Ended() != "" {
					return
				}
				if err := c.Send(refcodec.Packet{Type: refcodec.Ping}); err != nil {
					return
				}
			}
		}()
	}
}

// WaitReader blocks until the reader loop has ended.
func (c *Client) WaitReader() {
	c.mu.Lock()
	d := c.readerDone
	c.mu.Unlock()
	if d != nil {
		<-d
	}
}

func (c *Client) isStopped() bool {
	c.mu.Lock()
	defer c.mu.Unlock()
	return c.stopped
}

func (c *Client) end(why string) {
	c.mu.Lock()
	if c.ended == "" {
		c.ended = why
	}
	c.mu.Unlock()
}

func (c *Client) handle(ps []refcodec.Packet) (closed bool) {
	for _, p := range ps {
		switch p.Type {
		case refcodec.Close:
			return true
		case refcodec.Ping:
			c.mu.Lock()
			noPong := c.Cfg.NoAutoPong
			c.mu.Unlock()
			if c.Cfg.Rev == 4 && !noPong {
				pong := refcodec.Packet{Type: refcodec.Pong, Data: p.Data}
				c.mu.Lock()
				tr := c.Cfg.Transport
				c.mu.Unlock()
				if tr == "polling" {
					go c.Post(pong)
				} else {
					c.Send(pong)
				}
			}
		}
	}
	return false
}

func (c *Client) readLoop() {
	for !c.isStopped() {
		c.mu.Lock()
		tr := c.Cfg.Transport
		c.mu.Unlock()
		switch tr {
		case "polling":
			ps, res, err := c.PollOnce()
			if c.isStopped() {
				c.end("stopped")
				return
			}
			if err != nil {
				c.end(fmt.Sprintf("poll failed: %v (status %d)", err, res.Status))
				return
			}
			if c.handle(ps) {
				c.end("close packet")
				return
			}
			c.mu.Lock()
			pz := c.pausing
			c.mu.Unlock()
			if pz {
				return
			}
		case "websocket":
			p, err := c.wsRead()
			if err != nil {
				c.end("ws: " + err.Error())
				return
			}
			c.record([]refcodec.Packet{p}, "ws")
			if c.handle([]refcodec.Packet{p}) {
				c.end("close packet")
				return
			}
		case "webtransport":
			p, err := c.wtRead()
			if err != nil {
				c.end("wt: " + err.Error())
				return
			}
			c.record([]refcodec.Packet{p}, "wt")
			if c.handle([]refcodec.Packet{p}) {
				c.end("close packet")
				return
			}
		}
	}
	c.end("stopped")
}

// Stop ends the reader loop and drops every connection of the client.
func (c *Client) Stop() {
	c.mu.Lock()
	c.stopped = true
	x := c.curPoll
	c.mu.Unlock()
	if x != nil && x.Conn != nil {
		x.Conn.Close()
	}
	if c.WS != nil {
		c.WS.Close()
	}
	if c.WTStream != nil {
		c.WTStream.CloseBoth()
	}
	if c.cancel != nil {
		c.cancel()
	}
}

// UpgradeTo performs the conformant upgrade dance to "websocket" or "webtransport": open
// the candidate with the session id, send the probe ping, wait for the probe pong, pause
// the polling transport (its pending poll is released by the server's noop), send the
// upgrade packet on the candidate and continue reading there.  hook, if not nil, runs
// between the probe pong and the pause.
func (c *Client) UpgradeTo(target string, hook func()) error {
	probe := refcodec.Text(refcodec.Ping, "probe")
	readCand := c.wsRead
	writeCand := c.WSWriteRaw
	rev := c.Cfg.Rev
	switch target {
	case "websocket":
		if err := c.dialWS(true); err != nil {
			return err
		}
	case "webtransport":
		if err := c.openWT(true); err != nil {
			return err
		}
		readCand, writeCand, rev = c.wtRead, c.WTWriteRaw, 4
	}
	if !c.Cfg.ProbeAtOnce {
		// network latency: the probe reaches the server after it has finished accepting the candidate
		time.Sleep(time.Millisecond)
	}
	b, d := refcodec.EncodeFrame(rev, probe, c.Cfg.B64)
	if err := writeCand(b, d); err != nil {
		return err
	}
	p, err := readCand()
	if err != nil {
		return fmt.Errorf("waiting for probe pong: %w", err)
	}
	if p.Type != refcodec.Pong || string(p.Data) != "probe" {
		return fmt.Errorf("expected probe pong, got %v", p)
	}
	c.record([]refcodec.Packet{p}, "candidate")
	if hook != nil {
		hook()
	}
	c.mu.Lock()
	c.pausing = true
	running := c.readerDone != nil
	c.mu.Unlock()
	if running {
		c.WaitReader()
	}
	if e := c.Ended(); e != "" {
		return fmt.Errorf("polling transport ended during upgrade: %s", e)
	}
	b, d = refcodec.EncodeFrame(rev, refcodec.Packet{Type: refcodec.Upgrade}, c.Cfg.B64)
	if err := writeCand(b, d); err != nil {
		return err
	}
	c.mu.Lock()
	c.pausing = false
	c.Cfg.Transport = target
	c.mu.Unlock()
	if running {
		c.StartReader()
	}
	return nil
}

// Candidate returns a client object bound to an existing session id, for driving an
// upgrade candidate by hand.
func (w *World) Candidate(sid string, rev int) *Client {
	c := &Client{W: w, Cfg: ClientCfg{Rev: rev, Transport: "polling"}, Sid: sid, postSem: make(chan struct{}, 1)}
	w.mu.Lock()
	w.cands = append(w.cands, c)
	w.mu.Unlock()
	return c
}

// StopCandidates drops every connection opened through Candidate().
func (w *World) StopCandidates() {
	w.mu.Lock()
	cs := w.cands
	w.cands = nil
	w.mu.Unlock()
	for _, c := range cs {
		c.Stop()
	}
}

// DialCandidateWS opens a WebSocket candidate for the client's session id.
func (c *Client) DialCandidateWS() error { return c.dialWS(true) }

// OpenCandidateWT opens an in-memory WebTransport candidate for the client's session id.
func (c *Client) OpenCandidateWT() error { return c.openWT(true) }

// Pause stops the polling loop after its pending poll has returned.
func (c *Client) Pause() {
	c.mu.Lock()
	c.pausing = true
	running := c.readerDone != nil
	c.mu.Unlock()
	if running {
		c.WaitReader()
	}
}

// Resume restarts the polling loop after Pause.
func (c *Client) Resume() {
	c.mu.Lock()
	c.pausing = false
	c.mu.Unlock()
	if c.Ended() == "" {
		c.StartReader()
	}
}

// WaitFor waits at most d (virtual time inside a bubble) for the response.
func (x *Exchange) WaitFor(d time.Duration) (HTTPResult, bool) {
	select {
	case <-x.done:
		return x.Res, true
	case <-time.After(d):
		return HTTPResult{}, false
	}
}
