package rig

import (
	"bufio"
	"bytes"
	"fmt"
	"io"
	"log"
	"net"
	"net/http"
	"runtime"
	"strings"
	"sync"
	"sync/atomic"
	"testing/synctest"
	"time"

	"github.com/zishang520/engine.io-go-parser/packet"
	"github.com/zishang520/engine.io/v2/config"
	"github.com/zishang520/engine.io/v2/engine"
	"github.com/zishang520/engine.io/v2/types"

	"verifh/fakenet"
)

// Event is one entry of the tap log.
type Event struct {
	Seq  int64
	At   time.Duration // virtual time since the world was created
	Sid  string
	Kind string // connection, close, message, packet, packetCreate, flush, drain, heartbeat, upgrading, upgrade, error, srv:flush, srv:drain, connection_error, initial_headers, headers, state, req:enter, req:return, ...
	Str  string
	Bin  bool
	Args []any
	// ReadyState of the session sampled when the event was recorded ("" if n/a)
	State string
	// Gid is the goroutine that recorded the event: two events of one goroutine are ordered by
	// the program, two events of different goroutines at one virtual instant need not be
	Gid int64
}

// Goid returns the id of the calling goroutine (parsed from its stack header).
func Goid() int64 {
	var b [40]byte
	n := runtime.Stack(b[:], false)
	var id int64
	for _, c := range b[len("goroutine "):n] {
		if c < '0' || c > '9' {
			break
		}
		id = id*10 + int64(c-'0')
	}
	return id
}

func (e Event) String() string {
	s := e.Str
	if len(s) > 60 {
		s = s[:60] + "…"
	}
	return fmt.Sprintf("#%d %v %s %s %q state=%s", e.Seq, e.At, e.Sid, e.Kind, s, e.State)
}

// Tap is a thread-safe event log with one sequence counter.
type Tap struct {
	mu     sync.Mutex
	seq    int64
	start  time.Time
	events []Event
}

func (t *Tap) Add(e Event) int64 {
	gid := Goid()
	t.mu.Lock()
	defer t.mu.Unlock()
	t.seq++
	e.Seq = t.seq
	e.At = time.Since(t.start)
	e.Gid = gid
	t.events = append(t.events, e)
	return e.Seq
}

func (t *Tap) Events() []Event {
	t.mu.Lock()
	defer t.mu.Unlock()
	return append([]Event(nil), t.events...)
}

// Of returns the events of one session.
func (t *Tap) Of(sid string, kinds ...string) []Event {
	var out []Event
	for _, e := range t.Events() {
		if e.Sid != sid {
			continue
		}
		if len(kinds) == 0 {
			out = append(out, e)
			continue
		}
		for _, k := range kinds {
			if e.Kind == k {
				out = append(out, e)
			}
		}
	}
	return out
}

// Last returns the most recent event of a session with the given kind and text.
func (t *Tap) Last(sid, kind, str string) (Event, bool) {
	t.mu.Lock()
	defer t.mu.Unlock()
	for i := len(t.events) - 1; i >= 0; i-- {
		e := t.events[i]
		if e.Sid == sid && e.Kind == kind && e.Str == str {
			return e, true
		}
	}
	return Event{}, false
}

// Dump renders the last n events (all sessions) for a violation message.
func (t *Tap) Dump(n int) string {
	evs := t.Events()
	if len(evs) > n {
		evs = evs[len(evs)-n:]
	}
	var b strings.Builder
	for _, e := range evs {
		fmt.Fprintf(&b, "\n    g%d %s", e.Gid, e.String())
	}
	return b.String()
}

func (t *Tap) Now() time.Duration { return time.Since(t.start) }

// Req records one HTTP exchange as seen by the wrapping handler.
type Req struct {
	ID            int64
	Method        string
	URL           string
	Sid           string
	EnterSeq      int64
	ReturnSeq     int64 // 0 while the handler has not returned
	WriteHeaders  int
	Writes        int
	Status        int
	Header        http.Header
	Body          []byte
	Hijacked      bool
	FirstWriteSeq int64
	// WritesAfterReturn counts WriteHeader/Write calls made after the handler had returned
	WritesAfterReturn int
}

type recWriter struct {
	http.ResponseWriter
	w   *World
	req *Req
}

func (rw *recWriter) WriteHeader(code int) {
	rw.w.mu.Lock()
	if rw.req.ReturnSeq != 0 {
		rw.req.WritesAfterReturn++
	}
	rw.req.WriteHeaders++
	if rw.req.WriteHeaders == 1 {
		rw.req.Status = code
		rw.req.Header = rw.ResponseWriter.Header().Clone()
	}
	hold := rw.w.HoldHeader
	snapshot := *rw.req
	rw.w.mu.Unlock()
	if hold != nil {
		// a slow connection: the scenario may keep this header write waiting
		if ch := hold(snapshot, code); ch != nil {
			<-ch
			rw.w.mu.Lock()
			if rw.req.ReturnSeq != 0 {
				// the handler returned while this header write was still in progress
				rw.req.WritesAfterReturn++
			}
			rw.w.mu.Unlock()
		}
	}
	rw.ResponseWriter.WriteHeader(code)
}

func (rw *recWriter) Write(b []byte) (int, error) {
	seq := rw.w.Tap.Add(Event{Kind: "req:write", Sid: rw.req.Sid, Str: fmt.Sprintf("req %d %d bytes", rw.req.ID, len(b))})
	rw.w.mu.Lock()
	if rw.req.ReturnSeq != 0 {
		rw.req.WritesAfterReturn++
	}
	rw.req.Writes++
	if rw.req.FirstWriteSeq == 0 {
		rw.req.FirstWriteSeq = seq
	}
	rw.req.Body = append(rw.req.Body, b...)
	rw.w.mu.Unlock()
	return rw.ResponseWriter.Write(b)
}

func (rw *recWriter) Hijack() (net.Conn, *bufio.ReadWriter, error) {
	rw.w.mu.Lock()
	rw.req.Hijacked = true
	rw.w.mu.Unlock()
	return rw.ResponseWriter.(http.Hijacker).Hijack()
}

func (rw *recWriter) Flush() {
	if f, ok := rw.ResponseWriter.(http.Flusher); ok {
		f.Flush()
	}
}

// Options configures a World.
type Options struct {
	Server *config.ServerOptions
	// UseHttpServer mounts the engine on a types.HttpServer via Attach (path from AttachOpts).
	UseHttpServer bool
	AttachOpts    any
	// Default handler marker for requests the mux does not route to the engine.
	OnConnection func(s engine.Socket)
	// PreHeaders are set on the response by an outer handler before the engine is entered (an
	// application that wraps the engine, e.g. one that has already decided on Vary or a
	// security header).
	PreHeaders http.Header
}

// World is one engine server behind a real net/http server on an in-memory listener.
type World struct {
	mu   sync.Mutex
	Tap  *Tap
	Eng  engine.Server
	Mux  *types.HttpServer
	HTTP *http.Server
	L    *fakenet.Listener
	Gate *Gate

	preHeaders  http.Header
	Sockets     map[string]engine.Socket
	SockOrder   []string
	Reqs        []*Req
	reqID       atomic.Int64
	ErrLog      bytes.Buffer
	errMu       sync.Mutex
	DefaultHits atomic.Int64

	// HoldHeader, if set (SetHoldHeader), is asked on every WriteHeader; a non-nil channel keeps
	// that header write waiting until the channel is closed.
	HoldHeader func(req Req, code int) chan struct{}

	onConn func(engine.Socket)
	// OnHook, if set, sees every hook arrival routed to this world.
	OnHook  func(point string, args []any)
	cands   []*Client
	clients []*Client
}

type lockedWriter struct {
	mu *sync.Mutex
	b  *bytes.Buffer
}

func (l lockedWriter) Write(p []byte) (int, error) {
	l.mu.Lock()
	defer l.mu.Unlock()
	return l.b.Write(p)
}

// DataString renders a packet's data without consuming it when possible.
func DataString(r io.Reader) (string, bool) {
	switch v := r.(type) {
	case nil:
		return "", false
	case *types.StringBuffer:
		return string(v.Bytes()), false
	case *types.BytesBuffer:
		return string(v.Bytes()), true
	case *strings.Reader:
		cp := *v
		b, _ := io.ReadAll(&cp)
		return string(b), false
	case *bytes.Reader:
		cp := *v
		b, _ := io.ReadAll(&cp)
		return string(b), true
	case *bytes.Buffer:
		return string(v.Bytes()), true
	}
	return fmt.Sprintf("<%T>", r), true
}

// NewWorld must be called inside a bubble.
func NewWorld(o Options) *World {
	w := &World{Tap: &Tap{start: time.Now()}, Sockets: map[string]engine.Socket{}, Gate: NewGate(), onConn: o.OnConnection, preHeaders: o.PreHeaders}
	var so any
	if o.Server != nil {
		so = o.Server
	}
	var handler http.Handler
	if o.UseHttpServer {
		w.Mux = types.NewWebServer(http.HandlerFunc(func(rw http.ResponseWriter, r *http.Request) {
			w.DefaultHits.Add(1)
			rw.Header().Set("X-Default-Handler", "1")
			rw.WriteHeader(http.StatusTeapot)
			io.WriteString(rw, "default handler")
		}))
		w.Eng = engine.NewServer(so)
		w.Eng.Attach(w.Mux, o.AttachOpts)
		handler = w.Mux
	} else {
		w.Eng = engine.NewServer(so)
		handler = w.Eng
	}
	w.wire()
	w.L = fakenet.NewListener()
	w.HTTP = &http.Server{
		Handler:  w.wrap(handler),
		ErrorLog: log.New(lockedWriter{&w.errMu, &w.ErrLog}, "", 0),
	}
	go w.HTTP.Serve(w.L)
	return w
}

func (w *World) wrap(h http.Handler) http.Handler {
	return http.HandlerFunc(func(rw http.ResponseWriter, r *http.Request) {
		req := &Req{ID: w.reqID.Add(1), Method: r.Method, URL: r.URL.String(), Sid: r.URL.Query().Get("sid")}
		req.EnterSeq = w.Tap.Add(Event{Kind: "req:enter", Sid: req.Sid, Str: fmt.Sprintf("req %d %s %s", req.ID, r.Method, r.URL.RawQuery)})
		w.mu.Lock()
		w.Reqs = append(w.Reqs, req)
		w.mu.Unlock()
		defer func() {
			seq := w.Tap.Add(Event{Kind: "req:return", Sid: req.Sid, Str: fmt.Sprintf("req %d", req.ID)})
			w.mu.Lock()
			req.ReturnSeq = seq
			w.mu.Unlock()
		}()
		for k, vs := range w.preHeaders {
			for _, v := range vs {
				rw.Header().Add(k, v)
			}
		}
		h.ServeHTTP(&recWriter{ResponseWriter: rw, w: w, req: req}, r)
	})
}

// SetHoldHeader installs (or removes, with nil) the header-write gate.
func (w *World) SetHoldHeader(f func(req Req, code int) chan struct{}) {
	w.mu.Lock()
	w.HoldHeader = f
	w.mu.Unlock()
}

// Requests returns a snapshot of the recorded exchanges.
func (w *World) Requests() []Req {
	w.mu.Lock()
	defer w.mu.Unlock()
	out := make([]Req, len(w.Reqs))
	for i, r := range w.Reqs {
		out[i] = *r
		out[i].Body = append([]byte(nil), r.Body...)
	}
	return out
}

func (w *World) ErrorLog() string {
	w.errMu.Lock()
	defer w.errMu.Unlock()
	return w.ErrLog.String()
}

func (w *World) wire() {
	srv := w.Eng
	srv.On("connection", func(a ...any) {
		s := a[0].(engine.Socket)
		sid := s.Id()
		w.mu.Lock()
		w.Sockets[sid] = s
		w.SockOrder = append(w.SockOrder, sid)
		w.mu.Unlock()
		w.Gate.Watch(s)
		if t := s.Transport(); t != nil {
			w.Gate.Watch(t)
		}
		w.Tap.Add(Event{Kind: "connection", Sid: sid, State: s.ReadyState(), Str: s.Transport().Name()})
		add := func(kind string, f func(a []any) (string, bool)) {
			s.On(types.EventName(kind), func(a ...any) {
				str, bin := "", false
				if f != nil {
					str, bin = f(a)
				}
				w.Tap.Add(Event{Kind: kind, Sid: sid, State: s.ReadyState(), Str: str, Bin: bin, Args: a})
			})
		}
		add("close", func(a []any) (string, bool) {
			if len(a) > 0 {
				return fmt.Sprint(a[0]), false
			}
			return "", false
		})
		add("message", func(a []any) (string, bool) { return DataString(a[0].(io.Reader)) })
		add("data", func(a []any) (string, bool) { return DataString(a[0].(io.Reader)) })
		pk := func(a []any) (string, bool) {
			p := a[0].(*packet.Packet)
			d, b := DataString(p.Data)
			return string(p.Type) + ":" + d, b
		}
		add("packet", pk)
		add("packetCreate", pk)
		add("flush", func(a []any) (string, bool) { return fmt.Sprintf("%d packets", len(a[0].([]*packet.Packet))), false })
		add("drain", nil)
		add("heartbeat", nil)
		add("upgrading", nil)
		add("upgrade", nil)
		add("error", nil)
		add("open", nil)
		if w.onConn != nil {
			w.onConn(s)
		}
	})
	srv.On("connection_error", func(a ...any) {
		em := a[0].(*types.ErrorMessage)
		w.Tap.Add(Event{Kind: "connection_error", Str: fmt.Sprintf("%d %s", em.Code, em.Message), Args: a})
	})
	srv.On("flush", func(a ...any) {
		w.Tap.Add(Event{Kind: "srv:flush", Sid: a[0].(engine.Socket).Id(), Args: a})
	})
	srv.On("drain", func(a ...any) {
		w.Tap.Add(Event{Kind: "srv:drain", Sid: a[0].(engine.Socket).Id(), Args: a})
	})
	srv.On("initial_headers", func(a ...any) {
		w.Tap.Add(Event{Kind: "initial_headers", Sid: a[1].(*types.HttpContext).Query().Peek("sid"), Args: a})
	})
	srv.On("headers", func(a ...any) {
		w.Tap.Add(Event{Kind: "headers", Sid: a[1].(*types.HttpContext).Query().Peek("sid"), Args: a})
	})
	// ready-state transitions through the hook
	w.Gate.Watch(w.Eng)
	w.Gate.Observe = func(point string, args []any) {
		switch point {
		case "socket.readyState":
			s := args[0].(engine.Socket)
			w.Tap.Add(Event{Kind: "state", Sid: s.Id(), Str: args[1].(string) + ">" + args[2].(string)})
		case "server.Handshake.afterNewSocket":
			s := args[0].(engine.Socket)
			w.Gate.Watch(s)
			if t := s.Transport(); t != nil {
				w.Gate.Watch(t)
			}
		case "socket.MaybeUpgrade.enter":
			w.Gate.Watch(args[1])
		case "wt.nilSession.CloseWithError":
			// stands in for the QUIC session: closing it tears the stream down
			if st, ok := args[0].(*fakenet.Stream); ok {
				w.Tap.Add(Event{Kind: "wt:session-close", Str: fmt.Sprintf("code %v %q", args[1], args[2])})
				st.CloseBoth()
			}
		}
		if w.OnHook != nil {
			w.OnHook(point, args)
		}
	}
}

// Socket returns the n-th session created (0-based) or nil.
func (w *World) Socket(n int) engine.Socket {
	w.mu.Lock()
	defer w.mu.Unlock()
	if n >= len(w.SockOrder) {
		return nil
	}
	return w.Sockets[w.SockOrder[n]]
}

// SocketIDs returns the ids of the announced sessions in order.
func (w *World) SocketIDs() []string {
	w.mu.Lock()
	defer w.mu.Unlock()
	return append([]string(nil), w.SockOrder...)
}

func (w *World) SocketByID(sid string) engine.Socket {
	w.mu.Lock()
	defer w.mu.Unlock()
	return w.Sockets[sid]
}

// Shutdown closes the HTTP server and every connection (not the engine).
func (w *World) Shutdown() {
	w.HTTP.Close()
	w.L.Close()
	w.Gate.Close()
}

// Finish ends a scenario so that nothing of it survives the bubble: every client actor is
// stopped, every session closed, the HTTP server shut down, and virtual time is advanced
// past every bounded timer and sleeping loop (heartbeats, close and upgrade timeouts, the
// client's own pinger).  Goroutines that are still blocked when a bubble's main function
// returns stay parked for ever and pin the whole world in memory.
func (w *World) Finish() {
	w.mu.Lock()
	cs := append([]*Client(nil), w.clients...)
	w.clients = nil
	w.mu.Unlock()
	for _, c := range cs {
		c.Stop()
	}
	w.StopCandidates()
	func() {
		defer func() { recover() }()
		w.Eng.Close()
	}()
	w.Shutdown()
	time.Sleep(3 * time.Minute)
	synctest.Wait()
}

// FinishReal is Finish for worlds that run outside a bubble (real time): no waiting.
func (w *World) FinishReal() {
	w.mu.Lock()
	cs := append([]*Client(nil), w.clients...)
	w.clients = nil
	w.mu.Unlock()
	for _, c := range cs {
		c.Stop()
	}
	w.StopCandidates()
	func() {
		defer func() { recover() }()
		w.Eng.Close()
	}()
	w.Shutdown()
}

// Dial opens a raw connection to the server.
func (w *World) Dial() (*fakenet.Conn, error) { return w.L.Dial() }
