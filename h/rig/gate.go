package rig

import (
	"runtime"
	"sync"
	"sync/atomic"

	"github.com/zishang520/engine.io/v2/engine"
	"github.com/zishang520/engine.io/v2/transports"
	"github.com/zishang520/engine.io/v2/verifhook"
)

// Points are the hook points compiled into /repo under the "verif" tag.
var Points = []string{
	"socket.OnClose.window", "socket.Close.window", "socket.Close.beforeDrainWait", "socket.onDrain.afterShift", "socket.doFlush.batchTaken", "map.slowPath", "socket.readyState",
	"server.Handshake.afterNewSocket", "server.onWebSocket.beforeMaybeUpgrade",
	"socket.MaybeUpgrade.enter", "socket.upgrade.check.window",
	"polling.send.start", "polling.write.requestTaken", "polling.onPollRequest.beforePublish", "polling.onDataRequest.beforePublish", "ws.send.start", "wt.send.start",
	"timer.interval.afterTick", "timer.Stop.afterStop", "socket.ping.between",
	"wt.nilSession.CloseWithError",
	"transport.Close.window", "polling.DoClose.writableSeen", "polling.DoClose.beforeOnClose",
}

// Gate receives the hook calls whose first argument was registered with it.
type Gate struct {
	mu     sync.Mutex
	armed  map[string]int // point -> remaining arrivals to park (-1 = all)
	parked []*Parked
	// Observe, if set, is called for every arrival (armed or not), outside the gate lock.
	Observe func(point string, args []any)
	hits    map[string]int
	watched []any
}

// Parked is a goroutine held at a hook point.
type Parked struct {
	Point   string
	Args    []any
	release chan struct{}
	done    atomic.Bool
}

func (p *Parked) Release() {
	if p.done.CompareAndSwap(false, true) {
		close(p.release)
	}
}

var registry sync.Map   // object identity -> *Gate
var globalHits sync.Map // point -> *atomic.Int64

func init() {
	for _, pt := range Points {
		pt := pt
		c := &atomic.Int64{}
		globalHits.Store(pt, c)
		verifhook.Set(pt, func(args ...any) {
			c.Add(1)
			if len(args) == 0 {
				return
			}
			if g, ok := registry.Load(args[0]); ok {
				g.(*Gate).arrive(pt, args)
				return
			}
			if pr, ok := args[0].(interface{ Proto() transports.Transport }); ok && pr.Proto() != nil {
				// the polling core of a JSONP transport: the session knows the outer object
				if g, ok := registry.Load(pr.Proto()); ok {
					g.(*Gate).arrive(pt, args)
					return
				}
			}
			if s, ok := args[0].(interface{ Server() engine.BaseServer }); ok {
				// a session not yet announced: route by its server
				if g, ok := registry.Load(s.Server().Proto()); ok {
					g.(*Gate).arrive(pt, args)
				}
			}
		})
	}
}

// HookHits returns how often each hook point was reached in this process.
func HookHits() map[string]int64 {
	out := map[string]int64{}
	globalHits.Range(func(k, v any) bool {
		if n := v.(*atomic.Int64).Load(); n > 0 {
			out[k.(string)] = n
		}
		return true
	})
	return out
}

func NewGate() *Gate { return &Gate{armed: map[string]int{}, hits: map[string]int{}} }

// Watch routes hook calls whose first argument is obj to this gate.
func (g *Gate) Watch(obj any) {
	registry.Store(obj, g)
	g.mu.Lock()
	g.watched = append(g.watched, obj)
	g.mu.Unlock()
}
func (g *Gate) Unwatch(obj any) { registry.Delete(obj) }

// Close releases everything parked and forgets every watched object.
func (g *Gate) Close() {
	g.ReleaseAll()
	g.mu.Lock()
	ws := g.watched
	g.watched = nil
	g.mu.Unlock()
	for _, o := range ws {
		registry.Delete(o)
	}
}

// Arm makes the next n arrivals at point park (n < 0: all).
func (g *Gate) Arm(point string, n int) {
	g.mu.Lock()
	g.armed[point] = n
	g.mu.Unlock()
}

func (g *Gate) Disarm(point string) {
	g.mu.Lock()
	delete(g.armed, point)
	g.mu.Unlock()
}

func (g *Gate) Hits(point string) int {
	g.mu.Lock()
	defer g.mu.Unlock()
	return g.hits[point]
}

func (g *Gate) arrive(point string, args []any) {
	g.mu.Lock()
	g.hits[point]++
	obs := g.Observe
	n, armed := g.armed[point]
	var p *Parked
	if armed && n != 0 {
		if n > 0 {
			g.armed[point] = n - 1
		}
		p = &Parked{Point: point, Args: args, release: make(chan struct{})}
		g.parked = append(g.parked, p)
	}
	g.mu.Unlock()
	if obs != nil {
		obs(point, args)
	}
	if p != nil {
		<-p.release
	}
}

// Parked returns the goroutines currently held (released ones removed).
func (g *Gate) Parked() []*Parked {
	g.mu.Lock()
	defer g.mu.Unlock()
	out := g.parked[:0:0]
	for _, p := range g.parked {
		if !p.done.Load() {
			out = append(out, p)
		}
	}
	g.parked = out
	return append([]*Parked(nil), out...)
}

// ReleaseAll releases every parked goroutine and disarms all points.
func (g *Gate) ReleaseAll() {
	g.mu.Lock()
	g.armed = map[string]int{}
	ps := g.parked
	g.parked = nil
	g.mu.Unlock()
	for _, p := range ps {
		p.Release()
	}
}

// Perturb yields the processor a few times (used where parking is not allowed).
func Perturb(n int) {
	for i := 0; i < n; i++ {
		runtime.Gosched()
	}
}
