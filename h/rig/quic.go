package rig

import (
	"bytes"
	"context"
	"crypto/ecdsa"
	"crypto/elliptic"
	"crypto/rand"
	"crypto/tls"
	"crypto/x509"
	"crypto/x509/pkix"
	"fmt"
	"log/slog"
	"math/big"
	"net"
	"net/http"
	"sync"
	"time"

	"github.com/quic-go/quic-go/http3"
	"github.com/zishang520/engine.io/v2/engine"
	"github.com/zishang520/engine.io/v2/types"
	webtrans "github.com/zishang520/engine.io/v2/webtransport"
	wt "github.com/zishang520/webtransport-go"
)

// QuicWorld is a real WebTransport server on 127.0.0.1 (real time, real UDP) in front of
// an engine: the only way to execute engine.Server.OnWebTransportSession.
type QuicWorld struct {
	Eng    engine.Server
	Srv    *wt.Server
	Addr   string
	logMu  sync.Mutex
	LogBuf bytes.Buffer
	pc     net.PacketConn
}

type lockedBuf struct {
	mu *sync.Mutex
	b  *bytes.Buffer
}

func (l lockedBuf) Write(p []byte) (int, error) {
	l.mu.Lock()
	defer l.mu.Unlock()
	return l.b.Write(p)
}

func selfSigned() (tls.Certificate, error) {
	key, err := ecdsa.GenerateKey(elliptic.P256(), rand.Reader)
	if err != nil {
		return tls.Certificate{}, err
	}
	tmpl := &x509.Certificate{
		SerialNumber: big.NewInt(1), Subject: pkix.Name{CommonName: "verif"},
		NotBefore: time.Now().Add(-time.Hour), NotAfter: time.Now().Add(24 * time.Hour),
		KeyUsage: x509.KeyUsageDigitalSignature, ExtKeyUsage: []x509.ExtKeyUsage{x509.ExtKeyUsageServerAuth},
		IPAddresses: []net.IP{net.ParseIP("127.0.0.1")}, DNSNames: []string{"localhost"},
	}
	der, err := x509.CreateCertificate(rand.Reader, tmpl, tmpl, &key.PublicKey, key)
	if err != nil {
		return tls.Certificate{}, err
	}
	return tls.Certificate{Certificate: [][]byte{der}, PrivateKey: key}, nil
}

// NewQuicWorld starts the server; an error means loopback UDP is unavailable (lane skipped).
func NewQuicWorld(eng engine.Server) (*QuicWorld, error) {
	q := &QuicWorld{Eng: eng}
	cert, err := selfSigned()
	if err != nil {
		return nil, err
	}
	pc, err := net.ListenPacket("udp", "127.0.0.1:0")
	if err != nil {
		return nil, err
	}
	q.pc = pc
	q.Addr = pc.LocalAddr().String()
	logger := slog.New(slog.NewTextHandler(lockedBuf{&q.logMu, &q.LogBuf}, &slog.HandlerOptions{Level: slog.LevelWarn}))
	mux := http.NewServeMux()
	q.Srv = &wt.Server{
		H3:          http3.Server{Handler: mux, TLSConfig: &tls.Config{Certificates: []tls.Certificate{cert}, NextProtos: []string{"h3"}}, Logger: logger},
		CheckOrigin: func(*http.Request) bool { return true },
	}
	mux.HandleFunc("/engine.io/", func(w http.ResponseWriter, r *http.Request) {
		if webtrans.IsWebTransportUpgrade(r) {
			eng.OnWebTransportSession(types.NewHttpContext(w, r), q.Srv)
		} else {
			eng.HandleRequest(types.NewHttpContext(w, r))
		}
	})
	go q.Srv.Serve(pc)
	return q, nil
}

func (q *QuicWorld) Log() string {
	q.logMu.Lock()
	defer q.logMu.Unlock()
	return q.LogBuf.String()
}

func (q *QuicWorld) Close() {
	q.Srv.Close()
	q.pc.Close()
}

// WTClient is a real WebTransport client connection.
type WTClient struct {
	Dialer  *wt.Dialer
	Session *wt.Session
	Conn    *webtrans.Conn
	Stream  wt.Stream
	Status  int
}

// WriteRaw writes bytes on the stream as they are (hand-made frames).
func (c *WTClient) WriteRaw(b []byte) error {
	_, err := c.Stream.Write(b)
	return err
}

// CancelStream resets both directions of the stream; the session stays.
func (c *WTClient) CancelStream() {
	c.Stream.CancelRead(0)
	c.Stream.CancelWrite(0)
}

// DialWT opens a session and, unless noStream, a bidirectional stream wrapped in the
// library's framing.
func (q *QuicWorld) DialWT(noStream bool) (*WTClient, error) {
	d := &wt.Dialer{TLSClientConfig: &tls.Config{InsecureSkipVerify: true, NextProtos: []string{"h3"}}}
	ctx, cancel := context.WithTimeout(context.Background(), 5*time.Second)
	defer cancel()
	resp, sess, err := d.Dial(ctx, "https://"+q.Addr+"/engine.io/", nil)
	c := &WTClient{Dialer: d, Session: sess}
	if resp != nil {
		c.Status = resp.StatusCode
	}
	if err != nil {
		return c, err
	}
	if noStream {
		return c, nil
	}
	st, err := sess.OpenStreamSync(ctx)
	if err != nil {
		return c, fmt.Errorf("open stream: %w", err)
	}
	c.Stream = st
	c.Conn = webtrans.NewConn(sess, st, false, 0, 0, nil, nil, nil)
	return c, nil
}

// ReadTimeout reads one message with a real-time bound.
func (c *WTClient) ReadTimeout(d time.Duration) (binary bool, data []byte, err error) {
	type res struct {
		mt  int
		p   []byte
		err error
	}
	ch := make(chan res, 1)
	go func() {
		mt, p, err := c.Conn.ReadMessage()
		ch <- res{mt, p, err}
	}()
	select {
	case r := <-ch:
		return r.mt == webtrans.BinaryMessage, r.p, r.err
	case <-time.After(d):
		return false, nil, fmt.Errorf("timeout after %v", d)
	}
}

func (c *WTClient) Close() {
	if c.Session != nil {
		c.Session.CloseWithError(0, "")
	}
	if c.Dialer != nil {
		c.Dialer.Close()
	}
}
