#!/bin/bash
# re-evaluate every seeded change (scratch worktrees, $1 in parallel); one line per change
par=${1:-4}
cd "$(dirname "$0")/.."
mkdir -p /tmp/mev
ls seeded | xargs -P $par -I{} sh -c 'python3 tools/mutant.py run seeded/{} > /tmp/mev/{}.log 2>&1'
python3 - <<'PY'
import json,glob,os
miss=[]
for m in sorted(glob.glob('/verif/seeded/*/meta.json')):
    d=json.load(open(m)); ev=d.get('evaluation',{})
    ok=ev.get('applies') and ev.get('builds_and_pinned_tests_pass') and ev.get('demo_fails_with_change') and ev.get('demo_passes_without_change')
    caught=[k for k,v in ev.get('checks',{}).items() if v.get('exit')==1]
    print(os.path.basename(os.path.dirname(m)), 'valid' if ok else 'INVALID', 'caught by '+','.join(caught) if caught else 'MISSED')
PY
