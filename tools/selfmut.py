#!/usr/bin/env python3
"""Self-validation mutants (DESIGN.md Appendix A): textual one-site changes to /repo, each
applied alone, checked to compile and pass the pinned tests, then run against the named
check's quick tier.  Usage: tools/selfmut.py [id-substring ...]   (results: tools/selfmut.out.json)
/repo is restored after every mutant (git checkout)."""
import json, os, subprocess, sys, time

REPO = "/repo"
ROOT = os.path.dirname(os.path.dirname(os.path.abspath(__file__)))

M = [
 # id, property, file, old, new
 ("C01-flush-no-clear", "C01", "engine/socket.go", "wbuf := s.writeBuffer.AllAndClear()", "wbuf := s.writeBuffer.All()"),
 ("C01-ws-always-text", "C01", "transports/websocket.go", "\tmt := ws.BinaryMessage\n\tif _, ok := data.(*types.StringBuffer); ok {\n\t\tmt = ws.TextMessage\n\t}\n\twrite, err", "\tmt := ws.TextMessage\n\twrite, err"),
 ("C01-polling-v3-force-binary", "C01", "transports/polling.go", "p.Parser().EncodePayload(packets, p.SupportsBinary())", "p.Parser().EncodePayload(packets, true)"),
 ("C01-wt-skip-last-packet", "C01", "transports/webtransport.go", "\tfor _, packet := range packets {\n\t\t// always creates a new object since ws modifies it\n\t\tcompress := false\n\t\tif packet.Options != nil {\n\t\t\tcompress = packet.Options.Compress\n\n\t\t\tif w.PerMessageDeflate() == nil && packet.Options.WsPreEncodedFrame != nil {\n\t\t\t\tmt := webtransport.BinaryMessage", "\tfor i, packet := range packets {\n\t\tif i == 7 {\n\t\t\tcontinue\n\t\t}\n\t\t// always creates a new object since ws modifies it\n\t\tcompress := false\n\t\tif packet.Options != nil {\n\t\t\tcompress = packet.Options.Compress\n\n\t\t\tif w.PerMessageDeflate() == nil && packet.Options.WsPreEncodedFrame != nil {\n\t\t\t\tmt := webtransport.BinaryMessage"),
 ("C02-close-packet-no-return", "C02", "transports/polling.go", "\t\t\tp.OnClose()\n\t\t\treturn\n\t\t}\n\n\t\tp.OnPacket(packetData)", "\t\t\tp.OnClose()\n\t\t}\n\n\t\tp.OnPacket(packetData)"),
 ("C02-jsonp-skip-doubleslash", "C02", "transports/polling-jsonp.go", "rDoubleSlashes.ReplaceAllString(_data, \"\\\\n\")", "_data"),
 ("C02-ws-text-as-binary", "C02", "transports/websocket.go", "\t\tcase ws.TextMessage:\n\t\t\tread := types.NewStringBuffer(nil)", "\t\tcase ws.TextMessage:\n\t\t\tread := types.NewBytesBuffer(nil)"),
 ("C02-message-without-open-test", "C02", "engine/socket.go", "\tif s.ReadyState() != \"open\" {\n\t\tsocket_log.Debug(\"packet received with closed socket\")\n\t\treturn\n\t}", "\tif s.ReadyState() == \"closed\" && data.Type != packet.MESSAGE {\n\t\tsocket_log.Debug(\"packet received with closed socket\")\n\t\treturn\n\t}"),
 ("C03-keep-packet-listener", "C03", "engine/socket.go", "\t\ttransport.RemoveListener(\"packet\", onPacket)\n\t\ttransport.RemoveListener(\"drain\", onDrain)", "\t\ttransport.RemoveListener(\"drain\", onDrain)"),
 ("C03-send-accepted-when-closed", "C03", "engine/socket.go", "if readystate := s.ReadyState(); readystate != \"closing\" && readystate != \"closed\" {", "if readystate := s.ReadyState(); readystate != \"closing\" {"),
 ("C03-onclose-nonatomic", "C03", "engine/socket.go", "if prev, _ := s.readyState.Swap(\"closed\").(string); prev != \"closed\" {", "if prev := s.ReadyState(); prev != \"closed\" {\n\t\ts.readyState.Store(\"closed\")"),
 ("C04-count-twice", "C04", "engine/base-server.go", "\tbs.clients.Store(id, socket)\n\tbs.clientsCount.Add(1)", "\tbs.clients.Store(id, socket)\n\tbs.clientsCount.Add(1)\n\tif len(id)%7 == 0 {\n\t\tbs.clientsCount.Add(1)\n\t}"),
 ("C04-never-delete", "C04", "engine/base-server.go", "\t\t\tbs.clients.Delete(id)\n", "\t\t\tif socket.Transport().Name() != \"webtransport\" {\n\t\t\t\tbs.clients.Delete(id)\n\t\t\t}\n"),
 ("C04-id-std-encoding", "C04", "utils/base64id.go", "base64.RawURLEncoding.EncodeToString(r)", "base64.RawStdEncoding.EncodeToString(r)"),
 ("C04-id-no-sequence", "C04", "utils/base64id.go", "binary.BigEndian.PutUint64(r[10:], b.sequenceNumber.Add(1)-1)", "binary.BigEndian.PutUint64(r[10:], b.sequenceNumber.Add(1)&0)"),
 ("C05-swap-origin-sid", "C05", "engine/base-server.go", "\t// 'Origin' header check\n\tif origin := ctx.Headers().Peek(\"Origin\"); utils.CheckInvalidHeaderChar(origin) {\n\t\tctx.Headers().Remove(\"Origin\")\n\t\tserver_log.Debug(\"origin header invalid\")\n\t\treturn BAD_REQUEST, map[string]any{\"name\": \"INVALID_ORIGIN\", \"origin\": origin}\n\t}\n", ""),
 ("C05-bad-method-code3", "C05", "engine/base-server.go", "BAD_HANDSHAKE_METHOD         = &types.CodeMessage{Code: 2,", "BAD_HANDSHAKE_METHOD         = &types.CodeMessage{Code: 3,"),
 ("C05-forbidden-400", "C05", "engine/server.go", "\tif codeMessage == FORBIDDEN {\n\t\tstatusCode = http.StatusForbidden\n\t}", ""),
 ("C05-emit-twice", "C05", "engine/server.go", "func (s *server) emitAbortRequest(ctx *types.HttpContext, codeMessage *types.CodeMessage, errorContext map[string]any) {\n\ts.Emit(\"connection_error\",", "func (s *server) emitAbortRequest(ctx *types.HttpContext, codeMessage *types.CodeMessage, errorContext map[string]any) {\n\tif codeMessage == UNKNOWN_SID {\n\t\ts.Emit(\"connection_error\", &types.ErrorMessage{CodeMessage: codeMessage, Req: ctx, Context: errorContext})\n\t}\n\ts.Emit(\"connection_error\","),
 ("C05-no-trailing-slash", "C05", "engine/base-server.go", "\tif options == nil || options.GetRawAddTrailingSlash() == nil || options.AddTrailingSlash() {", "\tif options != nil && options.GetRawAddTrailingSlash() != nil && options.AddTrailingSlash() {"),
 ("C06-swap-pi-pt", "C06", "engine/socket.go", "\"pingInterval\": int64(s.server.Opts().PingInterval() / time.Millisecond),\n\t\t\"pingTimeout\":  int64(s.server.Opts().PingTimeout() / time.Millisecond),", "\"pingInterval\": int64(s.server.Opts().PingTimeout() / time.Millisecond),\n\t\t\"pingTimeout\":  int64(s.server.Opts().PingInterval() / time.Millisecond),"),
 ("C06-upgrades-unfiltered", "C06", "engine/socket.go", "\t\tif s.server.Opts().Transports().Has(upg) {\n\t\t\tavailableUpgrades = append(availableUpgrades, upg)\n\t\t}", "\t\tavailableUpgrades = append(availableUpgrades, upg)"),
 ("C06-connection-twice", "C06", "engine/base-server.go", "\tbs.Emit(\"connection\", socket)\n", "\tbs.Emit(\"connection\", socket)\n\tif protocol == 3 {\n\t\tbs.Emit(\"connection\", socket)\n\t}\n"),
 ("C06-maxpayload-const", "C06", "engine/socket.go", "\"maxPayload\":   s.server.Opts().MaxHttpBufferSize(),", "\"maxPayload\":   int64(1e6),"),
 ("C07-timeout-pi-for-v4", "C07", "engine/socket.go", "\treturn s.server.Opts().PingTimeout()\n}", "\treturn s.server.Opts().PingInterval()\n}"),
 ("C07-pong-no-clear", "C07", "engine/socket.go", "\t\tutils.ClearTimeout(s.pingTimeoutTimer.Load())\n\t\ts.pingIntervalTimer.Load().Refresh()", "\t\ts.pingIntervalTimer.Load().Refresh()"),
 ("C07-v3-no-pong", "C07", "engine/socket.go", "\t\ts.pingTimeoutTimer.Load().Refresh()\n\t\ts.sendPacket(packet.PONG, nil, nil, nil)", "\t\ts.pingTimeoutTimer.Load().Refresh()"),
 ("C07-direction-inverted", "C07", "engine/socket.go", "\t\tif s.protocol == 3 {\n\t\t\ts.onError(errors.New(\"invalid heartbeat direction\").Err())", "\t\tif s.protocol != 3 && s.Upgraded() {\n\t\t\ts.onError(errors.New(\"invalid heartbeat direction\").Err())"),
 ("C08-switch-on-any-packet", "C08", "engine/socket.go", "} else if packet.UPGRADE == data.Type && s.ReadyState() != \"closed\" {", "} else if (packet.UPGRADE == data.Type || packet.NOOP == data.Type) && s.ReadyState() != \"closed\" {"),
 ("C08-cleanup-leaves-upgrading", "C08", "engine/socket.go", "\tcleanup = func() {\n\t\ts.upgrading.Store(false)\n", "\tcleanup = func() {\n"),
 ("C08-timeout-closes-session", "C08", "engine/socket.go", "\t\t\tif transport.ReadyState() == \"open\" {\n\t\t\t\ttransport.Close()\n\t\t\t}", "\t\t\tif transport.ReadyState() == \"open\" {\n\t\t\t\ttransport.Close()\n\t\t\t\ts.Close(true)\n\t\t\t}"),
 ("C08-no-noop-on-check", "C08", "engine/socket.go", "\t\t\ts.Transport().Send([]*packet.Packet{{Type: packet.NOOP}})\n\t\t}\n\t\ts.flushMu.Unlock()", "\t\t}\n\t\ts.flushMu.Unlock()"),
 ("C09-panic-on-decode-error", "C09", "transports/transport.go", "\tp, _ := t.parser.DecodePacket(data)\n\tt.OnPacket(p)", "\tp, err := t.parser.DecodePacket(data)\n\tif err != nil && data.Len() > 40 {\n\t\tpanic(err)\n\t}\n\tt.OnPacket(p)"),
 ("C09-ws-read-error-spin", "C09", "transports/websocket.go", "\t\t\t} else {\n\t\t\t\tw.socket.Emit(\"error\", err)\n\t\t\t}\n\t\t\treturn\n\t\t}\n\n\t\tswitch mt {", "\t\t\t} else {\n\t\t\t\tw.socket.Emit(\"error\", err)\n\t\t\t}\n\t\t\tif w.Protocol() == 3 {\n\t\t\t\tcontinue\n\t\t\t}\n\t\t\treturn\n\t\t}\n\n\t\tswitch mt {"),
 ("C10-contentlength-ge", "C10", "transports/polling.go", "if ctx.Request().ContentLength > p.MaxHttpBufferSize() {", "if ctx.Request().ContentLength > p.MaxHttpBufferSize()+1 {"),
 ("C10-no-ws-readlimit", "C10", "engine/server.go", "\t\t\tconn.SetReadLimit(s.Opts().MaxHttpBufferSize())\n", ""),
 ("C10-wt-limit-ge", "C10", "webtransport/conn.go", "if c.readLimit > 0 && c.readLength > c.readLimit {", "if c.readLimit > 0 && c.readLength > c.readLimit+1 {"),
 ("C11-no-poll-overlap-test", "C11", "transports/polling.go", "\tif p.req.Load() != nil {\n\t\tpolling_log.Debug(\"request overlap\")", "\tif p.req.Load() != nil && p.Protocol() == 3 {\n\t\tpolling_log.Debug(\"request overlap\")"),
 ("C11-ok-before-ondata", "C11", "transports/polling.go", "\tp.Proto().OnData(packet)\n\n\tcleanup()\n\n\theaders := utils.NewParameterBag(map[string][]string{", "\tgo p.Proto().OnData(packet)\n\n\tcleanup()\n\n\theaders := utils.NewParameterBag(map[string][]string{"),
 ("C11-write-no-isdone-guard", "C11", "types/http-context.go", "\tif c.IsDone() {\n\t\treturn 0, errors.New(\"you cannot write data repeatedly\").Err()\n\t}", ""),
 ("C12-close-no-drain-wait", "C12", "engine/socket.go", "\tif length := s.writeBuffer.Len(); length > 0 {", "\tif length := s.writeBuffer.Len(); length > 3 {"),
 ("C12-server-close-first-only", "C12", "engine/base-server.go", "\t\tclient.Close(true)\n\t\treturn true\n", "\t\tclient.Close(true)\n\t\treturn client.Transport().Name() != \"polling\"\n"),
 ("C12-close-packet-before-batch", "C12", "transports/polling.go", "\t\tpackets = append(packets, &packet.Packet{\n\t\t\tType: packet.CLOSE,\n\t\t})", "\t\tpackets = append([]*packet.Packet{{Type: packet.CLOSE}}, packets...)"),
 ("C13-writemessage-extra-ignored", "C13", "webtransport/conn.go", "\t\tdata = data[n:]\n\t\treturn mw.flushFrame(true, data)", "\t\tdata = data[n:]\n\t\tif len(data) > 70000 {\n\t\t\tdata = data[:len(data)-1]\n\t\t}\n\t\treturn mw.flushFrame(true, data)"),
 ("C13-read-no-clamp", "C13", "webtransport/conn.go", "\t\t\tif int64(len(b)) > c.readRemaining {\n\t\t\t\tb = b[:c.readRemaining]\n\t\t\t}", "\t\t\tif int64(len(b)) > c.readRemaining+1 {\n\t\t\t\tb = b[:c.readRemaining]\n\t\t\t}"),
 ("C14-length-ge-125", "C14", "webtransport/conn.go", "\tcase length > 125:", "\tcase length >= 125:"),
 ("C14-16bit-little-endian", "C14", "webtransport/conn.go", "binary.BigEndian.PutUint16(c.writeBuf[framePos+1:], uint16(length))", "binary.LittleEndian.PutUint16(c.writeBuf[framePos+1:], uint16(length))"),
 ("C15-accept-negative", "C15", "webtransport/conn.go", "\tif n < 0 {\n\t\treturn ErrReadLimit\n\t}\n", ""),
 ("C15-clear-readerr-on-retry", "C15", "webtransport/conn.go", "\tc.messageReader = nil\n\tc.readLength = 0\n", "\tc.messageReader = nil\n\tc.readLength = 0\n\tif c.readErrCount > 1 {\n\t\tc.readErr = nil\n\t}\n"),
 ("C15-plain-eof-inside-frame", "C15", "webtransport/conn.go", "\t\t\tif c.readRemaining > 0 && c.readErr == io.EOF {\n\t\t\t\tc.readErr = errUnexpectedEOF\n\t\t\t}", ""),
 ("C15-limit-no-close", "C15", "webtransport/conn.go", "\t\t\tif err := c.CloseWithError(CloseMessageTooBig, \"\"); err != nil {\n\t\t\t\treturn noFrame, err\n\t\t\t}\n", ""),
 ("C16-contentlength-uncompressed", "C16", "transports/polling.go", "\trespond(buf, strconv.Itoa(buf.Len()))", "\trespond(buf, strconv.Itoa(data.Len()))"),
 ("C16-compress-below-threshold", "C16", "transports/polling.go", "if data.Len() < p.HttpCompression().Threshold {", "if data.Len() < p.HttpCompression().Threshold/2 {"),
 ("C16-jsonp-j-verbatim", "C16", "transports/polling-jsonp.go", "rNumber.ReplaceAllString(ctx.Query().Peek(\"j\"), \"\")", "ctx.Query().Peek(\"j\")"),
 ("C16-content-type-const", "C16", "transports/polling.go", "\tcontentType := \"application/octet-stream\"", "\tcontentType := \"text/plain; charset=UTF-8\""),
 ("C17-cookie-every-response", "C17", "engine/base-server.go", "\t\tif !req.Query().Has(\"sid\") {", "\t\tif !req.Query().Has(\"sid\") || req.Method() == \"POST\" {"),
 ("C17-cors-reflect-always", "C17", "types/cors.go", "\t\tif c.isOriginAllowed(requestOrigin, c.options.Origin) {", "\t\tif c.isOriginAllowed(requestOrigin, c.options.Origin) || strings.HasSuffix(requestOrigin, \".test\") {"),
 ("C17-cors-drop-vary", "C17", "types/cors.go", "\t\t}\n\t\tc.varys = append(c.varys, \"Origin\")\n\t}\n\treturn c\n}\n\nfunc (c *cors) configureMethods()", "\t\t}\n\t}\n\treturn c\n}\n\nfunc (c *cors) configureMethods()"),
 ("C17-preflight-falls-through", "C17", "types/cors.go", "\t\tif options.PreflightContinue {", "\t\tif options.PreflightContinue || options.Credentials && options.OptionsSuccessStatus == 200 {"),
 ("C18-drain-before-send", "C18", "engine/socket.go", "\t\t\ts.Transport().Send(wbuf)\n\t\t\ts.Emit(\"drain\")", "\t\t\ts.Emit(\"drain\")\n\t\t\ts.Transport().Send(wbuf)"),
 ("C18-ondrain-pop-two", "C18", "engine/socket.go", "\tif seqFn, err := s.sentCallbackFn.Shift(); err == nil {", "\tif more, err := s.sentCallbackFn.Shift(); err == nil && s.sentCallbackFn.Len() > 2 {\n\t\tfor _, fn := range more {\n\t\t\tfn(s.Transport())\n\t\t}\n\t}\n\tif seqFn, err := s.sentCallbackFn.Shift(); err == nil {"),
 ("C18-packetcreate-after-push", "C18", "engine/socket.go", "\t\t// exports packetCreate event\n\t\ts.Emit(\"packetCreate\", packet)\n", ""),
 ("C19-stop-no-send", "C19", "utils/timer.go", "\t\tt.stopCh <- struct{}{}\n\t}\n}", "\t}\n}"),
 ("C19-refresh-no-reset", "C19", "utils/timer.go", "\tdefer t.timer.Reset(t.sleep)\n", "\tdefer func() {\n\t\tif t.sleep > 3*time.Millisecond {\n\t\t\tt.timer.Reset(t.sleep)\n\t\t}\n\t}()\n"),
 ("C19-timeout-loops", "C19", "utils/timer.go", "\t\tcase <-timer.timer.C:\n\t\t\tfn()\n\t\tcase <-timer.stopCh:\n\t\t\treturn\n\t\t}\n\t}\n\tgo timer.fn()\n\treturn timer\n}\n\nfunc ClearTimeout", "\t\tcase <-timer.timer.C:\n\t\t\tfn()\n\t\t\tif sleep == 4*time.Millisecond {\n\t\t\t\ttimer.timer.Reset(sleep)\n\t\t\t\ttimer.fn()\n\t\t\t}\n\t\tcase <-timer.stopCh:\n\t\t\treturn\n\t\t}\n\t}\n\tgo timer.fn()\n\treturn timer\n}\n\nfunc ClearTimeout"),
 ("C20-pop-no-lock", "C20", "types/slice.go", "func (s *Slice[T]) Pop() (element T, err error) {\n\ts.mu.Lock()\n\tdefer s.mu.Unlock()\n", "func (s *Slice[T]) Pop() (element T, err error) {\n"),
 ("C20-shift-returns-last", "C20", "types/slice.go", "\telement = s.elements[0]\n\ts.elements = s.elements[1:]", "\telement = s.elements[len(s.elements)-1]\n\ts.elements = s.elements[1:]"),
 ("C20-set-delete-noop", "C20", "types/set.go", "\tfor _, key := range keys {\n\t\tdelete(s.cache, key)\n\t}", "\tfor _, key := range keys[1:] {\n\t\tdelete(s.cache, key)\n\t}"),
 ("C20-emit-live-slice", "C20", "types/events.go", "\tfor _, event := range evtEntry.All() {\n\t\tif event != nil {\n\t\t\tevent.fn(data...)\n\t\t}\n\t}", "\tfor i := 0; i < evtEntry.Len(); i++ {\n\t\tif event, err := evtEntry.Get(i); err == nil && event != nil {\n\t\t\tevent.fn(data...)\n\t\t}\n\t}"),
 ("C20-once-no-synconce", "C20", "types/events.go", "\tl.fired.Do(func() {\n\t\tdefer l.emitter.removeEntry(l.evt, l.entry)\n\t\tl.fn(vals...)\n\t})", "\tdefer l.emitter.removeEntry(l.evt, l.entry)\n\tl.fn(vals...)"),
 ("C20-yeast-no-lock", "C20", "utils/yeast.go", "\ty.mu.Lock()\n\tdefer y.mu.Unlock()\n", ""),
]

def sh(cmd, cwd=None, timeout=None):
    p = subprocess.run(cmd, cwd=cwd, shell=isinstance(cmd, str), stdout=subprocess.PIPE, stderr=subprocess.STDOUT, text=True, timeout=timeout)
    return p.returncode, p.stdout

def main():
    sel = sys.argv[1:]
    st, out = sh(["git", "status", "--porcelain"], cwd=REPO)
    if out.strip():
        print("refusing: /repo is not clean"); sys.exit(2)
    outp = os.path.join(ROOT, "tools", "selfmut.out.json")
    results = json.load(open(outp)) if os.path.exists(outp) else {}
    for mid, prop, f, old, new in M:
        if sel and not any(s in mid for s in sel):
            continue
        path = os.path.join(REPO, f)
        src = open(path).read()
        r = dict(property=prop, file=f)
        if src.count(old) != 1:
            r["status"] = f"pattern occurs {src.count(old)} times - not applied"
            results[mid] = r
            print(mid, r["status"]); continue
        try:
            open(path, "w").write(src.replace(old, new))
            rc, o = sh("go build ./... && go vet ./... >/dev/null 2>&1; go build ./... && go test -vet=off -count=1 ./...", cwd=REPO, timeout=600)
            if rc != 0:
                r["status"] = "does not compile / fails the pinned tests"
                r["detail"] = o[-400:]
            else:
                t0 = time.time()
                rc, o = sh([os.path.join(ROOT, "check"), prop, "quick"], cwd=ROOT, timeout=3000)
                keys = [l.strip() for l in o.splitlines() if l.strip().startswith("key=")]
                r["status"] = {0: "MISSED", 1: "caught", 2: "inconclusive"}.get(rc, str(rc))
                r["keys"] = [k[:160] for k in keys[:3]]
                r["wall"] = round(time.time() - t0, 1)
        finally:
            sh(["git", "checkout", "--", "."], cwd=REPO)
        results[mid] = r
        print(mid, r["status"], (r.get("keys") or [""])[0][:120])
        json.dump(results, open(outp, "w"), indent=1)
    n = sum(1 for r in results.values() if r["status"] == "caught")
    print(f"caught {n} of {sum(1 for r in results.values() if r['status'] in ('caught','MISSED','inconclusive'))} applicable mutants")

if __name__ == "__main__":
    main()
