#!/bin/bash
# flake hunt: every check's quick tier at seeds $1..$2, $3 checks in parallel (load on purpose);
# prints one line per (seed, check) that did not exit 0, with the violation/inconclusive lines
from=${1:-1}; to=${2:-10}; par=${3:-3}; tier=${4:-quick}
cd "$(dirname "$0")/.."
one() {
  seed=$1; id=$2; tier=$3
  out=$(VERIF_SEED=$seed VERIF_KEEP=1 ./check $id $tier 2>&1); e=$?
  if [ $e -ne 0 ]; then
    echo "== seed=$seed $id exit=$e"
    echo "$out" | grep -E "VIOLATION|key=|inconclusive|INCONCLUSIVE" | cut -c1-700
  fi
}
export -f one
for seed in $(seq $from $to); do
  for i in $(seq -w 1 20); do echo "$seed C$i $tier"; done
done | xargs -P $par -L 1 bash -c 'one $0 $1 $2'
echo "sweep $from..$to done"
