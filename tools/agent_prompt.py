#!/usr/bin/env python3
"""Print the prompt handed to a fresh sub-agent that is asked for a seeded change.

  tools/agent_prompt.py <PROP> <worktree> [extra focus text]

The agent sees only the property (from properties.jsonl), one-line summaries of the changes earlier
agents wrote for the same property (so that it looks elsewhere), and its own scratch worktree.  Nothing
about /verif's checks, lanes, hooks or oracles is given."""
import json, os, sys, glob

ROOT = os.path.dirname(os.path.dirname(os.path.abspath(__file__)))
prop, wt = sys.argv[1], sys.argv[2]
focus = sys.argv[3] if len(sys.argv) > 3 else ""
p = None
for l in open(os.path.join(ROOT, "properties.jsonl")):
    d = json.loads(l)
    if d["id"] == prop:
        p = d
prev = []
for m in sorted(glob.glob(os.path.join(ROOT, "seeded", prop + "-*", "meta.json"))):
    s = json.load(open(m)).get("summary", "")
    prev.append("- " + s[:260].replace("\n", " "))
print(f"""You are helping to evaluate a verification effort for the Go library zishang520/engine.io (an Engine.IO server: session handshake, polling / WebSocket / WebTransport transports, upgrade and heartbeat state machine, a WebTransport framing layer, plus containers/emitter/timer utilities).

Your own scratch git worktree of the library is at {wt} (a detached checkout; work ONLY there; never touch /repo or /verif, never read /verif). Toolchain: always `export GOFLAGS=-mod=mod GOPROXY=off` first; there is no network. The library's existing test suite is `cd {wt} && go test -vet=off -count=1 ./...` (112 tests in config, errors, events, log, types, utils; it passes now). Files guarded by `//go:build verif` and calls to `verifhook.Point(...)` are inert instrumentation: leave them alone and do not rely on them.

Here is a semantic property the library is supposed to satisfy (JSON):

{json.dumps(p, indent=1)}

TASK: write ONE realistic change to the library (a diff of non-test .go files in {wt}) that BREAKS this property, while
  (a) the library still compiles (`go build ./...`) and the existing test suite above still passes, unedited;
  (b) the change looks like something a maintainer could plausibly commit (a refactor, an optimisation, a tidy-up, a 'fix' of something else, a copy-paste slip, a changed default) — not sabotage, no dead code, no special-casing of magic values;
  (c) it needs something SPECIFIC to manifest — a particular goroutine interleaving, a fault/crash/disconnect at a particular point, a multi-step sequence of operations, an unusual input or option combination, or two cooperating edits that each look fine alone. Ordinary use (one client connecting, sending a few messages, disconnecting) must still work; a change that any smoke test exposes at once is not wanted;
  (d) you provide a DEMONSTRATION: a Go test file (put it inside the worktree, e.g. {wt}/engine/zz_{prop.lower()}_demo_test.go or in the package that fits; it may use net/http/httptest, gorilla/websocket client, real time; it must be deterministic or retry internally until the failure shows, finishing within ~60 s) that FAILS with your change and PASSES on the unchanged code. Verify both directions yourself with `git diff > /tmp/x.diff; git apply -R /tmp/x.diff; ...; git apply /tmp/x.diff` — do NOT use `git stash` (the stash is shared between worktrees and other people are working in sibling worktrees).

Earlier changes written for this same property (do NOT repeat their mechanism or code site; pick a different clause of the property, a different file/function, or a different kind of trigger):
{chr(10).join(prev) if prev else "- (none)"}
{("Suggested direction (optional): " + focus) if focus else ""}

DELIVERABLE: create the directory {wt}/_mutant/ containing
  - patch.diff   : `git diff` of your library change ONLY (no demo file, no _mutant), applicable with `git apply` on the clean worktree;
  - demo/        : the demonstration test file(s);
  - meta.json    : {{"property": "{prop}", "summary": "<what was changed, where, and why it breaks the property>", "needs": "<what exactly is needed for it to manifest>", "demo_path": "<path of the demo file relative to the worktree root, e.g. engine/zz_{prop.lower()}_demo_test.go>", "demo_cmd": "cd {wt} && go test -vet=off -count=1 -run <TestName> ./<pkg>/", "fails_with_change": true, "passes_without_change": true}}
At the end leave the worktree with your change applied and the demo file in place. Reply with a 5-line summary (what, where, needs, demo command, both directions verified yes/no). If after honest effort you cannot find a change that satisfies (a)-(d), say so instead of delivering a weak one.""")
