#!/bin/bash
# statement coverage of /repo reached by the quick tier of all checks (one lane, seed 1, no race
# detector); prints the total and the functions below 60 %.  Diagnostic only: known findings show
# as FAIL lines because no driver classifies them here.
out=${1:-/tmp/cov}
mkdir -p $out
cd "$(dirname "$0")/../h"
export GOFLAGS=-mod=mod GOPROXY=off GOSUMDB=off GOTOOLCHAIN=local VERIF_TIER=quick
go1.26.8 test -tags verif -count=1 -timeout 0 -coverpkg=github.com/zishang520/engine.io/v2/... -coverprofile=$out/all.out \
  -run 'TestC(01|02|03|04|05|06|07|08|09|10|11|12|13|14|15|16|17|18|19|20)$' ./checks > $out/run.log 2>&1
go1.26.8 tool cover -func=$out/all.out | tail -1
go1.26.8 tool cover -func=$out/all.out | awk '{p=$3; gsub("%","",p); if (p+0 < 60) print}' | grep -v "verifhook\|log/log.go"
