#!/usr/bin/env python3
"""Evaluate a seeded change against the checks.

  tools/mutant.py import <PROP> <worktree>      copy _mutant/{patch.diff,demo,meta.json} into seeded/<PROP>-<n>/
  tools/mutant.py run <seeded-dir> [check ...]   apply the patch to a scratch worktree of /repo's HEAD (under /tmp),
                                                 confirm build + pinned tests + demo both ways, run the named checks
                                                 (default: the property's own, quick) against that worktree
                                                 (VERIF_REPO / VERIF_OUT_DIR of ./check), remove the worktree.
/repo itself is never touched, so evaluations can run side by side and next to a sweep."""
import json, os, shutil, subprocess, sys, time

ROOT = os.path.dirname(os.path.dirname(os.path.abspath(__file__)))
REPO = "/repo"

def sh(cmd, cwd=None, env=None, timeout=None):
    p = subprocess.run(cmd, cwd=cwd, env=env, shell=isinstance(cmd, str), stdout=subprocess.PIPE, stderr=subprocess.STDOUT, text=True, timeout=timeout)
    return p.returncode, p.stdout

def clean_repo(extra):
    global REPO
    wt = REPO
    REPO = "/repo"
    if wt != "/repo":
        sh(["git", "-C", "/repo", "worktree", "remove", "--force", wt])
        shutil.rmtree(wt, ignore_errors=True)
        shutil.rmtree(wt + ".out", ignore_errors=True)
        sh(["git", "-C", "/repo", "worktree", "prune"])

def cmd_import(prop, wt):
    src = os.path.join(wt, "_mutant")
    n = 1
    while os.path.exists(os.path.join(ROOT, "seeded", f"{prop}-{n}")):
        n += 1
    dst = os.path.join(ROOT, "seeded", f"{prop}-{n}")
    os.makedirs(dst)
    shutil.copy(os.path.join(src, "patch.diff"), dst)
    if os.path.isdir(os.path.join(src, "demo")):
        shutil.copytree(os.path.join(src, "demo"), os.path.join(dst, "demo"))
    meta = json.load(open(os.path.join(src, "meta.json")))
    meta["origin"] = "sub-agent given only the property text and a scratch worktree"
    json.dump(meta, open(os.path.join(dst, "meta.json"), "w"), indent=1)
    print(dst)

def cmd_run(d, checks):
    meta = json.load(open(os.path.join(d, "meta.json")))
    prop = meta["property"]
    checks = checks or [prop]
    global REPO
    st, out = sh(["git", "status", "--porcelain"], cwd="/repo")
    if out.strip():
        print("refusing: /repo is not clean:\n" + out)
        sys.exit(2)
    wt = f"/tmp/mw.{os.getpid()}"
    rc, out = sh(["git", "-C", "/repo", "worktree", "add", "--detach", wt, "HEAD"])
    if rc != 0:
        print("cannot create the worktree:\n" + out)
        sys.exit(2)
    REPO = wt
    cenv = dict(os.environ, VERIF_REPO=wt, VERIF_OUT_DIR=wt + ".out")
    demo_files = []
    ported_path = [None]
    result = dict(property=prop, dir=d, checks={})
    try:
        pf = os.path.join(os.path.abspath(d), "patch.diff")
        rc, out = sh(["git", "apply", pf], cwd=REPO)
        if rc != 0:
            # hook lines added to /repo since the change was written can shift its context:
            # retry with less context, then with patch(1)'s fuzz
            rc, out2 = sh(["git", "apply", "-C1", pf], cwd=REPO)
            if rc != 0:
                rc, out2 = sh(["patch", "-p1", "-F3", "--no-backup-if-mismatch", "-i", pf], cwd=REPO)
            if rc == 0:
                result["applied_with_reduced_context"] = True
                # from here on the ported form is what gets reversed / re-applied
                rc2, ported = sh(["git", "diff"], cwd=REPO)
                pf = os.path.join(REPO, ".ported.diff")
                open(pf, "w").write(ported)
                ported_path[0] = pf
        if rc != 0:
            print("patch does not apply:\n" + out)
            result["applies"] = False
            return result
        result["applies"] = True
        rc, out = sh("go build ./... && go test -vet=off -count=1 ./...", cwd=REPO, timeout=900)
        result["builds_and_pinned_tests_pass"] = rc == 0
        if rc != 0:
            print("build/tests fail with the change:\n" + out[-1500:])
        # demonstration
        dp = meta.get("demo_path")
        demo_src = os.path.join(d, "demo")
        files = []
        for root, _, fns in os.walk(demo_src):
            for fn in fns:
                files.append(os.path.join(root, fn))
        if dp and files:
            import re
            cmd = re.sub(r"^\s*cd\s+\S+\s*&&\s*", "", meta["demo_cmd"])
            for f in files:
                rel = os.path.relpath(f, demo_src)
                if len(files) == 1 or os.path.dirname(rel) == "":
                    # a single file (or flat layout): put it at / next to demo_path
                    rel = dp if len(files) == 1 and dp.endswith(".go") else os.path.join(os.path.dirname(dp) if dp.endswith(".go") else dp, os.path.basename(f))
                os.makedirs(os.path.dirname(os.path.join(REPO, rel)), exist_ok=True)
                shutil.copy(f, os.path.join(REPO, rel))
                demo_files.append(rel)
            rc, out = sh(cmd, cwd=REPO, timeout=1200)
            result["demo_fails_with_change"] = rc != 0
            thepatch = ported_path[0] or os.path.join(os.path.abspath(d), "patch.diff")
            sh(["git", "apply", "-R", thepatch], cwd=REPO)
            rc2, out2 = sh(cmd, cwd=REPO, timeout=1200)
            sh(["git", "apply", thepatch], cwd=REPO)
            result["demo_passes_without_change"] = rc2 == 0
            if rc2 != 0:
                print("demo on the unchanged tree:\n" + out2[-800:])
            for f in demo_files:
                try:
                    os.remove(os.path.join(REPO, f))
                except OSError:
                    pass
            demo_files = []
        for c in checks:
            for tier in ["quick"]:
                t0 = time.time()
                rc, out = sh([os.path.join(ROOT, "check"), c, tier], cwd=ROOT, env=cenv, timeout=3600)
                lines = [l for l in out.splitlines() if l.startswith("VIOLATION") or l.startswith("  key=") or "inconclusive" in l.lower()]
                result["checks"][f"{c}:{tier}"] = dict(exit=rc, wall=round(time.time() - t0, 1), violation_lines=lines[:6])
                print(f"{c} {tier}: exit {rc}", *[l[:900] for l in lines[:6]], sep="\n   ")
    finally:
        clean_repo(demo_files)
    meta["evaluation"] = result
    json.dump(meta, open(os.path.join(d, "meta.json"), "w"), indent=1)
    return result

if __name__ == "__main__":
    if sys.argv[1] == "import":
        cmd_import(sys.argv[2], sys.argv[3])
    elif sys.argv[1] == "run":
        r = cmd_run(sys.argv[2], sys.argv[3:])
        print(json.dumps({k: v for k, v in r.items() if k != "checks"}))
