#!/bin/bash
# run every check's quick (or $1) tier on the current tree; print one line per check
tier=${1:-quick}
cd "$(dirname "$0")/.."
rc=0
for i in $(seq -w 1 20); do
  out=$(./check C$i $tier 2>&1); e=$?
  echo "$out" | grep -v "^KNOWN-FINDING" | tail -n +1 | grep -E "^C$i|VIOLATION|inconclusive|INCONCLUSIVE" | cut -c1-300
  [ $e -ne 0 ] && rc=1
done
exit $rc
